#!/bin/bash
# Runs the repository's pinned baseline suite with every verification guard OFF.
# (command from /root/.vp/BASELINE.json)
cd /repo || exit 2
unset RUSTFLAGS
export CARGO_NET_OFFLINE=true
if [ -f /w/lib/nextest.toml ] && command -v cargo-nextest >/dev/null; then
  exec cargo nextest run --workspace --no-fail-fast --tool-config-file pb:/w/lib/nextest.toml --profile pb --test-threads 8 --offline
else
  exec cargo test --workspace --no-fail-fast --offline
fi
