#!/bin/bash
# Same as baseline.sh minus the two tests BASELINE.json lists as always failing
# (spmc_repro looped_repro_*: each runs into the 300 s nextest timeout). For my own use only.
cd /repo || exit 2
unset RUSTFLAGS
exec cargo nextest run --workspace --no-fail-fast --tool-config-file pb:/w/lib/nextest.toml --profile pb --test-threads 8 --offline -E 'not test(looped_repro_spmc_sync_hang)'
