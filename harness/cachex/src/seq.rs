use serde::{Deserialize, Serialize};
use vcore::{CaseReport, Check, Failure};
#[derive(Clone, Debug, Serialize, Deserialize)]
pub struct Scenario {}
pub fn execute(_s: &Scenario) -> Result<CaseReport, Failure> { Ok(CaseReport::new()) }
pub fn check(_c: &mut Check) {}
pub fn assumptions() -> Vec<String> { vec![] }
pub fn rule_for(_p: &str) -> String { String::new() }
