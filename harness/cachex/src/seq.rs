//! E1-cache — deterministic sequential cache histories against a reference model.
//! Serves C11, C12, C13, C16, C17 and the sequential clauses of C15.  One interpreter; every
//! oracle clause names the property whose sentence it checks (Failure.property).
//!
//! Determinism: H3 virtual clock (per harness thread), fixed hasher, janitor effectively parked
//! (maintenance_chance 2^31, or 1 = on every insert), maintenance through generated ops, recording
//! listener flushed through a FIFO sentinel.  A background janitor pass can still happen in the
//! `maint_always` configurations (tick 50 ms); every clause below tolerates maintenance at any time.

pub use crate::seqgen::*;

use crate::env::*;
use fibre_cache::error::ComputeResult;
use futures_core::Stream;
use std::collections::{BTreeMap, BTreeSet};
use std::future::Future;
use std::sync::atomic::{AtomicU64, Ordering};
use std::sync::Arc;
use std::time::Duration;
use vcore::{CaseReport, Check, Failure};

const MS: u64 = 1_000_000;

#[derive(Clone, Copy, Debug, PartialEq, Eq)]
enum WState {
  Live,
  Overwritten,
  Removed,
  Cleared,
  Notified(Reason),
}

#[derive(Clone, Debug)]
struct W {
  key: u32,
  cost: u64,
  n: u64,
  /// absolute TTL deadline (ns), if any
  ttl: Option<u64>,
  /// last access that certainly refreshed the idle timer / last access that possibly did
  idle_lo: u64,
  idle_hi: u64,
  state: WState,
  /// index of the op during which it stopped being live
  dead_op: Option<usize>,
  notified: bool,
  maint_seen: bool,
}

#[derive(Clone, Copy, PartialEq, Eq)]
enum Refresh {
  Definite,
  Possible,
  No,
}

struct Run {
  cfg: Cfg,
  focus: String,
  cache: TCache,
  ac: TAsync,
  pool: Arc<rayon::ThreadPool>,
  clock: Arc<AtomicU64>,
  rec: Option<Arc<Recorder>>,
  seen: usize,
  lstate: Option<Arc<LoaderState>>,
  loads_seen: usize,
  exec: Option<Arc<Exec>>,
  next_wid: Arc<AtomicU64>,
  live: BTreeMap<u32, u64>,
  w: BTreeMap<u64, W>,
  now: u64,
  op_i: usize,
  burst: bool,
  rep: CaseReport,
  // non-triviality facts
  dirty_keys: BTreeSet<u32>,
  nt11: bool,
  nt12: bool,
  over_cap_seen: bool,
  cost_changed: bool,
  quiesced: bool,
  nt15: bool,
  reloaded_keys: BTreeSet<u32>,
  reasons: BTreeSet<Reason>,
  nt17: bool,
  inconclusive: u64,
  removed_by_op: Vec<(u32, u64)>,
  /// keys a multi_invalidate may have removed (it returns nothing)
  removed_maybe: Vec<(u32, u64)>,
  /// index of the first op whose notifications have not been processed yet
  sync_from: usize,
  /// write events per shard that no maintenance pass has drained yet (upper bound), and whether
  /// a shard ever had more than its 512-slot buffer holds (diagnosis for over-capacity findings)
  pending: Vec<u32>,
  overflowed: bool,
  /// `Op::Contend`: the next future driven on the async handle is polled once under held shard locks
  contend: std::cell::Cell<bool>,
  /// one key nobody uses per shard that has one (sync `entry()` on it = that shard's write lock)
  hold_keys: Vec<u32>,
  contended_pending: std::cell::Cell<u64>,
  contended_ready: std::cell::Cell<u64>,
}

pub const HOLD_BASE: u32 = 3_000_000_000;

fn fail(prop: &str, api: &str, clause: &str, msg: String) -> Failure {
  Failure::new(prop, format!("E1/cache/{api}/{clause}"), msg)
}

fn hs(a: bool, api: &str) -> String {
  format!("{}.{}", if a { "async" } else { "sync" }, api)
}

impl Run {
  fn build(s: &Scenario, focus: &str) -> Run {
    let cfg = s.cfg.clone();
    let clock = case_clock();
    let pool = case_pool();
    let next_wid = Arc::new(AtomicU64::new(1));
    let mut b: TBuilder = TBuilder::new().hasher(FixedState { collide: cfg.collide }).shards(cfg.shards);
    b = match cfg.capacity {
      Some(c) => b.capacity(c),
      None => b.unbounded(),
    };
    if let Some(t) = cfg.ttl_ms {
      b = b.time_to_live(Duration::from_millis(t));
    }
    if let Some(t) = cfg.tti_ms {
      b = b.time_to_idle(Duration::from_millis(t));
    }
    if let Some(t) = cfg.swr_ms {
      b = b.stale_while_revalidate(Duration::from_millis(t));
    }
    let (tick, size) = WHEELS[cfg.wheel as usize % 4];
    b = b
      .timer_tick_duration(Duration::from_millis(tick))
      .timer_wheel_size(size)
      // the janitor thread only leaves `recv_timeout(tick)` / `sleep(tick)` once per tick, also after
      // the cache is dropped: a long tick would leak one thread + cache per case
      .janitor_tick_interval(Duration::from_millis(if cfg.maint_always { 1000 } else { 50 }))
      .maintenance_chance(if cfg.maint_always { 1 } else { 1 << 31 })
      .maintenance_on_introspection(cfg.introspect);
    b = apply_policy(b, cfg.pol, cfg.capacity, cfg.shards.next_power_of_two());
    let rec = if cfg.listener {
      let r = Arc::new(Recorder::default());
      b = b.eviction_listener(RecListener(r.clone()));
      Some(r)
    } else {
      None
    };
    let mut lstate = None;
    let mut exec = None;
    if cfg.loader != LoaderKind::None {
      let st = Arc::new(LoaderState { next_wid: next_wid.clone(), clock: clock.clone(), cost: cfg.cost(cfg.load_cost), log: Default::default(), cv: Default::default() });
      lstate = Some(st.clone());
      if cfg.loader == LoaderKind::Sync {
        b = b.loader(move |k| st.load(k));
      } else {
        let ex = Exec::start(clock.clone());
        b = b.async_loader(move |k| {
          let st = st.clone();
          async move { st.load(k) }
        });
        b = b.spawner(Arc::new(ExecSpawner(ex.clone())));
        exec = Some(ex);
      }
    }
    let cache = b.build().expect("cache builds");
    let ac = cache.to_async();
    let mut rep = CaseReport::new();
    rep.class(format!("pol:{}", cfg.pol.name()));
    rep.class(format!("shards:{}", cfg.shards));
    rep.class(if cfg.capacity.is_some() { "bounded" } else { "unbounded" });
    if cfg.ttl_ms.is_some() {
      rep.class("cfg:ttl");
    }
    if cfg.tti_ms.is_some() {
      rep.class("cfg:tti");
    }
    if cfg.swr_ms.is_some() {
      rep.class("cfg:swr");
    }
    if cfg.maint_always {
      rep.class("cfg:maint_always");
    }
    if cfg.listener {
      rep.class("cfg:listener");
    }
    Run {
      cfg,
      focus: focus.to_string(),
      cache,
      ac,
      pool,
      clock,
      rec,
      seen: 0,
      lstate,
      loads_seen: 0,
      exec,
      next_wid,
      live: BTreeMap::new(),
      w: BTreeMap::new(),
      now: T0,
      op_i: 0,
      burst: false,
      rep,
      dirty_keys: BTreeSet::new(),
      nt11: false,
      nt12: false,
      over_cap_seen: false,
      cost_changed: false,
      quiesced: false,
      nt15: false,
      reloaded_keys: BTreeSet::new(),
      reasons: BTreeSet::new(),
      nt17: false,
      inconclusive: 0,
      removed_by_op: Vec::new(),
      removed_maybe: Vec::new(),
      sync_from: 0,
      pending: vec![0; s.cfg.shards.next_power_of_two()],
      overflowed: false,
      contend: std::cell::Cell::new(false),
      hold_keys: {
        let mut v: Vec<Option<u32>> = vec![None; s.cfg.shards.next_power_of_two()];
        for i in 0..4096u32 {
          let k = HOLD_BASE + i;
          let sh = key_hash(s.cfg.collide, k) as usize & (s.cfg.shards.next_power_of_two() - 1);
          if v[sh].is_none() {
            v[sh] = Some(k);
          }
        }
        v.into_iter().flatten().collect()
      },
      contended_pending: std::cell::Cell::new(0),
      contended_ready: std::cell::Cell::new(0),
    }
  }

  // ---- contended-lock axis of the async API -------------------------------------------------------

  /// Drives a future of the async handle to completion.  After `Op::Contend` the first poll happens
  /// while this thread holds the write lock of every shard (sync `entry()` guards on keys nobody uses,
  /// dropped without inserting): the future finds its shard contended, returns Pending and is woken
  /// by the release.  Never used for operations that take a *blocking* shard lock inside their
  /// future (run_maintenance; anything under maintenance_on_introspection).
  fn drive<F: std::future::Future>(&self, f: F) -> F::Output {
    let mut f = std::pin::pin!(f);
    if self.contend.replace(false) && !self.cfg.introspect {
      let guards: Vec<_> = self.hold_keys.iter().map(|k| self.cache.entry(*k)).collect();
      let waker = thread_waker();
      let mut cx = std::task::Context::from_waker(&waker);
      let r = f.as_mut().poll(&mut cx);
      drop(guards);
      match r {
        std::task::Poll::Ready(v) => {
          self.contended_ready.set(self.contended_ready.get() + 1);
          return v;
        }
        std::task::Poll::Pending => self.contended_pending.set(self.contended_pending.get() + 1),
      }
    }
    block_on(f)
  }

  // ---- model helpers ---------------------------------------------------------------------

  fn new_val(&self, key: u32) -> Val {
    Val { key, wid: self.next_wid.fetch_add(1, Ordering::SeqCst), n: 0 }
  }

  fn kill(&mut self, key: u32, st: WState) {
    if let Some(wid) = self.live.remove(&key) {
      let op = self.op_i;
      if let Some(w) = self.w.get_mut(&wid) {
        w.state = st;
        w.dead_op = Some(op);
      }
      self.dirty_keys.insert(key);
    }
  }

  /// Records a completed write (insert / load) of `key`.
  fn wrote(&mut self, key: u32, wid: u64, cost: u64, ttl: Option<u64>, at: u64) {
    if let Some(old) = self.live.get(&key).copied() {
      if self.w[&old].cost != cost {
        self.cost_changed = true;
      }
    }
    self.note_event(key);
    self.kill(key, WState::Overwritten);
    self.live.insert(key, wid);
    self.w.insert(wid, W { key, cost, n: 0, ttl, idle_lo: at, idle_hi: at, state: WState::Live, dead_op: None, notified: false, maint_seen: false });
    if let Some(cap) = self.cfg.capacity {
      let total: u64 = self.live.values().map(|w| self.w[w].cost).sum();
      if total > cap {
        self.over_cap_seen = true;
      }
    }
  }

  fn note_event(&mut self, key: u32) {
    let sh = key_hash(self.cfg.collide, key) as usize & (self.cfg.shards.next_power_of_two() - 1);
    self.pending[sh] += 1;
    if self.pending[sh] > 512 {
      self.overflowed = true;
    }
  }

  fn note_drain(&mut self, key: Option<u32>, n: u32) {
    match key {
      Some(k) => {
        let sh = key_hash(self.cfg.collide, k) as usize & (self.cfg.shards.next_power_of_two() - 1);
        self.pending[sh] = self.pending[sh].saturating_sub(n);
      }
      None => {
        for p in self.pending.iter_mut() {
          *p = p.saturating_sub(n);
        }
      }
    }
  }

  fn global_ttl_deadline(&self) -> Option<u64> {
    self.cfg.ttl_ms.map(|t| self.now + t * MS)
  }

  fn tti(&self) -> Option<u64> {
    self.cfg.tti_ms.map(|t| t * MS)
  }

  fn expired_for_sure(&self, w: &W) -> Option<&'static str> {
    if let Some(d) = w.ttl {
      if self.now >= d {
        return Some("ttl");
      }
    }
    if let Some(t) = self.tti() {
      if self.now >= w.idle_hi + t {
        return Some("tti");
      }
    }
    None
  }

  fn possibly_expired(&self, w: &W) -> bool {
    w.ttl.map_or(false, |d| self.now >= d) || self.tti().map_or(false, |t| self.now >= w.idle_lo + t)
  }

  fn pending_deadlines(&self) -> Vec<u64> {
    let mut v = BTreeSet::new();
    for wid in self.live.values() {
      let w = &self.w[wid];
      if let Some(d) = w.ttl {
        v.insert(d);
        if let Some(g) = self.cfg.swr_ms {
          v.insert(d + g * MS);
        }
      }
      if let Some(t) = self.tti() {
        v.insert(w.idle_lo + t);
        v.insert(w.idle_hi + t);
      }
    }
    v.into_iter().filter(|d| *d + 1 > self.now).collect()
  }

  fn advance(&mut self, a: Adv) {
    let target = match a {
      Adv::Ms(i) => self.now + ADV_MS[i as usize % 6] * MS,
      Adv::Deadline { which, delta } => {
        let ds = self.pending_deadlines();
        if ds.is_empty() {
          self.now + 7 * MS
        } else {
          let d = ds[vcore::idx(which, ds.len())];
          self.rep.class("advance_to_deadline");
          (d as i128 + delta as i128) as u64
        }
      }
    };
    if target > self.now {
      self.now = target;
      self.clock.store(target, Ordering::SeqCst);
    }
  }

  // ---- the read oracle (C11, C12; C16 for notified values) ------------------------------------

  fn check_read(&mut self, api: &str, k: u32, got: Option<&Val>, refresh: Refresh) -> Result<(), Failure> {
    match got {
      Some(v) => {
        // C11: "it never returns another key's value"
        if v.key != k {
          return Err(fail("C11", api, "other_keys_value", format!("read of key {k} returned the value written for key {} ({v:?})", v.key)));
        }
        let cur = self.live.get(&k).copied();
        if cur != Some(v.wid) {
          // C11: "returns either nothing or the value of the most recent insert or load of that key
          // that has not been followed by a completed remove, invalidate or clear; it never returns
          // ... an overwritten value after the overwrite completed, or a removed value (no resurrection)"
          return Err(match self.w.get(&v.wid).map(|w| w.state) {
            Some(WState::Overwritten) => fail("C11", api, "returned_overwritten_value", format!("key {k}: got write {} which was overwritten (latest {:?})", v.wid, cur)),
            Some(WState::Removed) => fail("C11", api, "returned_removed_value", format!("key {k}: got write {} which was removed/invalidated (resurrection)", v.wid)),
            Some(WState::Cleared) => fail("C11", api, "returned_cleared_value", format!("key {k}: got write {} which was cleared (resurrection)", v.wid)),
            // C16: "reads no longer return that value"
            Some(WState::Notified(r)) => fail("C16", api, "notified_value_still_readable", format!("key {k}: got write {} whose removal ({r:?}) was already notified to the listener", v.wid)),
            _ => fail("C11", api, "returned_unknown_value", format!("key {k}: got {v:?} which no completed write produced")),
          });
        }
        let w = self.w[&v.wid].clone();
        // C11: "compute/try_compute ... read-modify-writes are never lost"
        if v.n != w.n {
          return Err(fail("C11", api, "lost_update", format!("key {k} write {}: compute counter read {} but {} computes completed", v.wid, v.n, w.n)));
        }
        // C12: "No read API returns an entry at or after its expiry instant: the global or per-insert
        // time-to-live counted from insertion, or the idle timeout counted from the last access that
        // refreshes it (peek does not refresh)"
        if let Some(which) = self.expired_for_sure(&w) {
          return Err(fail("C12", api, &format!("served_expired_{which}"), format!("key {k} write {} returned at now={} ns; ttl deadline {:?}, last possible idle refresh {} + tti {:?}", v.wid, self.now, w.ttl, w.idle_hi, self.tti())));
        }
        if self.dirty_keys.contains(&k) {
          self.nt11 = true;
        }
        if w.maint_seen && (w.ttl.is_some() || self.tti().is_some()) {
          self.nt12 = true;
        }
        let now = self.now;
        let wm = self.w.get_mut(&v.wid).unwrap();
        match refresh {
          Refresh::Definite => {
            wm.idle_lo = now;
            wm.idle_hi = now;
          }
          Refresh::Possible => wm.idle_hi = now,
          Refresh::No => {}
        }
        Ok(())
      }
      None => {
        if self.dirty_keys.contains(&k) {
          self.nt11 = true;
        }
        if let Some(wid) = self.live.get(&k).copied() {
          let w = self.w[&wid].clone();
          if self.possibly_expired(&w) {
            self.nt12 = true; // a read at or after a deadline of an entry the model still holds
          } else if !self.cfg.may_forget() {
            // C12: "An unexpired entry of an unbounded cache is not reported missing"
            return Err(fail("C12", api, "unexpired_missing", format!("key {k} write {wid} reported missing at now={} ns although unexpired (ttl deadline {:?}, idle {}+{:?}) and the cache is unbounded", self.now, w.ttl, w.idle_lo, self.tti())));
          } else if self.rec.is_some() && !self.burst && !self.cfg.maint_always {
            // (not with maint_always: the real janitor thread sends its notifications after releasing
            // the shard lock, so the sentinel could overtake one that is about to be sent)
            // C16: "every removal caused by ... expiry cleanup or by capacity eviction is notified":
            // an unexpired entry that is gone was removed by the cache; its notification must exist
            self.sync_listener(api)?;
            if self.live.get(&k) == Some(&wid) {
              return Err(fail("C16", api, "missing_eviction_notification", format!("key {k} write {wid} is unexpired and no longer readable, no user op removed it, and the listener (drained) never heard of it")));
            }
          }
        }
        Ok(())
      }
    }
  }

  // ---- listener ---------------------------------------------------------------------------------

  /// Flushes the notification queue and checks every new notification (C16).
  fn sync_listener(&mut self, api: &str) -> Result<(), Failure> {
    let rec = match &self.rec {
      Some(r) => r.clone(),
      None => return Ok(()),
    };
    self.note_event(SENTINEL_KEY);
    if !flush_listener(&self.cache, &rec, &self.next_wid) {
      self.inconclusive += 1;
      return Ok(());
    }
    let new: Vec<Notif> = {
      let g = rec.log.lock().unwrap();
      let v = g[self.seen..].to_vec();
      self.seen = g.len();
      v
    };
    let mut invalidated_seen: BTreeSet<u64> = BTreeSet::new();
    for n in new.iter().filter(|n| n.key != SENTINEL_KEY) {
      self.reasons.insert(n.reason);
      self.rep.class(format!("notif:{:?}", n.reason));
      let wid = n.val.wid;
      // C16: "Every notification delivered to the eviction listener corresponds to one actual
      // removal: that key was resident with that value"
      let w = match self.w.get(&wid) {
        Some(w) if w.key == n.key && n.val.key == n.key => w.clone(),
        _ => return Err(fail("C16", "listener", "unknown_value", format!("after {api}: notification {n:?} carries a value no completed write stored under that key"))),
      };
      // C16: "no removal is notified twice"
      if w.notified {
        return Err(fail("C16", "listener", "notified_twice", format!("after {api}: write {wid} of key {} notified again ({:?})", n.key, n.reason)));
      }
      // resident when the operations since the last drain of the listener began
      let resident_before = w.state == WState::Live || w.dead_op.map_or(false, |d| d >= self.sync_from);
      // (with maint_always the real janitor thread may have evicted the entry long ago and deliver
      // its notification late, after the user overwrote/cleared the key: not decidable there)
      if !resident_before && !self.cfg.maint_always {
        return Err(fail("C16", "listener", "not_resident", format!("after {api}: {:?} notification for key {} write {wid}, which had already left the cache ({:?}) before this operation", n.reason, n.key, w.state)));
      }
      // C16: "the reason matches the cause (Capacity, Expired, Invalidated)"
      match n.reason {
        Reason::Invalidated => {
          if !self.removed_by_op.contains(&(n.key, wid)) && !self.removed_maybe.contains(&(n.key, wid)) {
            return Err(fail("C16", "listener", "invalidated_without_remove", format!("after {api}: Invalidated notification for key {} write {wid} but no remove/invalidate of it in this operation", n.key)));
          }
          invalidated_seen.insert(wid);
        }
        Reason::Expired => {
          if !self.possibly_expired(&w) {
            return Err(fail("C16", "listener", "expired_reason_for_unexpired", format!("after {api}: key {} write {wid} notified Expired at now={} ns but its ttl deadline is {:?} and idle deadline {:?}", n.key, self.now, w.ttl, self.tti().map(|t| w.idle_lo + t))));
          }
        }
        Reason::Capacity => {
          if !self.cfg.may_forget() {
            return Err(fail("C16", "listener", "capacity_reason_in_unbounded_cache", format!("after {api}: key {} write {wid} notified Capacity in an unbounded cache whose policy never evicts", n.key)));
          }
          if self.removed_by_op.contains(&(n.key, wid)) {
            return Err(fail("C16", "listener", "capacity_reason_for_user_remove", format!("after {api}: key {} write {wid} was removed by the user but notified Capacity", n.key)));
          }
        }
      }
      self.w.get_mut(&wid).unwrap().notified = true;
      if w.state == WState::Live {
        self.kill(n.key, WState::Notified(n.reason));
      }
      // C16: "reads no longer return that value"
      if let Some(v) = self.cache.peek(&n.key) {
        if v.wid == wid {
          return Err(fail("C16", "listener", "notified_value_still_readable", format!("after {api}: key {} write {wid} notified {:?} but peek still returns it", n.key, n.reason)));
        }
      }
    }
    // C16: "When the listener keeps up with the notification queue, every removal caused by
    // remove/invalidate ... is notified" (keeps up = fewer than 100 removals possible per operation)
    if !self.burst {
      for (k, wid) in &self.removed_by_op {
        if !invalidated_seen.contains(wid) {
          return Err(fail("C16", "listener", "missing_invalidated_notification", format!("after {api}: remove/invalidate took key {k} write {wid} out of the cache but no notification arrived (queue drained)")));
        }
      }
    }
    self.removed_by_op.clear();
    self.removed_maybe.clear();
    self.sync_from = self.op_i + 1;
    Ok(())
  }

  // ---- single operations -----------------------------------------------------------------------

  fn do_insert(&mut self, a: bool, k: u32, cost: u64, ttl_ms: Option<u64>) {
    let v = self.new_val(k);
    let wid = v.wid;
    let deadline = match ttl_ms {
      Some(t) => Some(self.now + t * MS),
      None => self.global_ttl_deadline(),
    };
    match (a, ttl_ms) {
      (false, None) => self.cache.insert(k, v, cost),
      (false, Some(t)) => self.cache.insert_with_ttl(k, v, cost, Duration::from_millis(t)),
      (true, None) => self.drive(self.ac.insert(k, v, cost)),
      (true, Some(t)) => self.drive(self.ac.insert_with_ttl(k, v, cost, Duration::from_millis(t))),
    }
    self.wrote(k, wid, cost, deadline, self.now);
    if self.cfg.maint_always {
      self.note_drain(Some(k), 16);
    }
  }

  fn do_remove(&mut self, a: bool, k: u32, inval: bool) -> Result<(), Failure> {
    let api = hs(a, if inval { "invalidate" } else { "remove" });
    let got: Option<Option<Val>> = match (a, inval) {
      (false, false) => Some(self.cache.remove(&k).map(|v| (*v).clone())),
      (true, false) => Some(self.drive(self.ac.remove(&k)).map(|v| (*v).clone())),
      (false, true) => {
        if self.cache.invalidate(&k) {
          None
        } else {
          Some(None)
        }
      }
      (true, true) => {
        if self.drive(self.ac.invalidate(&k)) {
          None
        } else {
          Some(None)
        }
      }
    };
    let cur = self.live.get(&k).copied();
    match got {
      Some(Some(v)) => {
        // C11: the removed value is a read of the register too
        if v.key != k || cur != Some(v.wid) {
          return Err(fail("C11", &api, "returned_dead_value", format!("remove({k}) returned {v:?} but the latest live write is {cur:?}")));
        }
        self.removed_by_op.push((k, v.wid));
      }
      None => {
        // invalidate() == true: something was removed
        match cur {
          Some(wid) => self.removed_by_op.push((k, wid)),
          None => return Err(fail("C11", &api, "removed_absent_key", format!("invalidate({k}) returned true but no write of that key is live (resurrection)"))),
        }
      }
      Some(None) => {
        if let Some(wid) = cur {
          let w = self.w[&wid].clone();
          if !self.possibly_expired(&w) && !self.cfg.may_forget() {
            // C12: "An unexpired entry of an unbounded cache is not reported missing"
            return Err(fail("C12", &api, "unexpired_missing", format!("remove({k}) found nothing although write {wid} is unexpired and the cache is unbounded")));
          }
        }
      }
    }
    self.kill(k, WState::Removed);
    Ok(())
  }

  fn do_entry_or_insert(&mut self, a: bool, k: u32, cost: u64, form: u8) -> Result<(), Failure> {
    let api = hs(a, "entry");
    let v = self.new_val(k);
    let my = v.wid;
    let got: Val = if !a {
      let e = self.cache.entry(k);
      let r = match form % 3 {
        0 => e.or_insert(v, cost),
        1 => e.or_insert_with(|| v, cost),
        _ => match e {
          fibre_cache::Entry::Occupied(o) => o.get(),
          fibre_cache::Entry::Vacant(vac) => vac.insert(v, cost),
        },
      };
      (*r).clone()
    } else {
      let e = self.drive(self.ac.entry(k));
      let r = match form % 3 {
        0 => e.or_insert(v, cost),
        1 => e.or_insert_with(|| v, cost),
        _ => match e {
          fibre_cache::AsyncEntry::Occupied(o) => o.get(),
          fibre_cache::AsyncEntry::Vacant(vac) => vac.insert(v, cost),
        },
      };
      (*r).clone()
    };
    if got.wid == my {
      // the entry was reported vacant and our value inserted
      if let Some(wid) = self.live.get(&k).copied() {
        let w = self.w[&wid].clone();
        if !self.possibly_expired(&w) && !self.cfg.may_forget() {
          // C12: "An unexpired entry of an unbounded cache is not reported missing"
          return Err(fail("C12", &api, "unexpired_missing", format!("entry({k}) was vacant although write {wid} is unexpired and the cache is unbounded")));
        }
      }
      let d = self.global_ttl_deadline();
      self.wrote(k, my, cost, d, self.now);
      Ok(())
    } else {
      // occupied: a read through the entry API (C11 / C12 "every read API including entry")
      self.check_read(&api, k, Some(&got), Refresh::Possible)
    }
  }

  /// async `multi_remove` / `multi_invalidate` cancelled while it waits for a contended shard: the
  /// interpreter holds one shard's write lock, polls the future once and drops it.  Keys of the other
  /// shards may have been removed; whatever was removed must be notified (C16) and must not come back.
  fn do_cancelled_multi_remove(&mut self, keys: &[u32], hold: u16, inval: bool) -> Result<(), Failure> {
    let api = "async.multi_remove.cancelled";
    if self.cfg.introspect || self.hold_keys.is_empty() {
      return Ok(());
    }
    let hk = self.hold_keys[vcore::idx(hold, self.hold_keys.len())];
    let before: BTreeMap<u32, u64> = keys.iter().filter_map(|k| self.live.get(k).map(|w| (*k, *w))).collect();
    let finished: Option<Vec<(u32, Val)>> = {
      let guard = self.cache.entry(hk);
      let waker = thread_waker();
      let mut cx = std::task::Context::from_waker(&waker);
      let r = if inval {
        let mut f = std::pin::pin!(self.ac.multi_invalidate(keys.to_vec()));
        match f.as_mut().poll(&mut cx) {
          std::task::Poll::Ready(()) => Some(None),
          std::task::Poll::Pending => None,
        }
      } else {
        let mut f = std::pin::pin!(self.ac.multi_remove(keys.to_vec()));
        match f.as_mut().poll(&mut cx) {
          std::task::Poll::Ready(v) => Some(Some(v.into_iter().map(|(k, v)| (k, (*v).clone())).collect::<Vec<_>>())),
          std::task::Poll::Pending => None,
        }
      };
      // (the future is dropped here, before the guard is released)
      drop(guard);
      match r {
        Some(Some(v)) => Some(v),
        _ => None,
      }
    };
    self.rep.class(if finished.is_some() { "cancelled_multi_remove:completed_on_first_poll" } else { "cancelled_multi_remove:dropped_while_pending" });
    if let Some(got) = &finished {
      // it completed: the returned pairs are reads of the register (C11)
      for (k, v) in got {
        if v.key != *k || before.get(k) != Some(&v.wid) {
          return Err(fail("C11", api, "returned_dead_value", format!("multi_remove returned ({k}, {v:?}); live before: {:?}", before.get(k))));
        }
      }
    }
    // which keys are gone is observed (peek refreshes nothing); a key that is gone although it cannot
    // have expired or been evicted was removed by this call: C16 "every removal caused by
    // remove/invalidate ... is notified" — also when the caller stopped waiting for the rest
    for (k, wid) in &before {
      let now_there = self.cache.peek(k).map(|v| v.wid) == Some(*wid);
      if now_there {
        if finished.is_some() {
          let w = self.w[wid].clone();
          if !self.possibly_expired(&w) {
            return Err(fail("C11", api, "removed_value_still_readable", format!("multi_remove completed but key {k} write {wid} is still readable")));
          }
        }
        continue;
      }
      let w = self.w[wid].clone();
      if self.possibly_expired(&w) && finished.is_none() {
        // invisible because expired; whether the cancelled call took it out is not observable: the model
        // keeps it (reads of a possibly expired entry may return nothing); its Invalidated notification
        // may or may not come
        self.removed_maybe.push((*k, *wid));
        continue;
      }
      if !self.possibly_expired(&w) && !self.cfg.may_forget() {
        self.removed_by_op.push((*k, *wid));
      } else {
        self.removed_maybe.push((*k, *wid));
      }
      self.kill(*k, WState::Removed);
    }
    Ok(())
  }

  fn do_compute(&mut self, a: bool, k: u32, form: u8) -> Result<(), Failure> {
    let api = hs(a, "compute");
    // outcome: Ok(Some(n)) modified (n if the form returns it), Ok(None) not found, Err(()) busy
    #[derive(Debug)]
    enum Out {
      Done(Option<u64>),
      NotFound,
      Busy,
    }
    let bump = |v: &mut Val| {
      v.n += 1;
      v.n
    };
    let cr = |r: ComputeResult<u64>| match r {
      ComputeResult::Ok(n) => Out::Done(Some(n)),
      ComputeResult::Fail => Out::Busy,
      ComputeResult::NotFound => Out::NotFound,
    };
    let out = match (a, form % 4) {
      (false, 0) => {
        if self.cache.compute(&k, |v| {
          bump(v);
        }) {
          Out::Done(None)
        } else {
          Out::NotFound
        }
      }
      (false, 1) => match self.cache.try_compute(&k, |v| {
        bump(v);
      }) {
        Some(true) => Out::Done(None),
        Some(false) => Out::Busy,
        None => Out::NotFound,
      },
      (false, 2) => cr(self.cache.compute_val(&k, |v| bump(v))),
      (false, _) => cr(self.cache.try_compute_val(&k, |v| bump(v))),
      (true, 0) => {
        if self.drive(self.ac.compute(&k, |v| {
          bump(v);
        })) {
          Out::Done(None)
        } else {
          Out::NotFound
        }
      }
      (true, 1) => match self.drive(self.ac.try_compute(&k, |v| {
        bump(v);
      })) {
        Some(true) => Out::Done(None),
        Some(false) => Out::Busy,
        None => Out::NotFound,
      },
      (true, 2) => cr(self.drive(self.ac.compute_val(&k, |v| bump(v)))),
      (true, _) => cr(self.drive(self.ac.try_compute_val(&k, |v| bump(v)))),
    };
    let cur = self.live.get(&k).copied();
    match out {
      Out::Done(n) => match cur {
        None => Err(fail("C11", &api, "modified_dead_entry", format!("compute({k}) found and modified an entry although no write of that key is live (removed/cleared/never written)"))),
        Some(wid) => {
          let now = self.now;
          let w = self.w.get_mut(&wid).unwrap();
          w.n += 1;
          w.idle_hi = now;
          // C11: "concurrent read-modify-writes are never lost" (sequential form: each completed compute is visible)
          if let Some(n) = n {
            if n != w.n {
              return Err(fail("C11", &api, "lost_update", format!("compute({k}) saw counter {n} after its own increment, {} computes completed", w.n)));
            }
          }
          self.rep.class("compute_done");
          Ok(())
        }
      },
      Out::NotFound => {
        if let Some(wid) = cur {
          let w = self.w[&wid].clone();
          if !self.possibly_expired(&w) && !self.cfg.may_forget() {
            return Err(fail("C12", &api, "unexpired_missing", format!("compute({k}) reported the key missing although write {wid} is unexpired and the cache is unbounded")));
          }
        }
        Ok(())
      }
      Out::Busy => {
        // documented outcome of the try_ forms while another Arc of the value is alive (a loader
        // thread that is just finishing); no effect
        self.rep.class("compute_busy");
        Ok(())
      }
    }
  }

  /// Loader invocations since the last call.
  fn new_loads(&mut self) -> Vec<LoadRec> {
    match &self.lstate {
      None => vec![],
      Some(st) => {
        let g = st.log.lock().unwrap();
        let v = g[self.loads_seen..].to_vec();
        self.loads_seen = g.len();
        v
      }
    }
  }

  fn absorb_load(&mut self, l: &LoadRec) {
    let d = self.cfg.ttl_ms.map(|t| l.at + t * MS);
    self.wrote(l.key, l.wid, l.cost, d, l.at);
  }

  fn do_fetch_with(&mut self, a: bool, k: u32) -> Result<(), Failure> {
    let api = hs(a, "fetch_with");
    let cur = self.live.get(&k).copied();
    // (side-effect free here: configurations with a sync loader and a grace window never enable
    // maintenance_on_introspection)
    let inserts_before = if self.cfg.loader == LoaderKind::Sync && self.cfg.swr_ms.is_some() { self.cache.metrics().inserts } else { 0 };
    let got: Val = if a { (*self.drive(self.ac.fetch_with(&k))).clone() } else { (*self.cache.fetch_with(&k)).clone() };
    if let Some(ex) = &self.exec {
      if !ex.wait_idle(Duration::from_secs(20)) {
        self.inconclusive += 1;
      }
    }
    let mut loads = self.new_loads();
    // every load must be for this key
    if let Some(l) = loads.iter().find(|l| l.key != k) {
      return Err(fail("C15", &api, "loaded_other_key", format!("fetch_with({k}) invoked the loader for key {}", l.key)));
    }
    if cur == Some(got.wid) && got.key == k {
      // served the resident value
      let w = self.w[&got.wid].clone();
      let stale = w.ttl.map_or(false, |d| self.now >= d);
      if stale {
        // C12: "with stale-while-revalidate a stale value is served by fetch_with only inside the
        // grace window and triggers a refresh whose result then replaces it"
        let in_grace = match (w.ttl, self.cfg.swr_ms) {
          (Some(d), Some(g)) => self.now < d + g * MS,
          _ => false,
        };
        if !in_grace {
          let clause = if self.cfg.swr_ms.is_some() { "served_stale_outside_grace" } else { "served_expired_ttl" };
          return Err(fail("C12", &api, clause, format!("fetch_with({k}) returned write {} at now={} ns, ttl deadline {:?}, grace {:?} ms", got.wid, self.now, w.ttl, self.cfg.swr_ms)));
        }
        self.rep.class("swr_stale_served");
        self.nt12 = true;
        if got.n != w.n {
          return Err(fail("C11", &api, "lost_update", format!("key {k}: counter {} vs {} computes", got.n, w.n)));
        }
        if loads.is_empty() && self.cfg.loader == LoaderKind::Sync {
          // the refresh runs on a thread the cache spawned: wait for it (liveness only)
          let st = self.lstate.clone().unwrap();
          let deadline = std::time::Instant::now() + Duration::from_secs(5);
          let mut g = st.log.lock().unwrap();
          while g.len() <= self.loads_seen && std::time::Instant::now() < deadline {
            g = st.cv.wait_timeout(g, Duration::from_millis(50)).unwrap().0;
          }
          drop(g);
          loads = self.new_loads();
          if loads.is_empty() {
            self.inconclusive += 1;
            return Ok(());
          }
        }
        if loads.is_empty() {
          return Err(fail("C12", &api, "stale_served_without_refresh", format!("fetch_with({k}) served the stale write {} inside the grace window but started no refresh (no task spawned, loader never called)", got.wid)));
        }
        if loads.len() > 1 {
          return Err(fail("C15", &api, "duplicate_refresh_load", format!("one stale fetch_with({k}) invoked the loader {} times", loads.len())));
        }
        let l = loads[0].clone();
        if self.cfg.loader == LoaderKind::Sync {
          // wait until the refreshed entry is in the map (metrics().inserts is bumped after the map
          // insert); bounded, liveness only
          let deadline = std::time::Instant::now() + Duration::from_secs(5);
          while self.cache.metrics().inserts <= inserts_before {
            if std::time::Instant::now() >= deadline {
              self.inconclusive += 1;
              return Ok(());
            }
            std::thread::sleep(Duration::from_micros(50));
          }
        }
        self.absorb_load(&l);
        // "... triggers a refresh whose result then replaces it"
        let after = self.cache.peek(&k).map(|v| (*v).clone());
        match &after {
          Some(v) if v.wid == got.wid => {
            return Err(fail("C12", &api, "refresh_result_not_visible", format!("key {k}: refresh loaded write {} but peek still returns the stale write {}", l.wid, got.wid)));
          }
          _ => {}
        }
        return self.check_read(&hs(a, "fetch_with.after_refresh"), k, after.as_ref(), Refresh::No);
      }
      // fresh hit: C11 "a fetch_with hit" is a read
      if !loads.is_empty() {
        // C15: "the loader runs exactly once per miss" — there was no miss
        return Err(fail("C15", &api, "load_without_miss", format!("fetch_with({k}) hit the resident write {} and still invoked the loader {} time(s)", got.wid, loads.len())));
      }
      return self.check_read(&api, k, Some(&got), Refresh::Definite);
    }
    // not the resident value: must be a fresh load
    match loads.iter().position(|l| l.wid == got.wid) {
      None => {
        // neither current nor loaded now: classify through the read oracle (dead / unknown value)
        self.check_read(&api, k, Some(&got), Refresh::No)?;
        Err(fail("C11", &api, "returned_unknown_value", format!("fetch_with({k}) returned {got:?}")))
      }
      Some(_) => {
        // C15: "the loader runs exactly once per miss"
        if loads.len() != 1 {
          return Err(fail("C15", &api, "loads_per_miss_not_one", format!("a single fetch_with({k}) miss invoked the loader {} times", loads.len())));
        }
        if let Some(wid) = cur {
          let w = self.w[&wid].clone();
          if !self.possibly_expired(&w) && !self.cfg.may_forget() {
            return Err(fail("C12", &api, "unexpired_missing", format!("fetch_with({k}) treated the key as missing and loaded although write {wid} is unexpired and the cache is unbounded")));
          }
        }
        // C15: "A later miss after invalidation or expiry triggers exactly one new load"
        if self.reloaded_keys.contains(&k) {
          self.nt15 = true;
        }
        self.reloaded_keys.insert(k);
        let l = loads[0].clone();
        self.absorb_load(&l);
        self.rep.class("load_on_miss");
        // C15: "the value becomes resident with its cost" (cost: C13 clauses at quiescence)
        let after = self.cache.peek(&k).map(|v| (*v).clone());
        match &after {
          Some(v) if v.wid == l.wid => Ok(()),
          None if self.cfg.may_forget() || self.cfg.ttl_ms == Some(0) => Ok(()),
          other => Err(fail("C15", &api, "loaded_value_not_resident", format!("fetch_with({k}) loaded write {} but right afterwards peek returns {other:?}", l.wid))),
        }
      }
    }
  }

  // ---- enumerations (C17; values also C11/C12) -------------------------------------------------

  fn focus_or(&self, p: &'static str) -> &'static str {
    if self.focus == "C17" {
      "C17"
    } else {
      p
    }
  }

  /// Removal counters before an enumeration, to notice a background janitor pass that removed
  /// entries meanwhile (only the maint_always configurations have an active janitor).
  fn janitor_mark(&self) -> Option<(u64, u64, u64)> {
    if !self.cfg.maint_always {
      return None;
    }
    // With maintenance_chance(1) every async insert signals the janitor thread, which then drains
    // and evicts concurrently with the following operations: such a cache is never "at quiescence"
    // from the harness's point of view (the removal counters are bumped slightly after the removal,
    // so comparing them around the enumeration would still leave a window).
    Some((u64::MAX, 0, 0))
  }

  fn was_quiescent(&self, before: Option<(u64, u64, u64)>) -> bool {
    match before {
      None => true,
      Some((u64::MAX, _, _)) => false,
      Some(b) => {
        let m = self.cache.metrics();
        b == (m.evicted_by_capacity, m.evicted_by_ttl, m.evicted_by_tti)
      }
    }
  }

  fn nonempty_shards(&self) -> usize {
    let mut s = BTreeSet::new();
    for k in self.live.keys() {
      s.insert(key_hash(self.cfg.collide, *k) as usize & (self.cfg.shards.next_power_of_two() - 1));
    }
    s.len()
  }

  /// C11: "a read (get, fetch, peek, entry, multiget, iteration, a fetch_with hit) returns either
  /// nothing or the value of the most recent insert ... never ... an overwritten value after the
  /// overwrite completed, or a removed value".  `iter_snapshot` reads each value when it is
  /// yielded, so every item is judged as a point read at the moment `next()` returned; an overwrite
  /// or remove of `key` completes after `at` items.  Exactly-once / completeness are not judged
  /// here (the cache is being mutated).
  fn do_iter_snapshot_mutated(&mut self, at: usize, key: u32, rm: bool) -> Result<(), Failure> {
    let c = self.cache.clone();
    let mut it = c.iter_snapshot();
    let mut n = 0usize;
    let mut mutated = false;
    loop {
      if n == at && !mutated {
        mutated = true;
        if rm {
          self.do_remove(false, key, false)?;
        } else {
          self.do_insert(false, key, self.cfg.cost(1), None);
        }
        self.rep.class("iter_snapshot_with_mutation_between_items");
      }
      match it.next() {
        Some((k, v)) => {
          n += 1;
          if k == SENTINEL_KEY {
            continue;
          }
          let r = self.check_read("itersnapshot", k, Some(&*v), Refresh::Possible);
          if let Some(w) = self.w.get_mut(&v.wid) {
            if r.is_ok() && w.idle_hi < self.now {
              w.idle_hi = self.now;
            }
          }
          if let Err(mut f) = r {
            if f.property == "C11" || f.property == "C12" {
              f.property = self.focus_or(if f.property == "C11" { "C11" } else { "C12" }).to_string();
            }
            f.message = format!("(item {n} of an iter_snapshot, after a {} of key {key} completed following item {at}) {}", if rm { "remove" } else { "overwrite" }, f.message);
            return Err(f);
          }
        }
        None => break,
      }
    }
    Ok(())
  }

  fn do_iter(&mut self, kind: IterKind, batch_i: u8, adv: Option<(u16, Adv)>, held_at: &[u16]) -> Result<(), Failure> {
    let batch = BATCHES[batch_i as usize % 6];
    let api = format!("{kind:?}").to_lowercase();
    let t0 = self.now;
    let live_n = self.live.len();
    if self.nonempty_shards() >= 2 && live_n > if batch == 0 { 64 } else { batch } {
      self.nt17 = true;
    }
    let janitor_before = self.janitor_mark();
    let mut items: Vec<(u32, Val)> = Vec::new();
    let mut snap_meta: Vec<(u64, Option<u64>)> = Vec::new();
    let adv_at = adv.map(|(at, a)| (at as usize, a));
    macro_rules! step {
      () => {
        if let Some((at, a)) = adv_at {
          if items.len() == at {
            self.advance(a);
            self.rep.class("iter_with_advance");
          }
        }
      };
    }
    match kind {
      IterKind::Iter => {
        let c = self.cache.clone();
        let mut it = if batch == 0 { c.iter() } else { c.iter_with_batch_size(batch) };
        loop {
          step!();
          match it.next() {
            Some((k, v)) => items.push((k, (*v).clone())),
            None => break,
          }
        }
      }
      IterKind::IterSnapshot => {
        let c = self.cache.clone();
        let mut it = c.iter_snapshot();
        loop {
          step!();
          match it.next() {
            Some((k, v)) => items.push((k, (*v).clone())),
            None => break,
          }
        }
      }
      IterKind::Stream => {
        let mut st = if batch == 0 { self.ac.iter_stream() } else { self.ac.iter_stream_with_batch_size(batch) };
        loop {
          step!();
          if held_at.contains(&(items.len() as u16)) && !self.cfg.introspect {
            // contended refill: every shard is write-locked by this thread for one poll
            let guards: Vec<_> = self.hold_keys.iter().map(|k| self.cache.entry(*k)).collect();
            let waker = thread_waker();
            let mut cx = std::task::Context::from_waker(&waker);
            let r = std::pin::Pin::new(&mut st).poll_next(&mut cx);
            drop(guards);
            match r {
              std::task::Poll::Ready(Some((k, v))) => {
                items.push((k, (*v).clone()));
                continue;
              }
              std::task::Poll::Ready(None) => break,
              std::task::Poll::Pending => self.rep.class("stream_refill_pending_on_held_shard"),
            }
          }
          match stream_next(&mut st) {
            Some((k, v)) => items.push((k, (*v).clone())),
            None => break,
          }
        }
      }
      IterKind::AsyncSnapshot => {
        let c = self.ac.clone();
        let mut it = c.iter_snapshot_async();
        loop {
          step!();
          match block_on(it.next()) {
            Some((k, v)) => items.push((k, (*v).clone())),
            None => break,
          }
        }
      }
      IterKind::ToSnapshot | IterKind::ToSnapshotAsync => {
        let snap = if kind == IterKind::ToSnapshot { self.cache.to_snapshot() } else { self.drive(self.ac.to_snapshot()) };
        let js = serde_json::to_value(&snap).expect("snapshot serialises");
        for e in js["entries"].as_array().cloned().unwrap_or_default() {
          let v: Val = serde_json::from_value(e["value"].clone()).expect("value");
          let k = e["key"].as_u64().unwrap() as u32;
          let ttl = if e["ttl_remaining"].is_null() { None } else { Some(e["ttl_remaining"]["secs"].as_u64().unwrap() * 1_000_000_000 + e["ttl_remaining"]["nanos"].as_u64().unwrap()) };
          snap_meta.push((e["cost"].as_u64().unwrap(), ttl));
          items.push((k, v));
        }
      }
    }
    let quiescent = self.was_quiescent(janitor_before);
    self.check_enumeration(&api, &items, t0, if snap_meta.is_empty() { None } else { Some(&snap_meta) }, quiescent)
  }

  /// `t0`: virtual time when the enumeration started (`self.now` = when it ended).
  /// `quiescent`: nothing else touched the cache during the enumeration (C17 says "at quiescence");
  /// false when the real janitor thread may have removed entries meanwhile (maint_always), in which
  /// case only the values are checked, not exactly-once / completeness.
  fn check_enumeration(&mut self, api: &str, items: &[(u32, Val)], t0: u64, meta: Option<&[(u64, Option<u64>)]>, quiescent: bool) -> Result<(), Failure> {
    let refresh = Refresh::Possible;
    let mut seen = BTreeSet::new();
    let t1 = self.now;
    for (i, (k, v)) in items.iter().enumerate() {
      if *k == SENTINEL_KEY {
        continue;
      }
      // C17: "enumerate every live entry exactly once"
      if !seen.insert(*k) && quiescent {
        return Err(fail("C17", api, "duplicate_key", format!("key {k} yielded twice")));
      }
      // C17: "with its current value and omit expired ones" — judged at the time the enumeration
      // started: a batch may have been fetched before a later clock step (sound lower bound)
      self.now = t0;
      let r = self.check_read(api, *k, Some(v), refresh);
      self.now = t1;
      // the enumeration may have touched the entry at any time up to its end (iter_snapshot
      // reads through fetch): latest possible idle refresh = end of the enumeration
      if let Some(w) = self.w.get_mut(&v.wid) {
        if r.is_ok() && w.idle_hi < t1 {
          w.idle_hi = t1;
        }
      }
      if let Err(mut f) = r {
        if f.property == "C11" || f.property == "C12" {
          f.property = self.focus_or(if f.property == "C11" { "C11" } else { "C12" }).to_string();
        }
        return Err(f);
      }
      if let Some(m) = meta {
        let (cost, ttl_rem) = m[i];
        let w = &self.w[&v.wid];
        // C17: "... the same costs and remaining lifetimes no longer than the originals"
        if cost != w.cost {
          return Err(fail("C17", api, "snapshot_cost_mismatch", format!("snapshot entry for key {k} has cost {cost}, inserted with {}", w.cost)));
        }
        match (ttl_rem, w.ttl) {
          (None, None) => {}
          (Some(r), Some(d)) if t0 + r <= d => {}
          _ => return Err(fail("C17", api, "snapshot_lifetime_mismatch", format!("snapshot entry for key {k} has ttl_remaining {ttl_rem:?} ns at now={t0}, original deadline {:?}", w.ttl))),
        }
      }
    }
    // completeness, differential against point reads: a live entry that was not yielded must not be
    // readable now either (peek does not refresh and does not touch the policy)
    if !quiescent {
      self.rep.class("enumeration_not_quiescent");
      return Ok(());
    }
    let missing: Vec<(u32, u64)> = self.live.iter().filter(|(k, _)| !seen.contains(k)).map(|(k, w)| (*k, *w)).collect();
    for (k, wid) in missing {
      let got = self.cache.peek(&k).map(|v| (*v).clone());
      if let Some(v) = &got {
        if v.wid == wid {
          return Err(fail("C17", api, "missing_resident_entry", format!("key {k} write {wid} is resident and unexpired (peek returns it) but the enumeration of {} items did not yield it", items.len())));
        }
      }
      self.check_read(&format!("{api}.peek"), k, got.as_ref(), Refresh::No)?;
    }
    Ok(())
  }

  // ---- quiescence (C13) ---------------------------------------------------------------------

  fn do_quiesce(&mut self, prop: &'static str, api: &str) -> Result<(), Failure> {
    if let Some(ex) = &self.exec {
      ex.wait_idle(Duration::from_secs(20));
    }
    let costs: BTreeMap<u64, u64> = self.w.iter().map(|(k, w)| (*k, w.cost)).collect();
    let cost_of = move |v: &Val| if v.key == SENTINEL_KEY { Some(0) } else { costs.get(&v.wid).copied() };
    let possibly_expired: Vec<u32> = self.live.iter().filter(|(_, w)| self.possibly_expired(&self.w[*w])).map(|(k, _)| *k).collect();
    let mut purged: Vec<(u32, Option<Val>)> = Vec::new();
    let mut purge = |c: &TCache| {
      for k in &possibly_expired {
        purged.push((*k, c.remove(k).map(|v| (*v).clone())));
      }
    };
    for w in self.w.values_mut() {
      if w.state == WState::Live {
        w.maint_seen = true;
      }
    }
    self.note_drain(None, u32::MAX);
    let polname = self.cfg.pol.name();
    let r = quiesce_check(&self.cache, self.cfg.capacity, &cost_of, &mut purge);
    // model bookkeeping for the purge (plain removes)
    for (k, got) in purged {
      if let (Some(v), Some(wid)) = (&got, self.live.get(&k)) {
        if v.wid == *wid {
          self.removed_by_op.push((k, *wid));
        }
      }
      self.kill(k, WState::Removed);
    }
    match r {
      Ok(q) => {
        self.quiesced = true;
        self.rep.class("quiesce_checked");
        if q.passes > 41 {
          self.rep.class("quiesce_multi_pass");
        }
        // the visible residents are reads too (checked before the listener is drained: they were
        // read before anything the drain may report)
        let items = q.visible.clone();
        let t = self.now;
        // (the view was taken between two equal metric reads: quiescent)
        self.check_enumeration(&format!("{api}.iter"), &items, t, None, true)?;
        self.sync_listener(api)
      }
      Err(QuiesceErr::Inconclusive(_)) => {
        self.inconclusive += 1;
        Ok(())
      }
      Err(QuiesceErr::Violation(clause, msg)) => {
        // diagnosis: a shard had more un-maintained writes than its 512-slot event buffer holds
        if clause == "over_capacity" && self.overflowed {
          return Err(fail(prop, api, "over_capacity_after_event_buffer_overflow", format!("[{polname}] {msg}")));
        }
        Err(fail(prop, &format!("{api}/{polname}"), clause, msg))
      }
    }
  }

  // ---- snapshot / restore (C17) ------------------------------------------------------------------

  fn do_restore(&mut self, fmt: u8, pol: Pol, extra: &[(u32, u8)], lifetimes: bool, asnap: bool, abuild: bool, bcap: bool) -> Result<(), Failure> {
    use fibre_cache::snapshot::CacheSnapshot;
    let api = match fmt % 3 {
      0 => "restore.direct",
      1 => "restore.json",
      _ => "restore.bincode",
    };
    let t0 = self.now;
    let janitor_before = self.janitor_mark();
    let snap: CacheSnapshot<u32, Val> = if asnap { self.drive(self.ac.to_snapshot()) } else { self.cache.to_snapshot() };
    let js = serde_json::to_value(&snap).expect("snapshot serialises");
    let snap = match fmt % 3 {
      0 => snap,
      1 => serde_json::from_str(&serde_json::to_string(&snap).unwrap()).map_err(|e| fail("C17", api, "roundtrip_failed", format!("serde_json round trip: {e}")))?,
      _ => bincode::deserialize(&bincode::serialize(&snap).unwrap()).map_err(|e| fail("C17", api, "roundtrip_failed", format!("bincode round trip: {e}")))?,
    };
    // the snapshot itself is an enumeration
    let mut items = Vec::new();
    let mut meta = Vec::new();
    for e in js["entries"].as_array().cloned().unwrap_or_default() {
      let v: Val = serde_json::from_value(e["value"].clone()).expect("value");
      let ttl = if e["ttl_remaining"].is_null() { None } else { Some(e["ttl_remaining"]["secs"].as_u64().unwrap() * 1_000_000_000 + e["ttl_remaining"]["nanos"].as_u64().unwrap()) };
      meta.push((e["cost"].as_u64().unwrap(), ttl));
      items.push((e["key"].as_u64().unwrap() as u32, v));
    }
    let quiescent = self.was_quiescent(janitor_before);
    self.check_enumeration("restore.to_snapshot", &items, t0, Some(&meta), quiescent)?;
    // build the second cache
    let mut b: TBuilder = TBuilder::new().hasher(FixedState { collide: self.cfg.collide }).janitor_tick_interval(Duration::from_millis(50)).maintenance_chance(1 << 31);
    if let Some(t) = self.cfg.ttl_ms {
      b = b.time_to_live(Duration::from_millis(t));
    }
    if let Some(t) = self.cfg.tti_ms {
      b = b.time_to_idle(Duration::from_millis(t));
    }
    b = apply_policy(b, pol, self.cfg.capacity, self.cfg.shards.next_power_of_two());
    // the builder either leaves its capacity at the default (what the documentation shows: the snapshot's
    // capacity applies) or states the very capacity the snapshot carries; both sync and async entry points
    if bcap {
      b = match self.cfg.capacity {
        Some(c) => b.capacity(c),
        None => b.unbounded(),
      };
    }
    let c2: TCache = if abuild { b.build_from_snapshot_async(snap).expect("restore builds").to_sync() } else { b.build_from_snapshot(snap).expect("restore builds") };
    self.rep.class(format!("restore:{}", pol.name()));
    self.rep.class(if abuild { "restore:async_entry_point" } else { "restore:sync_entry_point" });
    // C17: "A cache rebuilt from a snapshot, also after a serialization round trip, returns the same
    // key to value mapping with the same costs"
    let mut expect_cost = 0u64;
    let in_snap: BTreeMap<u32, Val> = items.iter().cloned().collect();
    for (k, v) in &in_snap {
      expect_cost += self.w[&v.wid].cost;
      match c2.peek(k) {
        Some(g) if *g == *v => {}
        other => return Err(fail("C17", api, "restored_value_mismatch", format!("key {k}: snapshot holds {v:?}, restored cache returns {other:?}"))),
      }
    }
    let got2: Vec<(u32, Val)> = c2.iter().map(|(k, v)| (k, (*v).clone())).collect();
    if got2.len() != in_snap.len() || got2.iter().any(|(k, v)| in_snap.get(k) != Some(v)) {
      return Err(fail("C17", api, "restored_mapping_differs", format!("snapshot had {} entries, restored cache enumerates {}", in_snap.len(), got2.len())));
    }
    let cc = c2.metrics().current_cost;
    if cc != expect_cost {
      return Err(fail("C17", api, "restored_current_cost_mismatch", format!("restored current_cost {cc}, entries cost {expect_cost}")));
    }
    // C17: "and from then on honours its capacity like any other cache": further inserts, then the
    // C13 clauses on the restored cache
    let mut costs2: BTreeMap<u64, u64> = in_snap.values().map(|v| (v.wid, self.w[&v.wid].cost)).collect();
    let mut total = expect_cost;
    for (k, ci) in extra {
      let v = self.new_val(500 + *k);
      let c = self.cfg.cost(*ci);
      costs2.insert(v.wid, c);
      total += c;
      c2.insert(500 + *k, v, c);
    }
    if let Some(cap) = self.cfg.capacity {
      if total > cap {
        self.nt17 = true;
        self.rep.class("restore_over_capacity");
      }
    }
    let cost_of = |v: &Val| costs2.get(&v.wid).copied();
    // entries that are possibly expired in the restored cache: purge by remove for exactness
    let tti = self.tti();
    let now = self.now;
    let maybe_exp: Vec<u32> = in_snap.iter().filter(|(_, v)| self.w[&v.wid].ttl.map_or(false, |d| now >= d) || tti.is_some()).map(|(k, _)| *k).collect();
    let mut purge = |c: &TCache| {
      if tti.is_some() {
        return; // restored entries count as just accessed: nothing can be idle-expired yet
      }
      for k in &maybe_exp {
        c.remove(k);
      }
    };
    match quiesce_check(&c2, self.cfg.capacity, &cost_of, &mut purge) {
      Ok(_) => {}
      Err(QuiesceErr::Inconclusive(_)) => self.inconclusive += 1,
      Err(QuiesceErr::Violation(clause, msg)) => {
        // diagnosis: restored entries and the further inserts share the 512-slot write-event buffer
        let mut per = vec![0u32; self.cfg.shards.next_power_of_two()];
        for k in in_snap.keys().copied().chain(extra.iter().map(|(k, _)| 500 + *k)) {
          per[key_hash(self.cfg.collide, k) as usize & (self.cfg.shards.next_power_of_two() - 1)] += 1;
        }
        if clause == "over_capacity" && per.iter().any(|n| *n > 512) {
          return Err(fail("C17", "restore", "restored_over_capacity_after_event_buffer_overflow", format!("[{api} {}] {msg}", pol.name())));
        }
        return Err(fail("C17", &format!("{api}/{}", pol.name()), &format!("restored_{clause}"), msg));
      }
    }
    if lifetimes {
      // C17: "remaining lifetimes no longer than the originals": at each original TTL deadline the
      // restored entry must be expired
      let mut ds: Vec<(u64, u32, u64)> = in_snap.iter().filter_map(|(k, v)| self.w[&v.wid].ttl.map(|d| (d, *k, v.wid))).collect();
      ds.sort();
      for (d, k, wid) in ds {
        if d > self.now {
          self.now = d;
          self.clock.store(d, Ordering::SeqCst);
        }
        if let Some(g) = c2.peek(&k) {
          if g.wid == wid {
            return Err(fail("C17", api, "restored_lifetime_extended", format!("key {k} write {wid}: original TTL deadline {d} ns reached, restored cache still returns it")));
          }
        }
        self.rep.class("restore_lifetime_checked");
      }
    }
    drop(c2);
    Ok(())
  }

  // ---- dispatcher ---------------------------------------------------------------------------------

  fn step(&mut self, op: &Op) -> Result<(), Failure> {
    let mut flush = false;
    match op {
      Op::Insert { a, k, c } => {
        self.do_insert(*a, *k, self.cfg.cost(*c), None);
        flush = self.cfg.maint_always;
      }
      Op::InsertTtl { a, k, c, ttl } => {
        self.do_insert(*a, *k, self.cfg.cost(*c), Some(TTLS_MS[*ttl as usize % 5]));
        flush = self.cfg.maint_always;
      }
      Op::Remove { a, k } => {
        self.do_remove(*a, *k, false)?;
        flush = true;
      }
      Op::Invalidate { a, k } => {
        self.do_remove(*a, *k, true)?;
        flush = true;
      }
      Op::Clear { a } => {
        if *a {
          self.drive(self.ac.clear());
        } else {
          self.cache.clear();
        }
        let keys: Vec<u32> = self.live.keys().copied().collect();
        for k in keys {
          self.kill(k, WState::Cleared);
        }
      }
      Op::MultiInsert { a, items } => {
        let mut triples = Vec::new();
        let mut recs = Vec::new();
        for (k, c) in items {
          let v = self.new_val(*k);
          recs.push((*k, v.wid, self.cfg.cost(*c)));
          triples.push((*k, v, self.cfg.cost(*c)));
        }
        if *a {
          self.drive(self.ac.multi_insert(triples));
        } else {
          let c = self.cache.clone();
          self.pool.install(move || c.multi_insert(triples));
        }
        let d = self.global_ttl_deadline();
        for (k, wid, cost) in recs {
          self.wrote(k, wid, cost, d, self.now);
        }
      }
      Op::MultiRemove { a, keys, inval } => {
        let api = hs(*a, "multi_remove");
        let before: BTreeMap<u32, u64> = keys.iter().filter_map(|k| self.live.get(k).map(|w| (*k, *w))).collect();
        let got: Option<Vec<(u32, Val)>> = match (*a, *inval) {
          (false, false) => {
            let c = self.cache.clone();
            let ks = keys.clone();
            Some(self.pool.install(move || c.multi_remove(ks)).into_iter().map(|(k, v)| (k, (*v).clone())).collect())
          }
          (true, false) => Some(self.drive(self.ac.multi_remove(keys.clone())).into_iter().map(|(k, v)| (k, (*v).clone())).collect()),
          (false, true) => {
            let c = self.cache.clone();
            let ks = keys.clone();
            self.pool.install(move || c.multi_invalidate(ks));
            None
          }
          (true, true) => {
            self.drive(self.ac.multi_invalidate(keys.clone()));
            None
          }
        };
        if let Some(got) = got {
          let mut seen = BTreeSet::new();
          for (k, v) in &got {
            if !seen.insert(*k) || v.key != *k || before.get(k) != Some(&v.wid) {
              return Err(fail("C11", &api, "returned_dead_value", format!("multi_remove returned ({k}, {v:?}); live before: {:?}", before.get(k))));
            }
            self.removed_by_op.push((*k, v.wid));
          }
          for (k, wid) in &before {
            if !seen.contains(k) {
              let w = self.w[wid].clone();
              if !self.possibly_expired(&w) && !self.cfg.may_forget() {
                return Err(fail("C12", &api, "unexpired_missing", format!("multi_remove did not find key {k} although write {wid} is unexpired and the cache is unbounded")));
              }
            }
          }
        } else if self.rec.is_some() {
          // multi_invalidate returns nothing: which keys were resident is only known for caches
          // that cannot forget; elsewhere the Invalidated notifications are matched leniently
          let certain = !self.cfg.may_forget() && !before.values().any(|w| self.possibly_expired(&self.w[w]));
          for (k, wid) in &before {
            if certain {
              self.removed_by_op.push((*k, *wid));
            } else {
              self.removed_maybe.push((*k, *wid));
            }
          }
        }
        for k in keys {
          self.kill(*k, WState::Removed);
        }
        flush = true;
      }
      Op::OrInsert { a, k, c, form } => self.do_entry_or_insert(*a, *k, self.cfg.cost(*c), *form)?,
      Op::Compute { a, k, form } => self.do_compute(*a, *k, *form)?,
      Op::FetchWith { a, k } => self.do_fetch_with(*a, *k)?,
      Op::Get { a, k } => {
        let g = if *a { self.drive(self.ac.get(k, |v| v.clone())) } else { self.cache.get(k, |v| v.clone()) };
        self.check_read(&hs(*a, "get"), *k, g.as_ref(), Refresh::Definite)?;
      }
      Op::Fetch { a, k } => {
        let g = if *a { self.drive(self.ac.fetch(k)) } else { self.cache.fetch(k) }.map(|v| (*v).clone());
        self.check_read(&hs(*a, "fetch"), *k, g.as_ref(), Refresh::Definite)?;
      }
      Op::Peek { a, k } => {
        let g = if *a { self.drive(self.ac.peek(k)) } else { self.cache.peek(k) }.map(|v| (*v).clone());
        self.check_read(&hs(*a, "peek"), *k, g.as_ref(), Refresh::No)?;
      }
      Op::EntryGet { a, k } => {
        let g: Option<Val> = if *a {
          match self.drive(self.ac.entry(*k)) {
            fibre_cache::AsyncEntry::Occupied(o) => Some((*o.get()).clone()),
            fibre_cache::AsyncEntry::Vacant(_) => None,
          }
        } else {
          match self.cache.entry(*k) {
            fibre_cache::Entry::Occupied(o) => Some((*o.get()).clone()),
            fibre_cache::Entry::Vacant(_) => None,
          }
        };
        self.check_read(&hs(*a, "entry"), *k, g.as_ref(), Refresh::Possible)?;
      }
      Op::MultiGet { a, keys } => {
        let api = hs(*a, "multiget");
        let got: BTreeMap<u32, Val> = if *a {
          self.drive(self.ac.multiget::<Vec<u32>, u32>(keys.clone())).into_iter().map(|(k, v)| (k, (*v).clone())).collect()
        } else {
          let c = self.cache.clone();
          let ks = keys.clone();
          self.pool.install(move || c.multiget::<Vec<u32>, u32>(ks)).into_iter().map(|(k, v)| (k, (*v).clone())).collect()
        };
        for k in got.keys() {
          if !keys.contains(k) {
            return Err(fail("C11", &api, "other_keys_value", format!("multiget({keys:?}) returned unrequested key {k}")));
          }
        }
        let uniq: BTreeSet<u32> = keys.iter().copied().collect();
        for k in uniq {
          self.check_read(&api, k, got.get(&k), Refresh::Definite)?;
        }
      }
      Op::Iter { kind, batch, adv, held_at, mutate } => {
        if let (IterKind::IterSnapshot, Some((at, k, rm))) = (kind, mutate) {
          self.do_iter_snapshot_mutated(*at as usize, *k, *rm)?;
        }
        self.do_iter(*kind, *batch, *adv, held_at)?;
        flush = self.cfg.introspect;
      }
      Op::Maint { a } => {
        if *a {
          block_on(self.ac.run_maintenance());
        } else {
          self.cache.run_maintenance();
        }
        self.note_drain(None, 16);
        for w in self.w.values_mut() {
          if w.state == WState::Live {
            w.maint_seen = true;
          }
        }
        flush = true;
      }
      Op::Advance(a) => self.advance(*a),
      Op::Metrics { a } => {
        let _ = if *a { self.ac.metrics() } else { self.cache.metrics() };
        if self.cfg.introspect {
          self.note_drain(None, u32::MAX);
        }
        flush = self.cfg.introspect;
      }
      Op::Bulk { n, c, multi } => {
        let n = BULKS[*n as usize % 8];
        let cost = self.cfg.cost(*c);
        if n > 100 {
          self.burst = true;
        }
        let d = self.global_ttl_deadline();
        if *multi {
          let mut triples = Vec::new();
          let mut recs = Vec::new();
          for i in 0..n {
            let v = self.new_val(BULK_BASE + i);
            recs.push((BULK_BASE + i, v.wid));
            triples.push((BULK_BASE + i, v, cost));
          }
          let c = self.cache.clone();
          self.pool.install(move || c.multi_insert(triples));
          for (k, wid) in recs {
            self.wrote(k, wid, cost, d, self.now);
          }
        } else {
          for i in 0..n {
            let v = self.new_val(BULK_BASE + i);
            let wid = v.wid;
            self.cache.insert(BULK_BASE + i, v, cost);
            self.wrote(BULK_BASE + i, wid, cost, d, self.now);
            if self.cfg.maint_always {
              self.note_drain(Some(BULK_BASE + i), 16);
            }
          }
        }
        self.rep.class(format!("bulk:{n}"));
        flush = self.cfg.maint_always;
      }
      Op::Restore { fmt, pol, extra, lifetimes, asnap, abuild, bcap } => {
        self.do_restore(*fmt, *pol, extra, *lifetimes, *asnap, *abuild, *bcap)?;
        flush = self.cfg.introspect;
      }
      Op::Quiesce => self.do_quiesce("C13", "quiesce")?,
      Op::Contend => {
        self.contend.set(true);
        return Ok(());
      }
      Op::CancelMultiRemove { keys, hold, inval } => {
        self.do_cancelled_multi_remove(keys, *hold, *inval)?;
        flush = true;
      }
    }
    // (Contend applies to the operation that follows it only)
    self.contend.set(false);
    if self.live.len() > 100 {
      self.burst = true;
    }
    if flush {
      let name = format!("{op:?}");
      let name = name.split(|c: char| !c.is_ascii_alphanumeric()).next().unwrap_or("op").to_string();
      self.sync_listener(&name)?;
    }
    Ok(())
  }

  fn finish(&mut self) -> Result<(), Failure> {
    self.op_i += 1;
    if self.contended_pending.get() > 0 {
      self.rep.class("contended_async_op_went_pending");
    }
    if self.contended_ready.get() > 0 {
      self.rep.class("contended_async_op_ready_at_once");
    }
    self.do_quiesce("C13", "quiesce")?;
    self.sync_listener("end")?;
    if let Some(rec) = &self.rec {
      if !self.burst && self.inconclusive == 0 {
        // C16 completeness for expiry cleanup, through the cache's own counters: every entry the
        // janitor removed for TTL/TTI must have produced one Expired notification
        let m = self.cache.metrics();
        let g = rec.log.lock().unwrap();
        let expired = g.iter().filter(|n| n.reason == Reason::Expired).count() as u64;
        if expired != m.evicted_by_ttl + m.evicted_by_tti {
          return Err(fail("C16", "listener", "expired_removals_not_all_notified", format!("metrics count {} TTL + {} TTI removals, the drained listener saw {expired} Expired notifications", m.evicted_by_ttl, m.evicted_by_tti)));
        }
      }
    }
    Ok(())
  }
}

pub fn execute(s: &Scenario) -> Result<CaseReport, Failure> {
  execute_for(s, &crate::current_property())
}

pub fn execute_for(s: &Scenario, focus: &str) -> Result<CaseReport, Failure> {
  let run = Box::new(Run::build(s, focus));
  let mut run = std::mem::ManuallyDrop::new(run);
  let res = std::panic::catch_unwind(std::panic::AssertUnwindSafe(|| -> Result<(), Failure> {
    for (i, op) in s.ops.iter().enumerate() {
      run.op_i = i;
      if crate::trace_on() {
        eprintln!("[{i}] now={} {op:?}", run.now);
      }
      run.step(op)?;
    }
    run.finish()
  }));
  let exec = run.exec.clone();
  let out = match res {
    Err(p) => {
      // never drop a possibly corrupted cache while unwinding: leak it
      let m = crate::panic_msg(&p);
      Err(Failure::new(focus, format!("E1/cache/panic/{}", crate::panic_site(&m)), format!("panic inside the cache: {m}")))
    }
    Ok(r) => {
      let rep = {
        let r0 = &mut **run;
        let mut rep = r0.rep.clone();
        rep.inconclusive = r0.inconclusive;
        rep.nontrivial = match focus {
          // C11 NT: "a key was overwritten or removed and read afterwards"
          "C11" => r0.nt11,
          // C12 NT: a read at/after a deadline of an entry the model still holds, or between an
          // entry's insertion and its deadline after >= 1 maintenance pass
          "C12" => r0.nt12,
          // C13 NT: total inserted cost exceeded capacity at some point or an overwrite changed a
          // cost, and a quiescence check ran
          "C13" => r0.quiesced && (r0.over_cap_seen || r0.cost_changed),
          "C15" => r0.nt15,
          // C16 NT: notifications of at least two different reasons
          "C16" => r0.reasons.len() >= 2,
          "C17" => r0.nt17,
          _ => false,
        };
        rep
      };
      // orderly teardown
      let r0 = unsafe { std::mem::ManuallyDrop::take(&mut run) };
      drop(r0);
      r.map(|_| rep)
    }
  };
  if let Some(ex) = exec {
    ex.stop();
  }
  out
}

pub fn check(check: &mut Check) {
  let ctx = check.ctx.clone();
  let prop = ctx.property.clone();
  // development aid (never set by vf): generate with another property's weights
  let focus = Focus::of(&std::env::var("VERIF_GEN_FOCUS").unwrap_or_else(|_| prop.clone()));
  let excl = Excl {
    no_event_overflow: check.findings.open_entries("C13").iter().any(|f| f.id.contains("event-buffer")) && prop == "C13"
      || check.findings.open_entries(&prop).iter().any(|f| f.id.contains("event-buffer")),
    no_restore_over_capacity: check.findings.open_entries("C17").iter().any(|f| f.id.contains("restore")),
  };
  let cases = match focus {
    Focus::C17 => ctx.tier.pick(3_000u64, 300_000u64),
    Focus::C15 => ctx.tier.pick(3_000u64, 300_000u64),
    _ => ctx.tier.pick(6_000u64, 600_000u64),
  };
  let max_ops = ctx.tier.pick(45usize, 90usize);
  let p2 = prop.clone();
  // In the maint_always configurations the real janitor thread works concurrently with the history, so a
  // failure there can depend on its timing; when vcore re-executes such a scenario that already failed
  // once (shrinking, final confirmation) it is repeated up to 30 times before it counts as passing —
  // otherwise the violation would be reported under a `nonreproducible/...` signature.
  let failed_once: Arc<std::sync::Mutex<BTreeSet<u64>>> = Default::default();
  let out = vcore::drive(&ctx, &check.findings, 2, cases, move || scenario_strategy(focus, max_ops, excl), move |s| {
    let mut r = execute_for(s, &p2);
    if s.cfg.maint_always {
      let h = vcore::hash_str(&serde_json::to_string(s).unwrap_or_default());
      if r.is_ok() && failed_once.lock().unwrap().contains(&h) {
        for _ in 0..30 {
          r = execute_for(s, &p2);
          if r.is_err() {
            break;
          }
        }
      }
      if matches!(&r, Err(f) if f.property == p2) {
        failed_once.lock().unwrap().insert(h);
      }
    }
    // development aid (never set by vf): only keep failures whose signature contains VERIF_ONLY_SIG
    if let (Err(f), Ok(only)) = (&r, std::env::var("VERIF_ONLY_SIG")) {
      if !f.signature.contains(&only) {
        return Ok(CaseReport::new());
      }
    }
    r
  });
  check.absorb(crate::ENGINE_SEQ, out);
  check.require_class("bounded", 100);
  check.require_class("unbounded", 100);
  match focus {
    Focus::C12 => check.require_class("advance_to_deadline", 500),
    Focus::C13 => check.require_class("quiesce_checked", 1000),
    Focus::C16 => {
      check.require_class("notif:Invalidated", 200);
      check.require_class("notif:Capacity", 50);
    }
    Focus::C15 => check.require_class("load_on_miss", 500),
    _ => {}
  }
}

pub fn assumptions() -> Vec<String> {
  vec![
    "E1: one harness thread per case, H3 virtual clock, fixed hasher; the background janitor is configured to (practically) never act or, in maint_always configurations, to act every 50 ms of real time — every clause tolerates maintenance at any moment".into(),
    "reads that refresh the idle timer for certain: get, fetch, multiget, fetch_with hit; never: peek; entry/compute/iteration/snapshot are treated as 'may refresh' (the property only says peek does not)".into(),
    "stale-while-revalidate is not combined with an idle timeout (the property does not say whether the grace window extends idle expiry)".into(),
    "listener completeness is asserted only while fewer than ~100 removals can be pending per operation (the property's 'keeps up' premise); the notification queue is flushed with a zero-cost sentinel entry".into(),
  ]
}

pub fn rule_for(p: &str) -> String {
  let common = "proptest-generated configuration (policy x shards x capacity x TTL/TTI/grace x maintenance mode x listener x loader) plus operation history on the sync and async handle of one cache; distinct = hash of the scenario; ";
  let nt = match p {
    "C11" => "non-trivial = a key was overwritten or removed/invalidated/cleared and read afterwards (E1), or >= 2 threads touched the same key (E4)",
    "C12" => "non-trivial = some read happened at or after a deadline of an entry the model still holds, or a TTL/TTI entry was read after at least one maintenance pass, or a stale value was served inside the grace window",
    "C13" => "non-trivial = a quiescence check ran and the total inserted cost exceeded the capacity at some point or an overwrite changed a cost (E1); writers/removers/clear/maintenance overlapped on one cache (E4)",
    "C16" => "non-trivial = the recording listener received notifications of at least two different reasons (E1), or a user remove raced maintenance on the same key (E4)",
    "C17" => "non-trivial = an enumeration ran over >= 2 non-empty shards with more live entries than the batch size, or a restore was followed by inserts that take the restored cache over capacity",
    _ => "",
  };
  format!("{common}{nt}")
}
