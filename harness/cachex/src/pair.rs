//! E4p — pause-point linearizability engine for two threads.
//!
//! A scenario is (configuration, setup prefix executed sequentially, operation A with a pause plan,
//! operation B with an optional pause plan, optionally a virtual-clock step performed by the harness
//! while A is suspended, a sequential suffix).  The key type of the cache under test counts every
//! evaluation of its `Hash` / `Eq` / `Clone` and every entry into a user closure (compute closure,
//! `get` closure, `or_insert_with` closure, loader body); the pause plan names the n-th such event of
//! an operation, at which the executing thread is suspended.  Thread A runs operation A and suspends
//! at its planned event; thread B then runs operation B while A is suspended (B may itself suspend at
//! its own planned event, in which case A is resumed and completes inside B's pause).  A suspended
//! thread is always resumed after a short bounded time: B may legitimately be blocked on a lock A
//! holds; the timeout only resumes threads, it is never a verdict.
//!
//! Oracle (differential / metamorphic, the sequential semantics itself is checked by E1-cache): the
//! observable outcome of the concurrent run — result of A, result of B, results of the suffix, final
//! key -> value map, `metrics().current_cost`, multiset of listener notifications, loader invocations per
//! key — must equal the outcome of one of the *reference* executions of the same scenario on a fresh
//! cache of the same configuration:
//!   * setup; A; B; suffix       and       setup; B; A; suffix          (fully sequential), and
//!   * for a `fetch_with` that runs the loader (the property does not call fetch_with atomic: it is
//!     "miss, then load, then store"): the same with that operation's loader held while the other
//!     operation runs completely ("miss; other operation; store").
//! Two absolute clauses need no reference: after removing every key `current_cost` must be 0, and in
//! configurations without expiry `current_cost` must equal the summed cost of the final map.
//!
//! The interleaving is forced by the pause plan, so replays are mostly deterministic (the replay
//! command repeats a few times).

use crate::env::{block_on, case_clock, case_pool, Exec, ExecSpawner, FixedState, Pol, Reason, Val, T0};
use crate::policy::Kind;
use fibre_cache::error::ComputeResult;
use fibre_cache::policy::CachePolicy;
use fibre_cache::{AsyncCache, Cache, CacheBuilder, EvictionListener, EvictionReason, TaskSpawner};
use proptest::prelude::*;
use serde::{Deserialize, Serialize};
use std::cell::RefCell;
use std::collections::BTreeMap;
use std::future::Future;
use std::hash::{Hash, Hasher};
use std::pin::Pin;
use std::sync::atomic::{AtomicBool, AtomicU32, AtomicU64, Ordering};
use std::sync::{Arc, Condvar, Mutex};
use std::time::{Duration, Instant};
use vcore::{CaseReport, Check, Failure};

const MS: u64 = 1_000_000;
pub const NK: u32 = 4;
const SENTINEL: u32 = 4_000_000_000;
const COSTS: [u64; 4] = [0, 1, 2, 5];
const TTLS: [u64; 2] = [10, 50];
const LOAD_BASE: u64 = 1_000_000;

// ---------------------------------------------------------------------------------------------
// actors, events and the instrumented key
// ---------------------------------------------------------------------------------------------

#[derive(Clone, Copy, Debug, PartialEq, Eq)]
enum EvKind {
  Hash,
  Eq,
  Clone,
  Closure,
  Loader,
}

#[derive(Default)]
struct ActorState {
  reached: bool,
  released: bool,
  done: bool,
}

/// One of the two operations of a run: counts the events of its threads and suspends at the planned one.
struct Actor {
  count: AtomicU32,
  loader_events: AtomicU32,
  /// suspend at the n-th event (1-based); 0 = never
  plan_nth: u32,
  /// suspend at the first entry into the loader body / into a user closure
  plan_loader: bool,
  plan_closure: bool,
  closure_events: AtomicU32,
  fired: AtomicBool,
  /// kind of the event at which it was suspended (0 = none, 1.. = EvKind + 1)
  paused_kind: AtomicU32,
  st: Mutex<ActorState>,
  cv: Condvar,
}

impl Actor {
  fn new(plan_nth: u32, plan_loader: bool, plan_closure: bool) -> Arc<Actor> {
    Arc::new(Actor { count: AtomicU32::new(0), loader_events: AtomicU32::new(0), plan_nth, plan_loader, plan_closure, closure_events: AtomicU32::new(0), fired: AtomicBool::new(false), paused_kind: AtomicU32::new(0), st: Mutex::new(ActorState::default()), cv: Condvar::new() })
  }
  fn event(&self, kind: EvKind) {
    let n = self.count.fetch_add(1, Ordering::SeqCst) + 1;
    let mut hit = self.plan_nth != 0 && n == self.plan_nth;
    if kind == EvKind::Loader {
      let l = self.loader_events.fetch_add(1, Ordering::SeqCst) + 1;
      hit = hit || (self.plan_loader && l == 1);
    }
    if kind == EvKind::Closure {
      let l = self.closure_events.fetch_add(1, Ordering::SeqCst) + 1;
      hit = hit || (self.plan_closure && l == 1);
    }
    if hit && !self.fired.swap(true, Ordering::SeqCst) {
      self.paused_kind.store(kind as u32 + 1, Ordering::SeqCst);
      let mut g = self.st.lock().unwrap();
      g.reached = true;
      self.cv.notify_all();
      // the orchestrator always releases; the cap only keeps a broken harness from hanging a thread
      let cap = Instant::now() + Duration::from_secs(15);
      while !g.released {
        let left = cap.saturating_duration_since(Instant::now());
        if left.is_zero() {
          break;
        }
        g = self.cv.wait_timeout(g, left).unwrap().0;
      }
    }
  }
  fn release(&self) {
    let mut g = self.st.lock().unwrap();
    g.released = true;
    self.cv.notify_all();
  }
  fn mark_done(&self) {
    let mut g = self.st.lock().unwrap();
    g.done = true;
    self.cv.notify_all();
  }
  fn is_done(&self) -> bool {
    self.st.lock().unwrap().done
  }
  fn is_reached(&self) -> bool {
    self.st.lock().unwrap().reached
  }
  /// Waits until the actor is suspended or done; false when `d` elapsed first.
  fn wait_reached_or_done(&self, d: Duration) -> bool {
    let cap = Instant::now() + d;
    let mut g = self.st.lock().unwrap();
    while !(g.reached || g.done) {
      let left = cap.saturating_duration_since(Instant::now());
      if left.is_zero() {
        return false;
      }
      g = self.cv.wait_timeout(g, left).unwrap().0;
    }
    true
  }
  fn wait_done(&self, d: Duration) -> bool {
    let cap = Instant::now() + d;
    let mut g = self.st.lock().unwrap();
    while !g.done {
      let left = cap.saturating_duration_since(Instant::now());
      if left.is_zero() {
        return false;
      }
      g = self.cv.wait_timeout(g, left).unwrap().0;
    }
    true
  }
  fn paused_at(&self) -> Option<EvKind> {
    match self.paused_kind.load(Ordering::SeqCst) {
      0 => None,
      1 => Some(EvKind::Hash),
      2 => Some(EvKind::Eq),
      3 => Some(EvKind::Clone),
      4 => Some(EvKind::Closure),
      _ => Some(EvKind::Loader),
    }
  }
}

thread_local! {
  static ROLE: RefCell<Option<Arc<Actor>>> = const { RefCell::new(None) };
  static EXIT: RefCell<Option<ExitSignal>> = const { RefCell::new(None) };
}

fn set_role(a: Option<Arc<Actor>>) {
  ROLE.with(|r| *r.borrow_mut() = a);
}

fn hook(kind: EvKind) {
  let a = ROLE.with(|r| r.borrow().clone());
  if let Some(a) = a {
    a.event(kind);
  }
}

/// Signals the end of a thread the cache spawned for a sync loader (TLS destructor: runs after the
/// whole loader task — store, marker removal, completion — is over).
struct ExitSignal(Arc<(Mutex<usize>, Condvar)>);
impl Drop for ExitSignal {
  fn drop(&mut self) {
    let mut g = self.0 .0.lock().unwrap();
    *g -= 1;
    self.0 .1.notify_all();
  }
}

/// The key type of the caches of this engine.
#[derive(Debug, Serialize, Deserialize)]
pub struct PKey(pub u32);

impl Hash for PKey {
  fn hash<H: Hasher>(&self, state: &mut H) {
    hook(EvKind::Hash);
    state.write_u32(self.0);
  }
}
impl PartialEq for PKey {
  fn eq(&self, o: &PKey) -> bool {
    hook(EvKind::Eq);
    self.0 == o.0
  }
}
impl Eq for PKey {}
impl Clone for PKey {
  fn clone(&self) -> PKey {
    hook(EvKind::Clone);
    PKey(self.0)
  }
}

type PCache = Cache<PKey, Val, FixedState>;
type PAsync = AsyncCache<PKey, Val, FixedState>;
type PBuilder = CacheBuilder<PKey, Val, FixedState>;

// ---------------------------------------------------------------------------------------------
// scenario
// ---------------------------------------------------------------------------------------------

#[derive(Clone, Copy, Debug, Serialize, Deserialize, PartialEq, Eq)]
pub enum PLoader {
  None,
  Sync,
  Async,
}

#[derive(Clone, Debug, Serialize, Deserialize)]
pub struct PCfg {
  /// None = unbounded (differential oracle); Some = bounded (only the C13 quiescence clauses are asserted)
  #[serde(default)]
  pub capacity: Option<u64>,
  pub shards: usize,
  pub collide: bool,
  pub pol: Pol,
  pub ttl_ms: Option<u64>,
  pub swr_ms: Option<u64>,
  pub listener: bool,
  pub loader: PLoader,
  pub load_cost: u8,
}

#[derive(Clone, Debug, Serialize, Deserialize)]
pub enum POp {
  Insert { a: bool, k: u32, c: u8 },
  InsertTtl { a: bool, k: u32, c: u8, ttl: u8 },
  Remove { a: bool, k: u32 },
  Invalidate { a: bool, k: u32 },
  Clear { a: bool },
  Get { a: bool, k: u32 },
  Peek { a: bool, k: u32 },
  Fetch { a: bool, k: u32 },
  EntryGet { a: bool, k: u32 },
  OrInsert { a: bool, k: u32, c: u8, with: bool },
  Compute { a: bool, k: u32, form: u8 },
  FetchWith { a: bool, k: u32 },
  MultiInsert { a: bool, items: Vec<(u32, u8)> },
  MultiRemove { a: bool, keys: Vec<u32> },
  Maint { a: bool },
}

impl POp {
  fn name(&self) -> String {
    let (a, n) = match self {
      POp::Insert { a, .. } => (*a, "insert"),
      POp::InsertTtl { a, .. } => (*a, "insert_with_ttl"),
      POp::Remove { a, .. } => (*a, "remove"),
      POp::Invalidate { a, .. } => (*a, "invalidate"),
      POp::Clear { a } => (*a, "clear"),
      POp::Get { a, .. } => (*a, "get"),
      POp::Peek { a, .. } => (*a, "peek"),
      POp::Fetch { a, .. } => (*a, "fetch"),
      POp::EntryGet { a, .. } => (*a, "entry"),
      POp::OrInsert { a, with, .. } => (*a, if *with { "entry.or_insert_with" } else { "entry.or_insert" }),
      POp::Compute { a, form, .. } => (*a, ["compute", "try_compute", "compute_val", "try_compute_val"][*form as usize % 4]),
      POp::FetchWith { a, .. } => (*a, "fetch_with"),
      POp::MultiInsert { a, .. } => (*a, "multi_insert"),
      POp::MultiRemove { a, .. } => (*a, "multi_remove"),
      POp::Maint { a } => (*a, "run_maintenance"),
    };
    format!("{}.{}", if a { "async" } else { "sync" }, n)
  }
  /// keys the operation may touch (None = all)
  fn keys(&self) -> Option<Vec<u32>> {
    match self {
      POp::Insert { k, .. } | POp::InsertTtl { k, .. } | POp::Remove { k, .. } | POp::Invalidate { k, .. } | POp::Get { k, .. } | POp::Peek { k, .. } | POp::Fetch { k, .. } | POp::EntryGet { k, .. } | POp::OrInsert { k, .. } | POp::Compute { k, .. } | POp::FetchWith { k, .. } => Some(vec![*k]),
      POp::MultiInsert { items, .. } => Some(items.iter().map(|(k, _)| *k).collect()),
      POp::MultiRemove { keys, .. } => Some(keys.clone()),
      POp::Clear { .. } | POp::Maint { .. } => None,
    }
  }
  /// compute-family closures run while the shard's write lock is held; the entry forms dwell (closure
  /// event) while the harness holds the `Entry` guard, i.e. the shard's write lock
  fn closure_under_write_lock(&self) -> bool {
    matches!(self, POp::Compute { .. } | POp::OrInsert { .. } | POp::EntryGet { .. })
  }
}

#[derive(Clone, Debug, Serialize, Deserialize)]
pub enum SOp {
  Op(POp),
  Advance(u16),
}

/// Where an operation is suspended.
#[derive(Clone, Copy, Debug, Serialize, Deserialize, PartialEq, Eq)]
pub enum PausePt {
  /// index into the events (key Hash / Eq / Clone evaluations, closure and loader entries) the
  /// operation performs when it runs first on the state the setup left
  Nth(u16),
  /// the first entry into a user closure (compute / get / or_insert_with closure, entry-guard dwell)
  Closure,
  /// the first entry into the loader body
  Loader,
}

#[derive(Clone, Debug, Serialize, Deserialize)]
pub struct Scenario {
  pub cfg: PCfg,
  pub setup: Vec<SOp>,
  pub a: POp,
  /// pause plan of A (None = no pause)
  pub pa: Option<PausePt>,
  pub b: POp,
  pub pb: Option<PausePt>,
  /// virtual-clock step (ms) performed by the harness while A is suspended and B is under way
  pub step_ms: Option<u16>,
  pub suffix: Vec<POp>,
}

#[derive(Clone, Copy, Debug, PartialEq, Eq)]
pub enum Focus {
  C11,
  C12,
  C13,
  C15,
  C16,
}

impl Focus {
  pub fn of(p: &str) -> Focus {
    match p {
      "C12" => Focus::C12,
      "C13" => Focus::C13,
      "C15" => Focus::C15,
      "C16" => Focus::C16,
      _ => Focus::C11,
    }
  }
}

fn key() -> impl Strategy<Value = u32> {
  0..NK
}

fn op_strategy(f: Focus, has_loader: bool, is_b: bool) -> BoxedStrategy<POp> {
  // weights: [insert, insert_ttl, remove/invalidate, clear, reads, entry-get, or_insert, compute, fetch_with, multi_insert, multi_remove, maint]
  let w: [u32; 12] = match f {
    Focus::C11 => [8, 1, 6, 1, 5, 3, 16, 12, 3, 2, 2, 1],
    // C12: A mostly dwells in a closure under the shard lock, B mostly reads
    Focus::C12 if !is_b => [2, 1, 1, 1, 4, 6, 12, 16, 4, 1, 1, 1],
    Focus::C12 => [2, 1, 2, 1, 14, 3, 2, 2, 22, 1, 1, 1],
    Focus::C13 => [14, 2, 8, 6, 1, 1, 6, 2, 4, 4, 4, 6],
    Focus::C15 => [4, 1, 4, 1, 3, 1, 2, 2, 45, 1, 1, 1],
    Focus::C16 => [8, 1, 12, 3, 2, 1, 4, 2, 3, 2, 8, 2],
  };
  let a = || any::<bool>();
  let fw = if has_loader { w[8] } else { 1 };
  prop_oneof![
    w[0] => (a(), key(), 0u8..4).prop_map(|(a, k, c)| POp::Insert { a, k, c }),
    w[1] => (a(), key(), 0u8..4, 0u8..2).prop_map(|(a, k, c, ttl)| POp::InsertTtl { a, k, c, ttl }),
    w[2] => prop_oneof![(a(), key()).prop_map(|(a, k)| POp::Remove { a, k }), (a(), key()).prop_map(|(a, k)| POp::Invalidate { a, k })],
    w[3] => a().prop_map(|a| POp::Clear { a }),
    w[4] => prop_oneof![
      (a(), key()).prop_map(|(a, k)| POp::Get { a, k }),
      (a(), key()).prop_map(|(a, k)| POp::Peek { a, k }),
      (a(), key()).prop_map(|(a, k)| POp::Fetch { a, k }),
    ],
    w[5] => (a(), key()).prop_map(|(a, k)| POp::EntryGet { a, k }),
    w[6] => (a(), key(), 0u8..4, any::<bool>()).prop_map(|(a, k, c, with)| POp::OrInsert { a, k, c, with }),
    w[7] => (a(), key(), 0u8..4).prop_map(|(a, k, form)| POp::Compute { a, k, form }),
    fw => (a(), key()).prop_map(move |(a, k)| if has_loader { POp::FetchWith { a, k } } else { POp::Fetch { a, k } }),
    w[9] => (a(), proptest::collection::vec((key(), 0u8..4), 1..4)).prop_map(|(a, items)| POp::MultiInsert { a, items }),
    w[10] => (a(), proptest::collection::vec(key(), 1..4)).prop_map(|(a, keys)| POp::MultiRemove { a, keys }),
    w[11] => a().prop_map(|a| POp::Maint { a }),
  ]
  .boxed()
}

fn setup_strategy(has_loader: bool, timed: bool) -> BoxedStrategy<SOp> {
  let a = || any::<bool>();
  let adv = if timed { 4 } else { 1 };
  let fw = if has_loader { 5 } else { 1 };
  prop_oneof![
    8 => (a(), key(), 0u8..4).prop_map(|(a, k, c)| SOp::Op(POp::Insert { a, k, c })),
    1 => (a(), key(), 0u8..4, 0u8..2).prop_map(|(a, k, c, ttl)| SOp::Op(POp::InsertTtl { a, k, c, ttl })),
    2 => (a(), key(), 0u8..4, any::<bool>()).prop_map(|(a, k, c, with)| SOp::Op(POp::OrInsert { a, k, c, with })),
    fw => (a(), key()).prop_map(move |(a, k)| SOp::Op(if has_loader { POp::FetchWith { a, k } } else { POp::Insert { a, k, c: 1 } })),
    1 => (a(), key()).prop_map(|(a, k)| SOp::Op(POp::Remove { a, k })),
    1 => (a(), key(), 0u8..4).prop_map(|(a, k, form)| SOp::Op(POp::Compute { a, k, form })),
    adv => prop_oneof![Just(1u16), Just(9), Just(10), Just(11), Just(40), Just(49), Just(50), Just(51), Just(60)].prop_map(SOp::Advance),
  ]
  .boxed()
}

fn suffix_strategy(has_loader: bool) -> BoxedStrategy<POp> {
  let a = || any::<bool>();
  let fw = if has_loader { 6 } else { 1 };
  prop_oneof![
    4 => prop_oneof![(a(), key()).prop_map(|(a, k)| POp::Invalidate { a, k }), (a(), key()).prop_map(|(a, k)| POp::Remove { a, k })],
    fw => (a(), key()).prop_map(move |(a, k)| if has_loader { POp::FetchWith { a, k } } else { POp::Peek { a, k } }),
    2 => (a(), key()).prop_map(|(a, k)| POp::Peek { a, k }),
    1 => (a(), key(), 0u8..4).prop_map(|(a, k, c)| POp::Insert { a, k, c }),
    // (only the try_ forms: compute / compute_val wait as long as anybody holds the value — documented —
    // which turns a defect that leaks a reference into a hang instead of a verdict)
    1 => (a(), key(), 0u8..2).prop_map(|(a, k, form)| POp::Compute { a, k, form: form * 2 + 1 }),
    1 => (a(), key(), 0u8..4, any::<bool>()).prop_map(|(a, k, c, with)| POp::OrInsert { a, k, c, with }),
  ]
  .boxed()
}

fn set_key(op: &mut POp, nk: u32) {
  match op {
    POp::Insert { k, .. } | POp::InsertTtl { k, .. } | POp::Remove { k, .. } | POp::Invalidate { k, .. } | POp::Get { k, .. } | POp::Peek { k, .. } | POp::Fetch { k, .. } | POp::EntryGet { k, .. } | POp::OrInsert { k, .. } | POp::Compute { k, .. } | POp::FetchWith { k, .. } => *k = nk,
    POp::MultiInsert { items, .. } => {
      if let Some(i) = items.first_mut() {
        i.0 = nk
      }
    }
    POp::MultiRemove { keys, .. } => {
      if let Some(i) = keys.first_mut() {
        *i = nk
      }
    }
    POp::Clear { .. } | POp::Maint { .. } => {}
  }
}

fn shard_of(cfg: &PCfg, k: u32) -> usize {
  crate::env::key_hash(cfg.collide, k) as usize & (cfg.shards - 1)
}

pub fn scenario_strategy(f: Focus) -> impl Strategy<Value = Scenario> {
  let (p_ttl, p_loader, p_listener, p_step): (u32, u32, u32, u32) = match f {
    Focus::C11 => (20, 40, 15, 10),
    Focus::C12 => (95, 85, 10, 75),
    Focus::C13 => (15, 30, 15, 5),
    Focus::C15 => (60, 100, 10, 10),
    Focus::C16 => (25, 25, 100, 10),
  };
  let pol = prop_oneof![5 => Just(Pol::Default), 1 => Just(Pol::Custom(Kind::Lru)), 1 => Just(Pol::Custom(Kind::Fifo)), 1 => Just(Pol::Custom(Kind::Sieve)), 1 => Just(Pol::Custom(Kind::Clock))];
  let cfg = (
    prop_oneof![7 => Just(1usize), 3 => Just(2usize)],
    prop::bool::weighted(0.3),
    pol,
    prop::bool::weighted(p_ttl as f64 / 100.0),
    prop_oneof![Just(10u64), Just(50u64)],
    prop::bool::weighted(if f == Focus::C15 { 0.75 } else { 0.6 }),
    prop::bool::weighted(p_listener as f64 / 100.0),
    (prop::bool::weighted(p_loader as f64 / 100.0), any::<bool>()),
    0u8..4,
  )
    .prop_map(move |(shards, collide, pol, has_ttl, ttl, has_swr, listener, (has_loader, sync_loader), load_cost)| {
      let loader = if !has_loader {
        PLoader::None
      } else if sync_loader {
        PLoader::Sync
      } else {
        PLoader::Async
      };
      let ttl_ms = if has_ttl { Some(ttl) } else { None };
      let swr_ms = if has_ttl && has_swr && loader != PLoader::None { Some(50) } else { None };
      // a stale hit starts its refresh in the background; only the harness spawner lets the harness wait
      // for such a task reliably (a thread the cache spawns for a sync loader is invisible until it
      // enters the loader body)
      let loader = if swr_ms.is_some() { PLoader::Async } else { loader };
      PCfg { capacity: None, shards, collide, pol, ttl_ms, swr_ms, listener, loader, load_cost }
    });
  let p_bounded = if f == Focus::C13 { 0.35 } else { 0.08 };
  let cfg = (cfg, proptest::option::weighted(p_bounded, prop_oneof![Just(1u64), Just(2), Just(3), Just(5)])).prop_map(|(mut cfg, cap)| {
    if let Some(c) = cap {
      // bounded caches of this engine: no expiry, no stale window (the quiescence clauses are exact then)
      cfg.capacity = Some(c);
      cfg.ttl_ms = None;
      cfg.swr_ms = None;
    }
    cfg
  });
  cfg.prop_flat_map(move |cfg| {
    let hl = cfg.loader != PLoader::None;
    let timed = cfg.ttl_ms.is_some();
    let step = if timed { proptest::option::weighted(p_step as f64 / 100.0, prop_oneof![Just(1u16), Just(9), Just(10), Just(11), Just(40), Just(49), Just(50), Just(51), Just(60), Just(100), Just(101)]).boxed() } else { Just(None::<u16>).boxed() };
    let pause = move |is_b: bool| {
      // [n-th event, first closure entry, first loader entry]
      let w: [u32; 3] = match (f, is_b) {
        (Focus::C11, _) => [17, 2, 1],
        (Focus::C15, false) => [11, 2, 7],
        (Focus::C15, true) => [16, 2, 2],
        (Focus::C12, false) => [10, 9, 1],
        _ => [12, 4, 4],
      };
      prop_oneof![w[0] => any::<u16>().prop_map(PausePt::Nth), w[1] => Just(PausePt::Closure), w[2] => Just(PausePt::Loader)]
    };
    let (p_pb, p_same) = match f {
      Focus::C15 => (0.7, 0.5),
      Focus::C11 => (0.35, 0.75),
      _ => (0.35, 0.6),
    };
    // "expiry prelude": load / insert the key of A (or B) and let its lifetime pass by `x` ms
    let prelude = proptest::option::weighted(if timed { 0.6 } else { 0.01 }, (any::<bool>(), any::<bool>(), prop_oneof![Just(0u16), Just(1), Just(9), Just(40), Just(49), Just(50), Just(51)]));
    (
      Just(cfg),
      proptest::collection::vec(setup_strategy(hl, timed), 0..if f == Focus::C15 { 4 } else { 6 }),
      (op_strategy(f, hl, false), proptest::option::weighted(0.93, pause(false))),
      (op_strategy(f, hl, true), proptest::option::weighted(p_pb, pause(true)), prop::bool::weighted(p_same)),
      step,
      (proptest::collection::vec((suffix_strategy(hl), prop::bool::weighted(0.7)), 0..4), prelude),
    )
  })
  .prop_map(move |(cfg, mut setup, (a, pa), (mut b, pb, same_key), step_ms, (suffix, prelude))| {
    // B mostly works on A's key (the pair races on one register)
    if same_key {
      if let Some(ks) = a.keys() {
        if let Some(k) = ks.first() {
          set_key(&mut b, *k);
        }
      }
    }
    let mut sc = Scenario { cfg, setup: vec![], a, pa, b, pb, step_ms, suffix: vec![] };
    normalise(&mut sc);
    let ka = sc.a.keys().and_then(|k| k.first().copied()).unwrap_or(0);
    let kb = sc.b.keys().and_then(|k| k.first().copied()).unwrap_or(0);
    if let (Some((on_b, by_load, x)), Some(ttl)) = (prelude, sc.cfg.ttl_ms) {
      // in clock-step scenarios it is mostly B whose result depends on the time
      let k = if on_b || sc.step_ms.is_some() { kb } else { ka };
      let op = if by_load && sc.cfg.loader != PLoader::None { POp::FetchWith { a: false, k } } else { POp::Insert { a: false, k, c: 1 } };
      setup.push(SOp::Op(op));
      setup.push(SOp::Advance(ttl as u16 + x));
    }
    sc.setup = setup;
    // the suffix mostly revisits the keys the pair worked on
    sc.suffix = suffix
      .into_iter()
      .enumerate()
      .map(|(i, (mut op, on_pair))| {
        if on_pair {
          set_key(&mut op, if i % 2 == 0 { ka } else { kb });
        }
        op
      })
      .collect();
    sc
  })
}

/// Restrictions that keep every generated pair inside what the oracle can decide (see the module
/// comment and NOTES.md): operations that are atomic by the property's text, or `fetch_with`.
fn normalise(sc: &mut Scenario) {
  let cfg = sc.cfg.clone();
  // a bulk operation is one critical section per shard: keep its keys in one shard so that it is
  // atomic as a whole
  let confine = |op: &mut POp| match op {
    POp::MultiInsert { items, .. } => {
      let s = shard_of(&cfg, items[0].0);
      items.retain(|(k, _)| shard_of(&cfg, *k) == s);
    }
    POp::MultiRemove { keys, .. } => {
      let s = shard_of(&cfg, keys[0]);
      keys.retain(|k| shard_of(&cfg, *k) == s);
    }
    _ => {}
  };
  confine(&mut sc.a);
  confine(&mut sc.b);
  // run_maintenance is a sequence of passes (expiry, idle, capacity), each its own critical section, and
  // one such sequence per shard: it is only generated as a racing operation where it has at most one
  // effective pass (one shard, no idle timeout — this engine never configures one)
  let fix_maint = |op: &mut POp| {
    if matches!(op, POp::Maint { .. }) && cfg.shards > 1 && cfg.ttl_ms.is_some() {
      *op = POp::Peek { a: false, k: 0 };
    }
  };
  fix_maint(&mut sc.a);
  fix_maint(&mut sc.b);
  // Exclusion by construction (genuine defect found by this engine, witness
  // /verif/findings/cachex-C12-stale-hit-skips-refresh-on-contended-stripe.json): a stale hit only
  // try_locks its pending-loads stripe and silently gives up the refresh when another key's load holds
  // that stripe.  With a grace window configured, two racing fetch_with calls work on the same key.
  if sc.cfg.swr_ms.is_some() {
    if let (POp::FetchWith { k: ka, .. }, POp::FetchWith { k: kb, .. }) = (&sc.a, &mut sc.b) {
      *kb = *ka;
    }
  }
  if sc.step_ms.is_some() {
    // clock-step scenarios: the two operations must commute (different keys, no operation that
    // spans keys), so that each result depends only on the time at which that operation took effect
    let spans = |op: &POp| matches!(op, POp::Clear { .. } | POp::Maint { .. } | POp::MultiInsert { .. } | POp::MultiRemove { .. });
    if spans(&sc.a) {
      sc.a = POp::Compute { a: false, k: 0, form: 0 };
    }
    if spans(&sc.b) {
      sc.b = POp::Get { a: false, k: 1 };
    }
    if sc.cfg.swr_ms.is_some() && is_fetch_with(&sc.a) && is_fetch_with(&sc.b) {
      // (see the exclusion above: not two fetch_with on different keys with a grace window)
      sc.a = POp::Compute { a: false, k: sc.a.keys().unwrap()[0], form: 0 };
    }
    let ka = sc.a.keys().unwrap()[0];
    let kb = sc.b.keys().unwrap()[0];
    if ka == kb {
      set_key(&mut sc.b, (ka + 1) % NK);
    }
  }
}

// ---------------------------------------------------------------------------------------------
// the world of one run
// ---------------------------------------------------------------------------------------------

#[derive(Clone, Debug)]
struct PNotif {
  key: u32,
  val: Val,
  reason: Reason,
}

#[derive(Default)]
struct PRecorder {
  log: Mutex<Vec<PNotif>>,
  cv: Condvar,
}

struct PListener(Arc<PRecorder>);
impl EvictionListener<PKey, Val> for PListener {
  fn on_evict(&self, key: PKey, value: Arc<Val>, reason: EvictionReason) {
    let mut g = self.0.log.lock().unwrap();
    g.push(PNotif { key: key.0, val: (*value).clone(), reason: reason.into() });
    self.0.cv.notify_all();
  }
}

struct LoadLog {
  /// (key, invocation index of that key)
  log: Mutex<Vec<(u32, u32)>>,
}

struct Shared {
  clock: Arc<AtomicU64>,
  /// the actor that started most recently: loader bodies run on threads the cache spawns and count
  /// for that actor
  owner: Mutex<Option<Arc<Actor>>>,
  loads: LoadLog,
  load_cost: u64,
  sync_threads: Arc<(Mutex<usize>, Condvar)>,
  sync_loader: bool,
}

impl Shared {
  /// Loader body: value and cost are a function of (key, invocation index of that key).
  fn load(&self, key: &PKey) -> (Val, u64) {
    fibre_cache::verif::install(Some(self.clock.clone()));
    let owner = self.owner.lock().unwrap().clone();
    set_role(owner.clone());
    if self.sync_loader {
      *self.sync_threads.0.lock().unwrap() += 1;
      EXIT.with(|e| *e.borrow_mut() = Some(ExitSignal(self.sync_threads.clone())));
    }
    let idx = {
      let mut g = self.loads.log.lock().unwrap();
      let idx = g.iter().filter(|(k, _)| *k == key.0).count() as u32 + 1;
      g.push((key.0, idx));
      idx
    };
    if let Some(o) = owner {
      o.event(EvKind::Loader);
    }
    (Val { key: key.0, wid: LOAD_BASE + key.0 as u64 * 1000 + idx as u64, n: 0 }, self.load_cost)
  }
}

/// Clears the actor role of an executor thread once a spawned loader task is over.
struct RoleSpawner(ExecSpawner);
impl TaskSpawner for RoleSpawner {
  fn spawn(&self, future: Pin<Box<dyn Future<Output = ()> + Send>>) {
    self.0.spawn(Box::pin(async move {
      future.await;
      set_role(None);
    }));
  }
}

struct World {
  cache: PCache,
  ac: PAsync,
  clock: Arc<AtomicU64>,
  pool: Arc<rayon::ThreadPool>,
  rec: Option<Arc<PRecorder>>,
  sh: Arc<Shared>,
  exec: Option<Arc<Exec>>,
  /// wid -> cost of every value an operation of the scenario may store
  costs: Mutex<BTreeMap<u64, u64>>,
  sentinel_wid: AtomicU64,
}

fn make_policy(kind: Kind) -> Box<dyn CachePolicy<PKey, Val>> {
  use fibre_cache::policy::*;
  match kind {
    Kind::Sieve => Box::new(sieve::SievePolicy::new()),
    Kind::Fifo => Box::new(fifo::Fifo::new()),
    Kind::Clock => Box::new(clock::ClockPolicy::new()),
    _ => Box::new(lru::LruPolicy::new()),
  }
}

impl World {
  fn build(cfg: &PCfg) -> World {
    let clock = case_clock();
    let pool = case_pool();
    let mut b: PBuilder = PBuilder::new().hasher(FixedState { collide: cfg.collide }).shards(cfg.shards);
    b = match cfg.capacity {
      Some(c) => b.capacity(c),
      None => b.unbounded(),
    };
    b = b.janitor_tick_interval(Duration::from_millis(50)).maintenance_chance(1 << 31).maintenance_on_introspection(false);
    if let Some(t) = cfg.ttl_ms {
      b = b.time_to_live(Duration::from_millis(t)).timer_tick_duration(Duration::from_millis(10)).timer_wheel_size(100);
    }
    if let Some(t) = cfg.swr_ms {
      b = b.stale_while_revalidate(Duration::from_millis(t));
    }
    if let Pol::Custom(kind) = cfg.pol {
      b = b.cache_policy_factory(move || make_policy(kind));
    }
    let rec = if cfg.listener {
      let r = Arc::new(PRecorder::default());
      b = b.eviction_listener(PListener(r.clone()));
      Some(r)
    } else {
      None
    };
    let sh = Arc::new(Shared { clock: clock.clone(), owner: Mutex::new(None), loads: LoadLog { log: Mutex::new(Vec::new()) }, load_cost: COSTS[cfg.load_cost as usize % 4], sync_threads: Arc::new((Mutex::new(0), Condvar::new())), sync_loader: cfg.loader == PLoader::Sync });
    let mut exec = None;
    match cfg.loader {
      PLoader::None => {}
      PLoader::Sync => {
        let s2 = sh.clone();
        b = b.loader(move |k: PKey| s2.load(&k));
      }
      PLoader::Async => {
        let ex = Exec::start_pool(clock.clone(), 2);
        let s2 = sh.clone();
        b = b.async_loader(move |k: PKey| {
          let s2 = s2.clone();
          async move { s2.load(&k) }
        });
        b = b.spawner(Arc::new(RoleSpawner(ExecSpawner(ex.clone()))));
        exec = Some(ex);
      }
    }
    let cache = b.build().expect("cache builds");
    let ac = cache.to_async();
    World { cache, ac, clock, pool, rec, sh, exec, costs: Mutex::new(BTreeMap::new()), sentinel_wid: AtomicU64::new(900_000_000) }
  }

  /// Waits until no loader task is running (sync loader: threads the cache spawned have exited;
  /// async loader: the executor behind the harness spawner is idle).  Bounded; false = inconclusive.
  fn settle(&self, d: Duration) -> bool {
    if let Some(ex) = &self.exec {
      if !ex.wait_idle(d) {
        return false;
      }
    }
    let cap = Instant::now() + d;
    let mut g = self.sh.sync_threads.0.lock().unwrap();
    while *g > 0 {
      let left = cap.saturating_duration_since(Instant::now());
      if left.is_zero() {
        return false;
      }
      g = self.sh.sync_threads.1.wait_timeout(g, left).unwrap().0;
    }
    true
  }

  fn settled_now(&self) -> bool {
    self.outstanding() == 0
  }

  /// Loader tasks that have been started and are not over yet.
  fn outstanding(&self) -> usize {
    self.exec.as_ref().map_or(0, |e| e.outstanding()) + *self.sh.sync_threads.0.lock().unwrap()
  }

  fn set_cost(&self, wid: u64, cost: u64) {
    self.costs.lock().unwrap().insert(wid, cost);
  }

  /// FIFO sentinel through the notification queue (see env.rs::flush_listener).
  fn flush_listener(&self) -> bool {
    let rec = match &self.rec {
      Some(r) => r,
      None => return true,
    };
    for _ in 0..20 {
      let wid = self.sentinel_wid.fetch_add(1, Ordering::SeqCst);
      let got = self.cache.entry(PKey(SENTINEL)).or_insert(Val { key: SENTINEL, wid, n: 0 }, 0);
      let removed = self.cache.remove(&PKey(SENTINEL));
      if got.wid != wid || removed.map(|v| v.wid) != Some(wid) {
        return false;
      }
      let mut g = rec.log.lock().unwrap();
      let deadline = Instant::now() + Duration::from_millis(200);
      loop {
        if g.iter().rev().any(|n| n.key == SENTINEL && n.val.wid == wid) {
          return true;
        }
        let left = deadline.saturating_duration_since(Instant::now());
        if left.is_zero() {
          break;
        }
        g = rec.cv.wait_timeout(g, left).unwrap().0;
      }
    }
    false
  }
}

// ---------------------------------------------------------------------------------------------
// operations
// ---------------------------------------------------------------------------------------------

#[derive(Clone, Debug, PartialEq, Eq)]
enum Comp {
  Done(Option<u64>),
  NotFound,
  Busy,
}

#[derive(Clone, Debug, PartialEq, Eq)]
enum Res {
  Unit,
  Opt(Option<Val>),
  Bool(bool),
  Comp(Comp),
  Removed(Vec<(u32, Val)>),
}

/// Executes one operation; `base` makes the values it writes unique and identical in every run of
/// the scenario.
fn exec_op(w: &World, op: &POp, base: u64) -> Res {
  let c = &w.cache;
  let ac = &w.ac;
  let cl = |v: Arc<Val>| (*v).clone();
  match op {
    POp::Insert { a, k, c: ci } => {
      let cost = COSTS[*ci as usize % 4];
      w.set_cost(base, cost);
      let v = Val { key: *k, wid: base, n: 0 };
      if *a {
        block_on(ac.insert(PKey(*k), v, cost))
      } else {
        c.insert(PKey(*k), v, cost)
      }
      Res::Unit
    }
    POp::InsertTtl { a, k, c: ci, ttl } => {
      let cost = COSTS[*ci as usize % 4];
      w.set_cost(base, cost);
      let v = Val { key: *k, wid: base, n: 0 };
      let d = Duration::from_millis(TTLS[*ttl as usize % 2]);
      if *a {
        block_on(ac.insert_with_ttl(PKey(*k), v, cost, d))
      } else {
        c.insert_with_ttl(PKey(*k), v, cost, d)
      }
      Res::Unit
    }
    POp::Remove { a, k } => Res::Opt(if *a { block_on(ac.remove(&PKey(*k))) } else { c.remove(&PKey(*k)) }.map(cl)),
    POp::Invalidate { a, k } => Res::Bool(if *a { block_on(ac.invalidate(&PKey(*k))) } else { c.invalidate(&PKey(*k)) }),
    POp::Clear { a } => {
      if *a {
        block_on(ac.clear())
      } else {
        c.clear()
      }
      Res::Unit
    }
    POp::Get { a, k } => {
      let f = |v: &Val| {
        hook(EvKind::Closure);
        v.clone()
      };
      Res::Opt(if *a { block_on(ac.get(&PKey(*k), f)) } else { c.get(&PKey(*k), f) })
    }
    POp::Peek { a, k } => Res::Opt(if *a { block_on(ac.peek(&PKey(*k))) } else { c.peek(&PKey(*k)) }.map(cl)),
    POp::Fetch { a, k } => Res::Opt(if *a { block_on(ac.fetch(&PKey(*k))) } else { c.fetch(&PKey(*k)) }.map(cl)),
    POp::EntryGet { a, k } => Res::Opt(if *a {
      // (the closure event is a dwell while the entry guard = shard write lock is held)
      match block_on(ac.entry(PKey(*k))) {
        fibre_cache::AsyncEntry::Occupied(o) => {
          hook(EvKind::Closure);
          Some(cl(o.get()))
        }
        fibre_cache::AsyncEntry::Vacant(_v) => {
          hook(EvKind::Closure);
          None
        }
      }
    } else {
      match c.entry(PKey(*k)) {
        fibre_cache::Entry::Occupied(o) => {
          hook(EvKind::Closure);
          Some(cl(o.get()))
        }
        fibre_cache::Entry::Vacant(_v) => {
          hook(EvKind::Closure);
          None
        }
      }
    }),
    POp::OrInsert { a, k, c: ci, with } => {
      let cost = COSTS[*ci as usize % 4];
      w.set_cost(base, cost);
      let v = Val { key: *k, wid: base, n: 0 };
      let f = move || {
        hook(EvKind::Closure);
        v
      };
      let r = if *a {
        let e = block_on(ac.entry(PKey(*k)));
        if *with {
          e.or_insert_with(f, cost)
        } else {
          e.or_insert(f(), cost)
        }
      } else {
        let e = c.entry(PKey(*k));
        if *with {
          e.or_insert_with(f, cost)
        } else {
          e.or_insert(f(), cost)
        }
      };
      Res::Opt(Some(cl(r)))
    }
    POp::Compute { a, k, form } => {
      let bump = |v: &mut Val| {
        hook(EvKind::Closure);
        v.n += 1;
        v.n
      };
      let cr = |r: ComputeResult<u64>| match r {
        ComputeResult::Ok(n) => Comp::Done(Some(n)),
        ComputeResult::Fail => Comp::Busy,
        ComputeResult::NotFound => Comp::NotFound,
      };
      let key = PKey(*k);
      Res::Comp(match (*a, form % 4) {
        (false, 0) => {
          if c.compute(&key, |v| {
            bump(v);
          }) {
            Comp::Done(None)
          } else {
            Comp::NotFound
          }
        }
        (false, 1) => match c.try_compute(&key, |v| {
          bump(v);
        }) {
          Some(true) => Comp::Done(None),
          Some(false) => Comp::Busy,
          None => Comp::NotFound,
        },
        (false, 2) => cr(c.compute_val(&key, |v| bump(v))),
        (false, _) => cr(c.try_compute_val(&key, |v| bump(v))),
        (true, 0) => {
          if block_on(ac.compute(&key, |v| {
            bump(v);
          })) {
            Comp::Done(None)
          } else {
            Comp::NotFound
          }
        }
        (true, 1) => match block_on(ac.try_compute(&key, |v| {
          bump(v);
        })) {
          Some(true) => Comp::Done(None),
          Some(false) => Comp::Busy,
          None => Comp::NotFound,
        },
        (true, 2) => cr(block_on(ac.compute_val(&key, |v| bump(v)))),
        (true, _) => cr(block_on(ac.try_compute_val(&key, |v| bump(v)))),
      })
    }
    POp::FetchWith { a, k } => Res::Opt(Some(cl(if *a { block_on(ac.fetch_with(&PKey(*k))) } else { c.fetch_with(&PKey(*k)) }))),
    POp::MultiInsert { a, items } => {
      let mut triples = Vec::new();
      for (i, (k, ci)) in items.iter().enumerate() {
        let cost = COSTS[*ci as usize % 4];
        let wid = base * 64 + i as u64 + 1;
        w.set_cost(wid, cost);
        triples.push((PKey(*k), Val { key: *k, wid, n: 0 }, cost));
      }
      if *a {
        block_on(ac.multi_insert(triples));
      } else {
        let c2 = c.clone();
        let role = ROLE.with(|r| r.borrow().clone());
        w.pool.install(move || {
          set_role(role);
          c2.multi_insert(triples);
          set_role(None);
        });
      }
      Res::Unit
    }
    POp::MultiRemove { a, keys } => {
      let ks: Vec<PKey> = keys.iter().map(|k| PKey(*k)).collect();
      let got = if *a {
        block_on(ac.multi_remove(ks))
      } else {
        let c2 = c.clone();
        let role = ROLE.with(|r| r.borrow().clone());
        w.pool.install(move || {
          set_role(role);
          let r = c2.multi_remove(ks);
          set_role(None);
          r
        })
      };
      let mut v: Vec<(u32, Val)> = got.into_iter().map(|(k, v)| (k.0, (*v).clone())).collect();
      v.sort_by_key(|(k, v)| (*k, v.wid));
      Res::Removed(v)
    }
    POp::Maint { a } => {
      if *a {
        block_on(ac.run_maintenance())
      } else {
        c.run_maintenance()
      }
      Res::Unit
    }
  }
}

// ---------------------------------------------------------------------------------------------
// one run of a scenario under a plan
// ---------------------------------------------------------------------------------------------

#[derive(Clone, Copy, Debug, Default)]
struct Plan {
  /// which operation starts first (false: A, true: B)
  b_first: bool,
  /// pause of the first / second operation: n-th event (0 = none) or first loader entry
  first_nth: u32,
  first_loader: bool,
  first_closure: bool,
  second_nth: u32,
  second_loader: bool,
  second_closure: bool,
  /// time (ns after the setup) at which each operation runs in a sequential reference of a
  /// clock-step scenario; None = wherever the clock stands
  t_a: Option<u64>,
  t_b: Option<u64>,
  /// perform the scenario's clock step while the first operation is suspended
  live_step: bool,
  /// reference executions: the second operation gets 2 s instead of the short pause time
  long_pause: bool,
}

#[derive(Clone, Debug, PartialEq, Eq)]
struct Outcome {
  ra: Res,
  rb: Res,
  suffix: Vec<Res>,
  map: BTreeMap<u32, Val>,
  extra_keys: Vec<u32>,
  loads: BTreeMap<u32, u32>,
  cost: u64,
  notifs: Vec<(u32, u64, u64, Reason)>,
  cost_after_purge: u64,
  left_after_purge: usize,
}

#[derive(Default, Clone, Debug)]
struct RunInfo {
  len_first: u32,
  len_second: u32,
  first_loader_events: u32,
  first_closure_events: u32,
  first_reached: bool,
  first_paused_at: Option<EvKind>,
  second_done_in_pause: bool,
  second_blocked: bool,
  second_paused: bool,
  first_done_in_second_pause: bool,
  first_blocked_in_second_pause: bool,
  /// the second operation had finished when the clock was stepped
  second_done_before_step: bool,
  busy: bool,
  resident_cost_known: Option<u64>,
  postlude: Option<String>,
  /// bounded caches: (cost of the visible residents after the maintenance fixpoint, passes)
  bounded_resident: Option<(u64, u64)>,
}

enum RunErr {
  Inconclusive(String),
  Panic(String),
}

const BASE_A: u64 = 1;
const BASE_B: u64 = 2;

fn pause_ms() -> u64 {
  // development aid: VERIF_PAIR_PAUSE_MS (never set by vf)
  std::env::var("VERIF_PAIR_PAUSE_MS").ok().and_then(|s| s.parse().ok()).unwrap_or(30)
}

fn run(sc: &Scenario, plan: Plan) -> Result<(Outcome, RunInfo), RunErr> {
  let w = Arc::new(World::build(&sc.cfg));
  let r = std::panic::catch_unwind(std::panic::AssertUnwindSafe(|| run_in(&w, sc, plan)));
  match r {
    Ok(Ok(x)) => {
      if let Some(ex) = &w.exec {
        ex.stop();
      }
      Ok(x)
    }
    Ok(Err(e)) => {
      // threads may still hold the world: leak it
      if let Some(ex) = &w.exec {
        if w.settled_now() {
          ex.stop();
        }
      }
      std::mem::forget(w);
      Err(e)
    }
    Err(p) => {
      std::mem::forget(w);
      Err(RunErr::Panic(crate::panic_msg(&p)))
    }
  }
}

/// Waits until the actor is suspended at its pause point, or its operation has returned and no loader
/// task is running any more; false when `d` elapsed first.
fn wait_paused_or_finished(w: &World, act: &Actor, d: Duration, baseline: usize) -> bool {
  let cap = Instant::now() + d;
  loop {
    // (short condvar wait: wakes at once when the actor pauses or its thread finishes)
    act.wait_reached_or_done(Duration::from_micros(300));
    if act.is_reached() {
      return true;
    }
    // (`baseline`: loader tasks that were already running — suspended — when this operation started)
    if act.is_done() && w.outstanding() <= baseline {
      // a task may have reached the pause point just before it was seen settled
      return true;
    }
    if Instant::now() >= cap {
      return false;
    }
    if act.is_done() {
      std::thread::sleep(Duration::from_micros(200));
    }
  }
}

fn run_in(w: &Arc<World>, sc: &Scenario, plan: Plan) -> Result<(Outcome, RunInfo), RunErr> {
  let mut info = RunInfo::default();
  let mut now = T0;
  let long = Duration::from_secs(20);
  // ---- setup (sequential, no actor) ----
  for (i, s) in sc.setup.iter().enumerate() {
    match s {
      SOp::Op(op) => {
        if let Res::Comp(Comp::Busy) = exec_op(w, op, 100 + i as u64) {
          info.busy = true;
        }
        if !w.settle(long) {
          return Err(RunErr::Inconclusive("setup: loader task still running".into()));
        }
      }
      SOp::Advance(ms) => {
        now += *ms as u64 * MS;
        w.clock.store(now, Ordering::SeqCst);
      }
    }
  }
  let t0 = now;
  let t1 = now + sc.step_ms.map_or(0, |m| m as u64 * MS);
  let (op1, op2, base1, base2) = if plan.b_first { (&sc.b, &sc.a, BASE_B, BASE_A) } else { (&sc.a, &sc.b, BASE_A, BASE_B) };
  let (time1, time2) = if plan.b_first { (plan.t_b, plan.t_a) } else { (plan.t_a, plan.t_b) };
  let act1 = Actor::new(plan.first_nth, plan.first_loader, plan.first_closure);
  let act2 = Actor::new(plan.second_nth, plan.second_loader, plan.second_closure);
  let (r1, r2): (Res, Res);
  let threaded = plan.first_nth != 0 || plan.first_loader || plan.first_closure || plan.second_nth != 0 || plan.second_loader || plan.second_closure;
  if !threaded {
    // ---- sequential reference ----
    if let Some(t) = time1 {
      w.clock.store(t, Ordering::SeqCst);
    }
    *w.sh.owner.lock().unwrap() = Some(act1.clone());
    set_role(Some(act1.clone()));
    r1 = exec_op(w, op1, base1);
    set_role(None);
    if !w.settle(long) {
      return Err(RunErr::Inconclusive("loader task still running".into()));
    }
    if let Some(t) = time2 {
      w.clock.store(t, Ordering::SeqCst);
    }
    *w.sh.owner.lock().unwrap() = Some(act2.clone());
    set_role(Some(act2.clone()));
    r2 = exec_op(w, op2, base2);
    set_role(None);
    if !w.settle(long) {
      return Err(RunErr::Inconclusive("loader task still running".into()));
    }
  } else {
    // ---- two threads, forced interleaving ----
    let t_pause = if plan.long_pause { Duration::from_secs(2) } else { Duration::from_millis(pause_ms()) };
    let spawn_actor = |act: Arc<Actor>, op: POp, base: u64| {
      let w2 = w.clone();
      std::thread::spawn(move || {
        fibre_cache::verif::install(Some(w2.clock.clone()));
        set_role(Some(act.clone()));
        let r = std::panic::catch_unwind(std::panic::AssertUnwindSafe(|| exec_op(&w2, &op, base)));
        set_role(None);
        act.mark_done();
        r
      })
    };
    *w.sh.owner.lock().unwrap() = Some(act1.clone());
    let h1 = spawn_actor(act1.clone(), op1.clone(), base1);
    // until the operation is suspended, or has returned and nothing it started (a background refresh,
    // whose loader entry may be the planned pause point) is still running
    if !wait_paused_or_finished(w, &act1, long, 0) {
      act1.release();
      return Err(RunErr::Inconclusive("first operation neither finished nor reached its pause point in 20 s".into()));
    }
    info.first_reached = act1.is_reached();
    info.first_paused_at = act1.paused_at();
    *w.sh.owner.lock().unwrap() = Some(act2.clone());
    let baseline2 = w.outstanding();
    let h2 = spawn_actor(act2.clone(), op2.clone(), base2);
    // B runs while A is suspended: until it is done, suspended itself, or (blocked on something A
    // holds) for the bounded pause time
    let got = wait_paused_or_finished(w, &act2, t_pause, baseline2);
    if info.first_reached {
      if got && !act2.is_reached() {
        info.second_done_in_pause = true;
      } else if got {
        info.second_paused = true;
      } else {
        info.second_blocked = true;
      }
    }
    if plan.live_step && sc.step_ms.is_some() {
      info.second_done_before_step = act2.is_done();
      w.clock.store(t1, Ordering::SeqCst);
    }
    act1.release();
    if act2.is_reached() {
      // A completes inside B's pause (or is blocked on something B holds: bounded)
      let cap = Instant::now() + t_pause;
      let mut ok = false;
      while Instant::now() < cap {
        // (a task of B that is itself the suspended one stays outstanding)
        let own = if act2.paused_at() == Some(EvKind::Loader) { 1 } else { 0 };
        if act1.is_done() && w.outstanding() <= own {
          ok = true;
          break;
        }
        std::thread::sleep(Duration::from_micros(200));
      }
      if ok {
        info.first_done_in_second_pause = true;
      } else {
        info.first_blocked_in_second_pause = true;
      }
    }
    act2.release();
    let ok1 = act1.wait_done(long);
    let ok2 = act2.wait_done(long);
    if !ok1 || !ok2 {
      return Err(RunErr::Inconclusive(format!("operations did not return within 20 s after every pause was released (first done: {ok1}, second done: {ok2})")));
    }
    let j1 = h1.join();
    let j2 = h2.join();
    match (j1, j2) {
      (Ok(Ok(a)), Ok(Ok(b))) => {
        r1 = a;
        r2 = b;
      }
      (Ok(Err(p)), _) | (_, Ok(Err(p))) => return Err(RunErr::Panic(crate::panic_msg(&p))),
      _ => return Err(RunErr::Panic("operation thread died".into())),
    }
    if !w.settle(long) {
      return Err(RunErr::Inconclusive("loader task still running".into()));
    }
  }
  info.len_first = act1.count.load(Ordering::SeqCst);
  info.len_second = act2.count.load(Ordering::SeqCst);
  info.first_loader_events = act1.loader_events.load(Ordering::SeqCst);
  info.first_closure_events = act1.closure_events.load(Ordering::SeqCst);
  *w.sh.owner.lock().unwrap() = None;
  w.clock.store(t1.max(t0), Ordering::SeqCst);
  let (ra, rb) = if plan.b_first { (r2, r1) } else { (r1, r2) };
  // ---- suffix (sequential) ----
  let mut suffix = Vec::new();
  for (i, op) in sc.suffix.iter().enumerate() {
    suffix.push(exec_op(w, op, 200 + i as u64));
    if !w.settle(long) {
      return Err(RunErr::Inconclusive("suffix: loader task still running".into()));
    }
  }
  // (after the settle nothing but the cache holds a value: a "busy" in the suffix is an ordinary result)
  if [&ra, &rb].iter().any(|r| matches!(r, Res::Comp(Comp::Busy))) {
    info.busy = true;
  }
  // ---- bounded caches: maintenance to a fixpoint (C13 "after maintenance has run at quiescence") ----
  if sc.cfg.capacity.is_some() {
    let key = |c: &PCache| {
      let m = c.metrics();
      (m.current_cost, m.evicted_by_capacity, m.evicted_by_ttl, m.evicted_by_tti, m.invalidations)
    };
    let mut last = key(&w.cache);
    let (mut stable, mut passes) = (0u64, 0u64);
    // 40 consecutive passes without any change (a pass drains at most 16 buffered write events)
    while stable < 40 {
      if passes > 5000 {
        return Err(RunErr::Inconclusive("maintenance did not reach a fixpoint".into()));
      }
      w.cache.run_maintenance();
      passes += 1;
      let now = key(&w.cache);
      if now == last {
        stable += 1;
      } else {
        stable = 0;
        last = now;
      }
    }
    info.bounded_resident = Some((0, passes));
  }
  // ---- observation ----
  if !w.flush_listener() {
    return Err(RunErr::Inconclusive("listener sentinel did not arrive".into()));
  }
  let mut map = BTreeMap::new();
  for k in 0..NK {
    if let Some(v) = w.cache.peek(&PKey(k)) {
      map.insert(k, (*v).clone());
    }
  }
  let all: Vec<u32> = w.cache.iter().map(|(k, _)| k.0).collect();
  let extra_keys: Vec<u32> = all.iter().copied().filter(|k| *k >= NK && *k != SENTINEL).collect();
  let cost = w.cache.metrics().current_cost;
  let mut notifs: Vec<(u32, u64, u64, Reason)> = match &w.rec {
    Some(r) => r.log.lock().unwrap().iter().filter(|n| n.key != SENTINEL).map(|n| (n.key, n.val.wid, n.val.n, n.reason)).collect(),
    None => vec![],
  };
  notifs.sort();
  let mut loads: BTreeMap<u32, u32> = BTreeMap::new();
  for (k, _) in w.sh.loads.log.lock().unwrap().iter() {
    *loads.entry(*k).or_default() += 1;
  }
  let has_item_ttl = |op: &POp| matches!(op, POp::InsertTtl { .. });
  let timed = sc.cfg.ttl_ms.is_some() || has_item_ttl(&sc.a) || has_item_ttl(&sc.b) || sc.suffix.iter().any(has_item_ttl) || sc.setup.iter().any(|s| matches!(s, SOp::Op(o) if has_item_ttl(o)));
  if !timed {
    // (no entry can be expired-but-uncollected: what peek shows is what is resident)
    let costs = w.costs.lock().unwrap();
    let mut sum = 0u64;
    let mut known = true;
    for v in map.values() {
      match costs.get(&v.wid) {
        Some(c) => sum += c,
        None if v.wid >= LOAD_BASE => sum += w.sh.load_cost,
        None => known = false,
      }
    }
    if known {
      info.resident_cost_known = Some(sum);
      if let Some((_, passes)) = info.bounded_resident {
        info.bounded_resident = Some((sum, passes));
      }
    }
  }
  // purge: remove every key through the public API, then nothing is resident
  for k in 0..NK {
    w.cache.remove(&PKey(k));
  }
  for k in &extra_keys {
    w.cache.remove(&PKey(*k));
  }
  let cost_after_purge = w.cache.metrics().current_cost;
  let left_after_purge = w.cache.iter().filter(|(k, _)| k.0 != SENTINEL).count();
  // postlude: every key is gone now; a fetch_with must run the loader exactly once more and return that load
  if sc.cfg.loader != PLoader::None && sc.cfg.capacity.is_none() {
    for k in 0..NK {
      let before = loads.get(&k).copied().unwrap_or(0);
      let got = (*w.cache.fetch_with(&PKey(k))).clone();
      if !w.settle(long) {
        return Err(RunErr::Inconclusive("postlude: loader task still running".into()));
      }
      let after = w.sh.loads.log.lock().unwrap().iter().filter(|(x, _)| *x == k).count() as u32;
      let expect = Val { key: k, wid: LOAD_BASE + k as u64 * 1000 + before as u64 + 1, n: 0 };
      if after != before + 1 || got != expect {
        info.postlude = Some(format!("after every key was removed, fetch_with({k}) returned {got:?} and the loader ran {} time(s) for it; expected one new load returning {expect:?} ({before} loads of that key before)", after - before));
        break;
      }
    }
  }
  Ok((Outcome { ra, rb, suffix, map, extra_keys, loads, cost, notifs, cost_after_purge, left_after_purge }, info))
}

// ---------------------------------------------------------------------------------------------
// the oracle
// ---------------------------------------------------------------------------------------------

fn diff(c: &Outcome, r: &Outcome) -> Vec<&'static str> {
  let mut d = Vec::new();
  if c.ra != r.ra {
    d.push("result_a");
  }
  if c.rb != r.rb {
    d.push("result_b");
  }
  if c.suffix != r.suffix {
    d.push("suffix_result");
  }
  if c.map != r.map || c.extra_keys != r.extra_keys {
    d.push("final_map");
  }
  if c.loads != r.loads {
    d.push("loader_invocations");
  }
  if c.cost != r.cost || c.cost_after_purge != r.cost_after_purge {
    d.push("current_cost");
  }
  if c.notifs != r.notifs {
    d.push("notifications");
  }
  d
}

fn got_wid(r: &Res) -> Option<u64> {
  match r {
    Res::Opt(Some(v)) => Some(v.wid),
    _ => None,
  }
}

fn is_fetch_with(op: &POp) -> bool {
  matches!(op, POp::FetchWith { .. })
}

pub fn execute(sc: &Scenario) -> Result<CaseReport, Failure> {
  // Absolute clauses that belong to another property than the one under check do not end the case: the
  // differential comparison may still find a violated sentence of the property under check (one defect
  // often shows in several observations); they are reported if nothing else is.
  let mut other: Vec<Failure> = Vec::new();
  match execute_inner(sc, &mut other) {
    Err(f) => Err(f),
    Ok(rep) => match other.into_iter().next() {
      Some(f) => Err(f),
      None => Ok(rep),
    },
  }
}

fn execute_inner(sc: &Scenario, other: &mut Vec<Failure>) -> Result<CaseReport, Failure> {
  let prop = crate::current_property();
  let mut rep = CaseReport::new();
  // (evaluations = executions of the scenario: references and the forced interleaving)
  let mut runs = 0u64;
  let sig_ops = format!("{}+{}", sc.a.name(), sc.b.name());
  let fail = |p: &str, clause: &str, msg: String| Failure::new(p, format!("E4p/cache/{sig_ops}/{clause}"), msg);
  macro_rules! run_or {
    ($plan:expr) => {
      match run(sc, $plan) {
        Ok(x) => {
          runs += 1;
          rep.executions = runs;
          x
        }
        Err(RunErr::Inconclusive(_)) => {
          rep.inconclusive += 1;
          return Ok(rep);
        }
        Err(RunErr::Panic(m)) => return Err(fail(&prop, &format!("panic/{}", crate::panic_site(&m)), format!("a cache operation panicked: {m}"))),
      }
    };
  }
  let stepping = sc.step_ms.is_some();
  rep.class(if stepping { "pair:clock_step" } else { "pair:no_clock_step" });
  rep.class(format!("pair:shards:{}", sc.cfg.shards));
  // ---- sequential references (they also measure the event traces the pause plans index) ----
  let (ref_ab, info_ab) = run_or!(Plan { b_first: false, ..Plan::default() });
  // (B;A is only executed when it is needed: to index B's pause plan, or when A;B does not match)
  let mut ref_ba: Option<(Outcome, RunInfo)> = None;
  if matches!(sc.pb, Some(PausePt::Nth(_))) {
    ref_ba = Some(run_or!(Plan { b_first: true, ..Plan::default() }));
  }
  let len_a = info_ab.len_first;
  let len_b = ref_ba.as_ref().map_or(0, |r| r.1.len_first);
  let nth_a = match sc.pa {
    Some(PausePt::Nth(i)) if len_a > 0 => 1 + vcore::idx(i, len_a as usize) as u32,
    // the operation enters no closure / no loader on this state: suspend it in the middle of its events
    Some(PausePt::Closure) if len_a > 0 && info_ab.first_closure_events == 0 => 1 + len_a / 2,
    Some(PausePt::Loader) if len_a > 0 && info_ab.first_loader_events == 0 => 1 + len_a / 2,
    _ => 0,
  };
  let nth_b = match sc.pb {
    Some(PausePt::Nth(i)) if len_b > 0 => 1 + vcore::idx(i, len_b as usize) as u32,
    _ => 0,
  };
  let (a_loader, a_closure) = (sc.pa == Some(PausePt::Loader) && info_ab.first_loader_events > 0, sc.pa == Some(PausePt::Closure) && info_ab.first_closure_events > 0);
  let (b_loader, b_closure) = (sc.pb == Some(PausePt::Loader), sc.pb == Some(PausePt::Closure));
  if info_ab.busy || ref_ba.as_ref().map_or(false, |r| r.1.busy) {
    rep.class("pair:busy_in_reference");
    return Ok(rep);
  }
  if nth_a == 0 && !a_loader && !a_closure {
    rep.class("pair:no_pause_point");
    return Ok(rep);
  }
  // ---- the forced interleaving ----
  let (conc, info) = run_or!(Plan { b_first: false, first_nth: nth_a, first_loader: a_loader, first_closure: a_closure, second_nth: nth_b, second_loader: b_loader, second_closure: b_closure, live_step: true, ..Plan::default() });
  if info.busy {
    // documented outcome of the try_ forms while another Arc of the value is alive: no effect,
    // nothing to compare against
    rep.class("pair:busy");
    return Ok(rep);
  }
  if info.first_reached {
    rep.class(format!("pair:paused_at:{:?}", info.first_paused_at.unwrap_or(EvKind::Hash)));
    if info.second_done_in_pause {
      rep.class("pair:B_ran_entirely_inside_As_pause");
    }
    if info.second_blocked {
      rep.class("pair:B_blocked_As_pause_timed_out");
    }
    if info.second_paused {
      rep.class("pair:B_paused_inside_As_pause");
      if info.first_done_in_second_pause {
        rep.class("pair:A_completed_inside_Bs_pause");
      }
      if info.first_blocked_in_second_pause {
        rep.class("pair:A_blocked_Bs_pause_timed_out");
      }
    }
    // NT: the interleaving was really forced: A was suspended at its planned event and B was under way
    // (completed, suspended or blocked) while A was suspended
    rep.nontrivial = true;
  } else {
    rep.class("pair:A_finished_before_its_pause_point");
  }
  let same_key = match (sc.a.keys(), sc.b.keys()) {
    (Some(x), Some(y)) => x.iter().any(|k| y.contains(k)),
    _ => true,
  };
  if same_key {
    rep.class("pair:same_key");
  }

  // ---- absolute clauses (C13) ----
  // C13: "Once operations have quiesced, the reported current_cost equals the sum of the costs of the
  // entries that are actually resident": every key was removed through the public API, nothing is
  // resident
  macro_rules! absolute {
    ($f:expr) => {{
      let f: Failure = $f;
      if f.property == prop {
        return Err(f);
      }
      other.push(f);
    }};
  }
  if conc.left_after_purge == 0 && conc.cost_after_purge != 0 {
    absolute!(fail("C13", "current_cost_nonzero_with_nothing_resident", format!("after both operations returned and every key was removed the cache is empty but metrics().current_cost = {} ({})", conc.cost_after_purge, conc.cost_after_purge as i64)));
  } else if let Some(sum) = info.resident_cost_known {
    if conc.cost != sum {
      absolute!(fail("C13", "current_cost_differs_from_resident_cost", format!("after both operations returned: metrics().current_cost = {} ({}), the resident entries {:?} cost {sum}", conc.cost, conc.cost as i64, conc.map)));
    }
  }

  if let Some(cap) = sc.cfg.capacity {
    rep.class("pair:bounded");
    // C13: "After maintenance has run at quiescence, the total cost of resident entries is at most the
    // configured capacity"
    if let Some((sum, passes)) = info.bounded_resident {
      if info.resident_cost_known.is_some() && sum > cap {
        absolute!(fail("C13", &format!("over_capacity/{}", sc.cfg.pol.name()), format!("after both operations returned and {passes} maintenance passes (fixpoint) the resident entries {:?} cost {sum} > capacity {cap}", conc.map)));
      }
    }
    // a bounded cache may forget at any time: nothing else is compared
    return Ok(rep);
  }
  // C15: "A later miss after invalidation or expiry triggers exactly one new load"; C11: "a read ... a
  // fetch_with hit ... never returns ... a removed value (no resurrection)"
  if let Some(msg) = &info.postlude {
    let p = if prop == "C11" { "C11" } else { "C15" };
    absolute!(fail(p, "fetch_with_after_removal_did_not_load_once", msg.clone()));
  }

  // ---- references ----
  let mut refs: Vec<(String, Outcome)> = Vec::new();
  let mut ba_loader_events = 0;
  if !stepping {
    let ab_matches = diff(&conc, &ref_ab).is_empty();
    refs.push(("A;B".into(), ref_ab));
    if ab_matches {
      return Ok(rep);
    }
    let (o, i) = match ref_ba {
      Some(x) => x,
      None => run_or!(Plan { b_first: true, ..Plan::default() }),
    };
    ba_loader_events = i.first_loader_events;
    if !i.busy {
      refs.push(("B;A".into(), o));
    }
  } else {
    // clock-step scenarios: A and B commute (different keys, no operation spanning keys), so each result
    // depends only on the time at which that operation read the map: before (t0) or after (t1) the step.
    // Only the two results are compared (an entry written by an operation that straddles the step may
    // legitimately carry either time).  B finished before the step => B read at t0.  B not finished at
    // the step while A was suspended inside a closure under the shard's write lock (one shard) => B
    // cannot have read the map before A was resumed, which happened after the step => B read at t1.
    let t0 = T0 + sc.setup.iter().map(|s| if let SOp::Advance(ms) = s { *ms as u64 * MS } else { 0 }).sum::<u64>();
    let t1 = t0 + sc.step_ms.unwrap() as u64 * MS;
    let b_locked_out = info.first_reached && info.first_paused_at == Some(EvKind::Closure) && sc.a.closure_under_write_lock() && sc.cfg.shards == 1 && !info.second_done_before_step;
    let b_times: Vec<u64> = if !info.first_reached {
      vec![t0, t1]
    } else if info.second_done_before_step {
      vec![t0]
    } else if b_locked_out {
      rep.class("pair:clock_step_while_B_locked_out");
      vec![t1]
    } else {
      vec![t0, t1]
    };
    // (the calibration run A;B executed both operations at t0)
    let (late, li) = run_or!(Plan { b_first: false, t_a: Some(t1), t_b: Some(t1), ..Plan::default() });
    if li.busy {
      return Ok(rep);
    }
    let ra_ok = conc.ra == ref_ab.ra || conc.ra == late.ra;
    let rb_ok = b_times.iter().any(|t| conc.rb == if *t == t0 { ref_ab.rb.clone() } else { late.rb.clone() });
    if crate::trace_on() {
      eprintln!("step scenario: conc A={:?} B={:?}; at t0 A={:?} B={:?}; at t1 A={:?} B={:?}; b_times={:?} info={:?}", conc.ra, conc.rb, ref_ab.ra, ref_ab.rb, late.ra, late.rb, b_times, info);
    }
    if ra_ok && rb_ok {
      return Ok(rep);
    }
    // C12: "No read API returns an entry at or after its expiry instant ... with stale-while-revalidate a
    // stale value is served by fetch_with only inside the grace window"
    let (mut clause, which, got) = if !rb_ok { ("result_b_at_no_admissible_time", "B", &conc.rb) } else { ("result_a_at_no_admissible_time", "A", &conc.ra) };
    let mut p = "C12";
    // a fetch_with that returned a fresh load although at every admissible time the key was resident and
    // served without one — C15: "the loader runs exactly once per miss" (there was no miss); nothing
    // expired was served
    let op = if !rb_ok { &sc.b } else { &sc.a };
    let seq = |o: &Outcome| if !rb_ok { o.rb.clone() } else { o.ra.clone() };
    if is_fetch_with(op) && got_wid(got).map_or(false, |w| w >= LOAD_BASE) && *got != seq(&ref_ab) && *got != seq(&late) {
      p = "C15";
      clause = "load_at_no_admissible_time";
    }
    return Err(fail(
      p,
      clause,
      format!(
        "{} || {}: the clock was stepped by {} ms while A was suspended ({:?}){}; {which} returned {got:?}; at the time before the step the sequential result is A={:?} B={:?}, after the step A={:?} B={:?}; admissible times for B: {:?} ms after the setup",
        sc.a.name(),
        sc.b.name(),
        sc.step_ms.unwrap(),
        info.first_paused_at,
        if b_locked_out { " inside a closure under the shard's write lock, B had not returned when the clock was stepped" } else { "" },
        ref_ab.ra,
        ref_ab.rb,
        late.ra,
        late.rb,
        b_times.iter().map(|t| (t - t0) / MS).collect::<Vec<_>>()
      ),
    ));
  }
  let matches = |refs: &[(String, Outcome)]| refs.iter().any(|(_, r)| diff(&conc, r).is_empty());
  if matches(&refs) {
    return Ok(rep);
  }
  // fetch_with is not one atomic step ("miss; load; store"): the references with the loader of that
  // operation held while the other operation runs completely
  if !stepping {
    // (the other operation gets plenty of time — it is not blocked by a held loader unless it is a
    // fetch_with of the same key, which simply joins that load: nothing new to learn there)
    let joins = is_fetch_with(&sc.a) && is_fetch_with(&sc.b) && sc.a.keys() == sc.b.keys() && sc.cfg.swr_ms.is_none();
    if is_fetch_with(&sc.a) && info_ab.first_loader_events > 0 && !joins {
      let (o, i) = run_or!(Plan { b_first: false, first_loader: true, long_pause: true, ..Plan::default() });
      if !i.busy {
        refs.push(("A(miss);B;A(store)".into(), o));
      }
    }
    if is_fetch_with(&sc.b) && ba_loader_events > 0 && !joins {
      let (o, i) = run_or!(Plan { b_first: true, first_loader: true, long_pause: true, ..Plan::default() });
      if !i.busy {
        refs.push(("B(miss);A;B(store)".into(), o));
      }
    }
    if matches(&refs) {
      rep.class("pair:matched_split_fetch_with_reference");
      return Ok(rep);
    }
  }
  // ---- report: the closest reference, the clause of the first differing observation ----
  if refs.is_empty() {
    return Ok(rep);
  }
  if crate::trace_on() {
    eprintln!("concurrent: {conc:?}\ninfo: {info:?}");
    for (n, r) in &refs {
      eprintln!("reference {n}: {r:?}");
    }
  }
  let (name, best, d) = refs.iter().map(|(n, r)| (n, r, diff(&conc, r))).min_by_key(|(_, _, d)| d.len()).unwrap();
  let prop_of = |clause: &str| -> &'static str {
    match clause {
      // C15: "the loader runs exactly once per miss ... A later miss after invalidation or expiry triggers exactly one new load"
      "loader_invocations" => "C15",
      // C13: "the reported current_cost equals the sum of the costs of the entries that are actually resident"
      "current_cost" => "C13",
      // C16: "Every notification ... corresponds to one actual removal ... every removal caused by remove/invalidate ... is notified"
      "notifications" => "C16",
      // C12: "No read API returns an entry at or after its expiry instant ... a stale value is served by fetch_with only inside the grace window"
      _ if stepping => "C12",
      // C11: "compute/try_compute and the entry API are atomic per key: concurrent read-modify-writes are
      // never lost and or_insert inserts at most once"; "a read ... returns either nothing or the value of
      // the most recent insert or load of that key that has not been followed by a completed remove"
      _ => "C11",
    }
  };
  // every differing observation is a violated sentence of its property; report the one of the
  // property under check if there is one
  let mut clause = d[0];
  if let Some(c) = d.iter().find(|c| prop_of(c) == prop.as_str()) {
    clause = c;
  }
  // a fetch_with that returned another value while the loader count differs: C15 "every caller returns that one loaded value"
  let mut p = prop_of(clause);
  if prop == "C15" && d.contains(&"loader_invocations") {
    p = "C15";
    clause = "loader_invocations";
  }
  // C12: "with stale-while-revalidate a stale value is served by fetch_with only inside the grace window
  // and triggers a refresh whose result then replaces it": fewer loader runs than the reference
  let total = |o: &Outcome| o.loads.values().sum::<u32>();
  if sc.cfg.swr_ms.is_some() && d.contains(&"loader_invocations") && total(&conc) < total(best) && (prop == "C12" || p != prop.as_str()) {
    p = "C12";
    clause = "stale_served_without_refresh";
  }
  let plan_txt = format!("A suspended at {:?} (event #{nth_a} of {len_a}), reached: {:?}{}{}", sc.pa, info.first_paused_at, if sc.pb.is_some() { format!(", B planned to suspend at {:?} (event #{nth_b})", sc.pb) } else { String::new() }, if info.second_blocked { ", B was blocked until A resumed" } else if info.second_done_in_pause { ", B ran entirely inside A's pause" } else { "" });
  Err(fail(
    p,
    clause,
    format!(
      "{} || {} [{plan_txt}]: outcome matches no reference execution ({}); differs from the closest ({name}) in {:?}. concurrent: A={:?} B={:?} suffix={:?} map={:?} loads={:?} cost={} notifs={:?} | reference {name}: A={:?} B={:?} suffix={:?} map={:?} loads={:?} cost={} notifs={:?}",
      sc.a.name(),
      sc.b.name(),
      refs.iter().map(|(n, _)| n.as_str()).collect::<Vec<_>>().join(", "),
      d,
      conc.ra,
      conc.rb,
      conc.suffix,
      conc.map,
      conc.loads,
      conc.cost as i64,
      conc.notifs,
      best.ra,
      best.rb,
      best.suffix,
      best.map,
      best.loads,
      best.cost as i64,
      best.notifs
    ),
  ))
}

pub fn check(check: &mut Check) {
  let ctx = check.ctx.clone();
  let focus = Focus::of(&ctx.property);
  let n = match focus {
    Focus::C11 => ctx.tier.pick(6_000u64, 300_000u64),
    Focus::C15 => ctx.tier.pick(3_000u64, 300_000u64),
    _ => ctx.tier.pick(3_500u64, 300_000u64),
  };
  let n = std::env::var("VERIF_PAIR_CASES").ok().and_then(|s| s.parse().ok()).unwrap_or(n); // development aid
  // Shrinking budget: a failing pair costs a few pause timeouts per execution and proptest may try
  // thousands of simplifications; 25 s after the first failure only scenarios already known to fail are
  // still executed (the final re-execution of the minimal scenario among them), every other candidate
  // is answered "passes" at once, which ends the shrinking.
  let first_fail: Arc<Mutex<Option<Instant>>> = Arc::new(Mutex::new(None));
  let failing: Arc<Mutex<std::collections::BTreeSet<u64>>> = Arc::new(Mutex::new(Default::default()));
  let survey = std::env::var("VERIF_SURVEY").is_ok();
  let out = vcore::drive(&ctx, &check.findings, 6, n, move || scenario_strategy(focus), move |s| {
    let h = vcore::hash_str(&serde_json::to_string(s).unwrap_or_default());
    if !survey {
      if let Some(t) = *first_fail.lock().unwrap() {
        if t.elapsed() > Duration::from_secs(25) && !failing.lock().unwrap().contains(&h) {
          return Ok(CaseReport::new());
        }
      }
    }
    let t_case = Instant::now();
    let mut r = execute(s);
    // a scenario that failed before is re-executed by vcore (shrinking, final confirmation): the forced
    // interleaving still depends on B getting scheduled inside A's pause, so a passing re-run is repeated
    if r.is_ok() && failing.lock().unwrap().contains(&h) {
      for _ in 0..20 {
        r = execute(s);
        if r.is_err() {
          break;
        }
      }
    }
    // development aid (never set by vf): report slow cases
    if std::env::var("VERIF_PAIR_TIMING").is_ok() && t_case.elapsed() > Duration::from_millis(300) {
      eprintln!("slow case {:?}: {} + {} pa={:?} pb={:?} cfg={:?} classes={:?}", t_case.elapsed(), s.a.name(), s.b.name(), s.pa, s.pb, s.cfg, r.as_ref().map(|r| r.classes.clone()).unwrap_or_default());
    }
    if let Err(f) = &r {
      if f.property == crate::current_property() {
        first_fail.lock().unwrap().get_or_insert_with(Instant::now);
        failing.lock().unwrap().insert(h);
      }
    }
    if let (Err(f), Ok(only)) = (&r, std::env::var("VERIF_ONLY_SIG")) {
      if !f.signature.contains(&only) {
        return Ok(CaseReport::new());
      }
    }
    r
  });
  check.absorb(crate::ENGINE_PAIR, out);
  check.require_class("pair:B_ran_entirely_inside_As_pause", ctx.tier.pick(200, 3000));
  check.require_class("pair:B_blocked_As_pause_timed_out", ctx.tier.pick(200, 3000));
  check.require_class("pair:B_paused_inside_As_pause", ctx.tier.pick(50, 1000));
  if focus == Focus::C12 {
    check.require_class("pair:clock_step_while_B_locked_out", ctx.tier.pick(50, 1000));
  }
  if focus == Focus::C13 {
    check.require_class("pair:bounded", ctx.tier.pick(200, 3000));
  }
}

pub fn assumptions() -> Vec<String> {
  vec![
    "E4p: unbounded caches, one or two shards, fixed hasher, no janitor action; the interleaving of two operations is forced by suspending a thread at the n-th evaluation of the key type's Hash/Eq/Clone or at the entry of a user closure (compute / get / or_insert_with closure, loader body); a suspended thread is always resumed after a bounded time (30 ms) because the other operation may legitimately be blocked on a lock it holds — the timeout is never a verdict".into(),
    "E4p oracle: the concurrent outcome must equal a reference execution of the same scenario on a fresh cache (A;B, B;A, and for a fetch_with that loads: its loader held while the other operation runs completely); bulk operations are confined to one shard and run_maintenance to single-pass configurations so that every racing operation other than fetch_with is one critical section; outcomes containing the documented try_compute 'busy' result are not compared".into(),
    "E4p clock steps: only for pairs on different keys; an operation that had not returned when the clock was stepped while the other thread was suspended inside a compute / or_insert_with closure (write lock of the only shard held) is required to act at the later time".into(),
  ]
}

pub fn rule() -> String {
  "E4p: proptest-generated (configuration, setup, operation A + pause plan, operation B + optional pause plan, optional clock step, suffix); non-trivial = thread A was really suspended at its planned event and B was started while A was suspended (B completed, suspended itself, or was blocked until A resumed); distinct = hash of the scenario".into()
}
