//! Shared harness environment for the cache engines: value type, fixed hasher, recording listener,
//! loader bookkeeping, executor thread for the harness `TaskSpawner`, a tiny `block_on`, the
//! per-harness-thread virtual clock and rayon pool, and the quiescence routine used by C13/C17.

use fibre_cache::policy::CachePolicy;
use fibre_cache::{Cache, CacheBuilder, EvictionListener, EvictionReason, TaskSpawner};
use serde::{Deserialize, Serialize};
use std::collections::BTreeMap;
use std::future::Future;
use std::hash::{BuildHasher, Hasher};
use std::pin::Pin;
use std::sync::atomic::{AtomicU64, AtomicUsize, Ordering};
use std::sync::{Arc, Condvar, Mutex};
use std::task::{Context, Poll, Wake, Waker};
use std::time::Duration;

// ---------------------------------------------------------------------------------------------
// values
// ---------------------------------------------------------------------------------------------

/// Every value stored in a cache under test: the key it was written for, a write id unique in the
/// case, and a counter bumped by compute().
#[derive(Clone, Debug, Default, PartialEq, Eq, Serialize, Deserialize)]
pub struct Val {
  pub key: u32,
  pub wid: u64,
  pub n: u64,
}

// ---------------------------------------------------------------------------------------------
// fixed hasher: shard placement / wheel hash / batcher stripe are functions of the key
// ---------------------------------------------------------------------------------------------

#[derive(Clone, Copy, Debug, Default)]
pub struct FixedState {
  /// collide: keys congruent mod 3 share their full 64-bit hash (timer-wheel hash collisions,
  /// everything lands in at most 3 shards)
  pub collide: bool,
}

pub struct FixedHasher {
  collide: bool,
  acc: u64,
}

impl BuildHasher for FixedState {
  type Hasher = FixedHasher;
  fn build_hasher(&self) -> FixedHasher {
    FixedHasher { collide: self.collide, acc: 0 }
  }
}

impl Hasher for FixedHasher {
  fn write(&mut self, bytes: &[u8]) {
    for b in bytes {
      self.acc = (self.acc << 8) | (*b as u64);
    }
  }
  fn write_u32(&mut self, i: u32) {
    self.acc = i as u64;
  }
  fn finish(&self) -> u64 {
    let k = if self.collide { self.acc % 3 } else { self.acc };
    vcore::mix(k, 0x5eed)
  }
}

pub fn key_hash(collide: bool, key: u32) -> u64 {
  let mut h = FixedState { collide }.build_hasher();
  h.write_u32(key);
  h.finish()
}

pub type TCache = Cache<u32, Val, FixedState>;
pub type TAsync = fibre_cache::AsyncCache<u32, Val, FixedState>;
pub type TBuilder = CacheBuilder<u32, Val, FixedState>;

// ---------------------------------------------------------------------------------------------
// virtual clock + rayon pool, one per harness thread
// ---------------------------------------------------------------------------------------------

thread_local! {
  static CLOCK: Arc<AtomicU64> = fibre_cache::verif::new_clock();
  static POOL: std::cell::RefCell<Option<Arc<rayon::ThreadPool>>> = const { std::cell::RefCell::new(None) };
}

pub const T0: u64 = 1_000_000_000;

/// The calling harness thread's clock (installed for the thread on first use), reset to 1 s.
pub fn case_clock() -> Arc<AtomicU64> {
  let c = CLOCK.with(|c| c.clone());
  fibre_cache::verif::install(Some(c.clone()));
  c.store(T0, Ordering::SeqCst);
  c
}

/// A 2-thread rayon pool whose workers read the calling harness thread's clock: the cache's
/// bulk operations (`multiget`, `multi_insert`, `multi_remove`) run on rayon workers.
pub fn case_pool() -> Arc<rayon::ThreadPool> {
  POOL.with(|p| {
    let mut p = p.borrow_mut();
    if p.is_none() {
      let clock = CLOCK.with(|c| c.clone());
      let pool = rayon::ThreadPoolBuilder::new()
        .num_threads(2)
        .start_handler(move |_| fibre_cache::verif::install(Some(clock.clone())))
        .build()
        .expect("rayon pool");
      *p = Some(Arc::new(pool));
    }
    p.as_ref().unwrap().clone()
  })
}

// ---------------------------------------------------------------------------------------------
// recording listener
// ---------------------------------------------------------------------------------------------

#[derive(Clone, Copy, Debug, PartialEq, Eq, PartialOrd, Ord, Serialize, Deserialize)]
pub enum Reason {
  Capacity,
  Expired,
  Invalidated,
}

impl From<EvictionReason> for Reason {
  fn from(r: EvictionReason) -> Reason {
    match r {
      EvictionReason::Capacity => Reason::Capacity,
      EvictionReason::Expired => Reason::Expired,
      EvictionReason::Invalidated => Reason::Invalidated,
    }
  }
}

#[derive(Clone, Debug)]
pub struct Notif {
  pub key: u32,
  pub val: Val,
  pub reason: Reason,
}

#[derive(Default)]
pub struct Recorder {
  pub log: Mutex<Vec<Notif>>,
  pub cv: Condvar,
}

pub struct RecListener(pub Arc<Recorder>);

impl EvictionListener<u32, Val> for RecListener {
  fn on_evict(&self, key: u32, value: Arc<Val>, reason: EvictionReason) {
    let mut g = self.0.log.lock().unwrap();
    g.push(Notif { key, val: (*value).clone(), reason: reason.into() });
    self.0.cv.notify_all();
  }
}

pub const SENTINEL_KEY: u32 = 4_000_000_000;

/// Waits until the notifier thread has delivered everything queued so far: a zero-cost sentinel
/// entry is inserted through the entry API (no opportunistic maintenance) and removed; the
/// notification queue is FIFO, so once the sentinel's `Invalidated` notification has been
/// recorded every earlier notification has been too.  Returns false if it never arrived
/// (inconclusive, never a violation).
pub fn flush_listener(cache: &TCache, rec: &Recorder, next_wid: &AtomicU64) -> bool {
  for _ in 0..20 {
    let wid = next_wid.fetch_add(1, Ordering::SeqCst);
    let got = cache.entry(SENTINEL_KEY).or_insert(Val { key: SENTINEL_KEY, wid, n: 0 }, 0);
    let removed = cache.remove(&SENTINEL_KEY);
    if got.wid != wid || removed.map(|v| v.wid) != Some(wid) {
      // the sentinel protocol itself is broken (a previous sentinel is still there / remove did not
      // return it): cannot flush
      return false;
    }
    let mut g = rec.log.lock().unwrap();
    let deadline = std::time::Instant::now() + Duration::from_millis(100);
    loop {
      if g.iter().rev().any(|n| n.key == SENTINEL_KEY && n.val.wid == wid) {
        return true;
      }
      let left = deadline.saturating_duration_since(std::time::Instant::now());
      if left.is_zero() {
        break;
      }
      g = rec.cv.wait_timeout(g, left).unwrap().0;
    }
  }
  false
}

// ---------------------------------------------------------------------------------------------
// loader bookkeeping
// ---------------------------------------------------------------------------------------------

#[derive(Clone, Debug)]
pub struct LoadRec {
  pub key: u32,
  pub wid: u64,
  pub cost: u64,
  pub at: u64,
}

pub struct LoaderState {
  pub next_wid: Arc<AtomicU64>,
  pub clock: Arc<AtomicU64>,
  pub cost: u64,
  pub log: Mutex<Vec<LoadRec>>,
  pub cv: Condvar,
}

impl LoaderState {
  /// The body of every harness loader: a fresh write id, recorded with the virtual time.
  pub fn load(&self, key: u32) -> (Val, u64) {
    // loader closures run on threads the cache spawns: give them the case's clock
    fibre_cache::verif::install(Some(self.clock.clone()));
    let wid = self.next_wid.fetch_add(1, Ordering::SeqCst);
    let at = self.clock.load(Ordering::SeqCst);
    let mut g = self.log.lock().unwrap();
    g.push(LoadRec { key, wid, cost: self.cost, at });
    self.cv.notify_all();
    (Val { key, wid, n: 0 }, self.cost)
  }
}

// ---------------------------------------------------------------------------------------------
// executor thread behind the harness TaskSpawner
// ---------------------------------------------------------------------------------------------

type Task = Pin<Box<dyn Future<Output = ()> + Send>>;

pub struct Exec {
  tx: Mutex<Option<std::sync::mpsc::Sender<Task>>>,
  outstanding: Arc<(Mutex<usize>, Condvar)>,
  pub spawned: AtomicUsize,
  handle: Mutex<Option<std::thread::JoinHandle<()>>>,
  extra: Mutex<Vec<std::thread::JoinHandle<()>>>,
}

impl Exec {
  /// One worker thread that runs every spawned task to completion, in order.
  pub fn start(clock: Arc<AtomicU64>) -> Arc<Exec> {
    let (tx, rx) = std::sync::mpsc::channel::<Task>();
    let outstanding = Arc::new((Mutex::new(0usize), Condvar::new()));
    let o2 = outstanding.clone();
    let handle = std::thread::Builder::new()
      .name("vexec".into())
      .spawn(move || {
        fibre_cache::verif::install(Some(clock));
        while let Ok(task) = rx.recv() {
          let r = std::panic::catch_unwind(std::panic::AssertUnwindSafe(|| block_on(task)));
          if r.is_err() {
            eprintln!("harness executor: spawned task panicked");
          }
          let mut g = o2.0.lock().unwrap();
          *g -= 1;
          o2.1.notify_all();
        }
      })
      .unwrap();
    Arc::new(Exec { tx: Mutex::new(Some(tx)), outstanding, spawned: AtomicUsize::new(0), handle: Mutex::new(Some(handle)), extra: Mutex::new(Vec::new()) })
  }
  /// `n` worker threads sharing one queue (loader bodies that block on a harness gate must not
  /// stop other keys' tasks).
  pub fn start_pool(clock: Arc<AtomicU64>, n: usize) -> Arc<Exec> {
    let (tx, rx) = std::sync::mpsc::channel::<Task>();
    let rx = Arc::new(Mutex::new(rx));
    let outstanding = Arc::new((Mutex::new(0usize), Condvar::new()));
    let mut hs = Vec::new();
    for _ in 0..n {
      let (rx, o2, clock) = (rx.clone(), outstanding.clone(), clock.clone());
      hs.push(std::thread::spawn(move || {
        fibre_cache::verif::install(Some(clock));
        loop {
          let task = match rx.lock().unwrap().recv() {
            Ok(t) => t,
            Err(_) => return,
          };
          let _ = std::panic::catch_unwind(std::panic::AssertUnwindSafe(|| block_on(task)));
          let mut g = o2.0.lock().unwrap();
          *g -= 1;
          o2.1.notify_all();
        }
      }));
    }
    Arc::new(Exec { tx: Mutex::new(Some(tx)), outstanding, spawned: AtomicUsize::new(0), handle: Mutex::new(None), extra: Mutex::new(hs) })
  }
  /// Number of spawned tasks that have not finished yet.
  pub fn outstanding(&self) -> usize {
    *self.outstanding.0.lock().unwrap()
  }
  /// Blocks until every spawned task has finished; false on timeout.
  pub fn wait_idle(&self, timeout: Duration) -> bool {
    let deadline = std::time::Instant::now() + timeout;
    let mut g = self.outstanding.0.lock().unwrap();
    while *g > 0 {
      let left = deadline.saturating_duration_since(std::time::Instant::now());
      if left.is_zero() {
        return false;
      }
      g = self.outstanding.1.wait_timeout(g, left).unwrap().0;
    }
    true
  }
  pub fn stop(&self) {
    self.tx.lock().unwrap().take();
    if let Some(h) = self.handle.lock().unwrap().take() {
      let _ = h.join();
    }
    for h in self.extra.lock().unwrap().drain(..) {
      let _ = h.join();
    }
  }
}

pub struct ExecSpawner(pub Arc<Exec>);

impl TaskSpawner for ExecSpawner {
  fn spawn(&self, future: Pin<Box<dyn Future<Output = ()> + Send>>) {
    self.0.spawned.fetch_add(1, Ordering::SeqCst);
    *self.0.outstanding.0.lock().unwrap() += 1;
    if let Some(tx) = self.0.tx.lock().unwrap().as_ref() {
      let _ = tx.send(future);
    }
  }
}

// ---------------------------------------------------------------------------------------------
// block_on
// ---------------------------------------------------------------------------------------------

struct ThreadWaker(std::thread::Thread);
impl Wake for ThreadWaker {
  fn wake(self: Arc<Self>) {
    self.0.unpark();
  }
  fn wake_by_ref(self: &Arc<Self>) {
    self.0.unpark();
  }
}

pub fn thread_waker() -> Waker {
  Waker::from(Arc::new(ThreadWaker(std::thread::current())))
}

pub fn block_on<F: Future>(f: F) -> F::Output {
  let mut f = std::pin::pin!(f);
  let waker = thread_waker();
  let mut cx = Context::from_waker(&waker);
  loop {
    match f.as_mut().poll(&mut cx) {
      Poll::Ready(v) => return v,
      Poll::Pending => std::thread::park_timeout(Duration::from_millis(20)),
    }
  }
}

pub fn stream_next<S: futures_core::Stream + Unpin>(s: &mut S) -> Option<S::Item> {
  let waker = thread_waker();
  let mut cx = Context::from_waker(&waker);
  loop {
    match Pin::new(&mut *s).poll_next(&mut cx) {
      Poll::Ready(v) => return v,
      Poll::Pending => std::thread::park_timeout(Duration::from_millis(20)),
    }
  }
}

// ---------------------------------------------------------------------------------------------
// policies
// ---------------------------------------------------------------------------------------------

#[derive(Clone, Copy, Debug, Serialize, Deserialize, PartialEq, Eq)]
pub enum Pol {
  /// builder default: TinyLFU (bounded) or Null (unbounded)
  Default,
  Custom(crate::policy::Kind),
}

impl Pol {
  pub fn name(self) -> &'static str {
    match self {
      Pol::Default => "default",
      Pol::Custom(k) => k.name(),
    }
  }
}

pub fn apply_policy(b: TBuilder, pol: Pol, capacity: Option<u64>, shards: usize) -> TBuilder {
  match pol {
    Pol::Default => b,
    Pol::Custom(kind) => {
      // per-shard share of the capacity, as the builder computes it for its default policy
      let per = match capacity {
        Some(c) => ((c as f64) / (shards as f64)).ceil() as u64,
        None => 8,
      };
      b.cache_policy_factory(move || -> Box<dyn CachePolicy<u32, Val>> { crate::policy::make_policy::<Val>(kind, per.max(1)) })
    }
  }
}

// ---------------------------------------------------------------------------------------------
// quiescence routine (C13, C17 "honours its capacity like any other cache")
// ---------------------------------------------------------------------------------------------

pub struct Quiesced {
  pub passes: u64,
  pub visible: Vec<(u32, Val)>,
  pub visible_cost: u64,
  pub current_cost: u64,
}

pub enum QuiesceErr {
  /// (clause, message)
  Violation(&'static str, String),
  Inconclusive(String),
}

fn metric_key(c: &TCache) -> (u64, u64, u64, u64, u64) {
  let m = c.metrics();
  (m.current_cost, m.evicted_by_capacity, m.evicted_by_ttl, m.evicted_by_tti, m.invalidations)
}

/// Runs `run_maintenance()` until 40 consecutive passes change none of (current_cost,
/// evicted_by_capacity, evicted_by_ttl, evicted_by_tti, invalidations) — 40 because a pass drains
/// at most 16 of the up to 512 buffered write events of a shard, so a smaller window could stop
/// while admissions are still pending.  The property says "after maintenance has run", not "after
/// one call".
pub fn maintain_to_fixpoint(c: &TCache) -> Result<u64, QuiesceErr> {
  let mut last = metric_key(c);
  let mut stable = 0u64;
  let mut passes = 0u64;
  while stable < 40 {
    if passes >= 20_000 {
      return Err(QuiesceErr::Inconclusive(format!("maintenance did not reach a fixpoint in {passes} passes")));
    }
    c.run_maintenance();
    passes += 1;
    let now = metric_key(c);
    if now == last {
      stable += 1;
    } else {
      stable = 0;
      last = now;
    }
  }
  Ok(passes)
}

/// Reads `current_cost`, enumerates the visible residents and reads `current_cost` again until
/// both reads agree (a background janitor pass between the two would otherwise be misread).
pub fn stable_view(c: &TCache, cost_of: &dyn Fn(&Val) -> Option<u64>) -> Result<(u64, Vec<(u32, Val)>, u64), QuiesceErr> {
  for _ in 0..8 {
    let k1 = metric_key(c);
    let items: Vec<(u32, Val)> = c.iter().map(|(k, v)| (k, (*v).clone())).collect();
    let k2 = metric_key(c);
    if k1 != k2 {
      continue;
    }
    let mut sum = 0u64;
    for (k, v) in &items {
      if *k == SENTINEL_KEY {
        continue;
      }
      match cost_of(v) {
        Some(cst) => sum += cst,
        None => return Err(QuiesceErr::Violation("resident_unknown_value", format!("iteration yielded key {k} with a value nobody wrote: {v:?}"))),
      }
    }
    return Ok((k1.0, items, sum));
  }
  Err(QuiesceErr::Inconclusive("current_cost kept changing while idle".into()))
}

/// `capacity` None = unbounded.  `purge` removes (through the public `remove`) every key the model
/// considers possibly expired, so that no invisible expired-but-uncollected entry is left and the
/// comparison between `current_cost` and the visible residents is exact.
pub fn quiesce_check(c: &TCache, capacity: Option<u64>, cost_of: &dyn Fn(&Val) -> Option<u64>, purge: &mut dyn FnMut(&TCache)) -> Result<Quiesced, QuiesceErr> {
  let passes = maintain_to_fixpoint(c)?;
  // C13: "After maintenance has run at quiescence, the total cost of resident entries is at most
  // the configured capacity" — the visible residents are a subset of the residents, so this is a
  // necessary condition before the purge ...
  let (_, _, sum1) = stable_view(c, cost_of)?;
  if let Some(cap) = capacity {
    if sum1 > cap {
      return Err(QuiesceErr::Violation("over_capacity", format!("after {passes} maintenance passes (fixpoint) the visible resident entries cost {sum1} > capacity {cap}")));
    }
  }
  purge(c);
  let (cur, items, sum2) = stable_view(c, cost_of)?;
  // ... and exact after it.
  if let Some(cap) = capacity {
    if sum2 > cap {
      return Err(QuiesceErr::Violation("over_capacity", format!("after maintenance fixpoint and purge of expired keys the resident entries cost {sum2} > capacity {cap}")));
    }
  }
  // C13: "Once operations have quiesced, the reported current_cost equals the sum of the costs of
  // the entries that are actually resident"
  if cur != sum2 {
    let clause = if cur > sum2 { "current_cost_too_high" } else { "current_cost_too_low" };
    return Err(QuiesceErr::Violation(clause, format!("metrics().current_cost = {cur} but the resident entries cost {sum2} (|drift| = {})", cur.abs_diff(sum2))));
  }
  Ok(Quiesced { passes, visible: items, visible_cost: sum2, current_cost: cur })
}

pub fn dur_ns(ns: u64) -> Duration {
  Duration::from_nanos(ns)
}

pub fn costs_table(m: &BTreeMap<u64, u64>) -> impl Fn(&Val) -> Option<u64> + '_ {
  move |v: &Val| m.get(&v.wid).copied()
}
