//! C14 — policy contract.  Pure E1 engine: generated sequences of on_admit / on_access / on_remove /
//! evict / clear on each built-in policy against a reference bookkeeping of tracked keys.
//!
//! Property text (quoted next to each clause below):
//!   "Each eviction policy only ever nominates keys it is currently tracking, reports exactly their
//!    recorded costs, never nominates a key twice without re-admission, and stops tracking an admitted
//!    key only by nominating it as a victim or on being told it was removed, so every resident key
//!    stays evictable. It frees at least the requested cost whenever its evictable keys are worth that
//!    much, and re-admitting a key updates its cost rather than duplicating it. LRU evicts in
//!    least-recently-used order and FIFO in insertion order, exactly as their definitions say."

use fibre_cache::policy::{AdmissionDecision, CachePolicy};
use proptest::prelude::*;
use serde::{Deserialize, Serialize};
use std::collections::{BTreeMap, BTreeSet};
use std::panic::{catch_unwind, AssertUnwindSafe};
use vcore::{CaseReport, Failure};

pub const P: &str = "C14";

#[derive(Clone, Copy, Debug, Serialize, Deserialize, PartialEq, Eq, PartialOrd, Ord)]
pub enum Kind {
  TinyLfu,
  Sieve,
  Slru,
  Arc,
  Lru,
  Fifo,
  Clock,
  Random,
}

pub const ALL_KINDS: [Kind; 8] = [Kind::TinyLfu, Kind::Sieve, Kind::Slru, Kind::Arc, Kind::Lru, Kind::Fifo, Kind::Clock, Kind::Random];

impl Kind {
  pub fn name(self) -> &'static str {
    match self {
      Kind::TinyLfu => "tinylfu",
      Kind::Sieve => "sieve",
      Kind::Slru => "slru",
      Kind::Arc => "arc",
      Kind::Lru => "lru",
      Kind::Fifo => "fifo",
      Kind::Clock => "clock",
      Kind::Random => "random",
    }
  }
}

pub fn make_policy<V: Send + Sync + 'static>(kind: Kind, cap: u64) -> Box<dyn CachePolicy<u32, V>> {
  use fibre_cache::policy::*;
  match kind {
    Kind::TinyLfu => Box::new(tinylfu::TinyLfuPolicy::new(cap)),
    Kind::Sieve => Box::new(sieve::SievePolicy::new()),
    Kind::Slru => Box::new(slru::SlruPolicy::new(cap)),
    Kind::Arc => Box::new(arc::ArcPolicy::new(cap as usize)),
    Kind::Lru => Box::new(lru::LruPolicy::new()),
    Kind::Fifo => Box::new(fifo::Fifo::new()),
    Kind::Clock => Box::new(clock::ClockPolicy::new()),
    Kind::Random => Box::new(random::RandomPolicy::new()),
  }
}

#[derive(Clone, Debug, Serialize, Deserialize)]
pub enum POp {
  Admit { k: u8, c: u64 },
  /// `c = None`: access with the recorded cost (what the cache does); `Some(c)`: arbitrary cost
  Access { k: u8, c: Option<u64> },
  Remove { k: u8 },
  Evict { n: u64 },
  Clear,
}

#[derive(Clone, Debug, Serialize, Deserialize)]
pub struct Scenario {
  pub kind: Kind,
  pub cap: u64,
  pub ops: Vec<POp>,
}

const COSTS: [u64; 6] = [0, 1, 2, 3, 10, 1000];
const NKEYS: u8 = 12;

fn cost_strategy() -> impl Strategy<Value = u64> {
  (0u16..u16::MAX).prop_map(|i| COSTS[vcore::idx(i, COSTS.len())])
}

fn op_strategy() -> impl Strategy<Value = POp> {
  prop_oneof![
    8 => (0..NKEYS, cost_strategy()).prop_map(|(k, c)| POp::Admit { k, c }),
    5 => (0..NKEYS).prop_map(|k| POp::Access { k, c: None }),
    1 => (0..NKEYS, cost_strategy()).prop_map(|(k, c)| POp::Access { k, c: Some(c) }),
    2 => (0..NKEYS).prop_map(|k| POp::Remove { k }),
    3 => prop_oneof![Just(0u64), Just(1), Just(2), Just(3), Just(5), Just(11), Just(1000), Just(2500), Just(u64::MAX)].prop_map(|n| POp::Evict { n }),
    1 => Just(POp::Clear),
  ]
}

/// `fifo_cost_per_key`: exclusion by construction for the open finding "FIFO keeps the stale cost on
/// re-admission": in half of the FIFO cases every admission of a key uses one cost per key, so the
/// other FIFO clauses (order, tracking) are still searched past the finding.
pub fn scenario_strategy(kinds: Vec<Kind>, max_ops: usize, fifo_cost_per_key: bool) -> impl Strategy<Value = Scenario> {
  let nk = kinds.len();
  ((0u16..u16::MAX), prop_oneof![Just(1u64), Just(2), Just(5), Just(10), Just(100), Just(2000)], proptest::collection::vec(op_strategy(), 0..max_ops), any::<bool>())
    .prop_map(move |(ki, cap, mut ops, half)| {
      let kind = kinds[vcore::idx(ki, nk)];
      if kind == Kind::Fifo && fifo_cost_per_key && half {
        for op in ops.iter_mut() {
          if let POp::Admit { k, c } = op {
            *c = COSTS[*k as usize % COSTS.len()];
          }
        }
      }
      Scenario { kind, cap, ops }
    })
}

#[derive(Clone, Debug)]
struct Tracked {
  /// the costs the policy may legitimately have on record: the cost of the last admission, plus
  /// the cost arguments of later `on_access` calls (the trait passes a cost there too and the
  /// property does not say which one is "recorded" when they differ; the cache always passes
  /// the admitted cost, in which case this is a singleton and the check is exact)
  costs: BTreeSet<u64>,
  /// costs recorded before re-admissions (diagnosis only: tells a stale cost from garbage)
  stale: BTreeSet<u64>,
  /// sequence number of the first admission since the key last left `tracked`
  first_in: u64,
  /// sequence number of the last admission
  last_in: u64,
  /// sequence number of the last admission or access
  last_touch: u64,
}

struct Model {
  kind: Kind,
  tracked: BTreeMap<u32, Tracked>,
  /// keys that were nominated and not re-admitted since
  nominated: BTreeSet<u32>,
  seq: u64,
  readmissions: u64,
  removes: u64,
  evicts_nonempty: u64,
}

fn sig(kind: Kind, op: &str, clause: &str) -> String {
  format!("E1/policy/{}/{}/{}", kind.name(), op, clause)
}

impl Model {
  fn fail(&self, op: &str, clause: &str, msg: String) -> Failure {
    Failure::new(P, sig(self.kind, op, clause), msg)
  }

  /// Victims reported by `evict` or `AdmitAndEvict`.
  fn take_victims(&mut self, op: &str, victims: &[u32], freed: Option<u64>) -> Result<(), Failure> {
    let mut seen = BTreeSet::new();
    let mut sums: BTreeSet<u64> = BTreeSet::from([0u64]);
    let mut stale_sums: BTreeSet<u64> = BTreeSet::from([0u64]);
    for v in victims {
      // "never nominates a key twice without re-admission"
      if !seen.insert(*v) {
        return Err(self.fail(op, "nominated_twice_in_one_call", format!("key {v} appears twice in {victims:?}")));
      }
      match self.tracked.remove(v) {
        None => {
          if self.nominated.contains(v) {
            // "never nominates a key twice without re-admission"
            return Err(self.fail(op, "nominated_twice_without_readmission", format!("key {v} was already nominated and not re-admitted since; victims {victims:?}")));
          }
          // "only ever nominates keys it is currently tracking"
          return Err(self.fail(op, "nominated_untracked", format!("key {v} is not tracked (never admitted, removed or cleared); victims {victims:?}")));
        }
        Some(t) => {
          let mut next = BTreeSet::new();
          let mut next_stale = BTreeSet::new();
          for s in &sums {
            for c in &t.costs {
              next.insert(s.saturating_add(*c));
            }
          }
          for s in &stale_sums {
            for c in t.costs.iter().chain(t.stale.iter()) {
              next_stale.insert(s.saturating_add(*c));
            }
          }
          sums = next;
          stale_sums = next_stale;
          self.nominated.insert(*v);
        }
      }
    }
    if let Some(f) = freed {
      // "reports exactly their recorded costs"
      if !sums.contains(&f) {
        if stale_sums.contains(&f) {
          // "re-admitting a key updates its cost rather than duplicating it"
          return Err(self.fail(op, "freed_cost_is_stale_after_readmission", format!("reported freed {f}, recorded costs sum to one of {sums:?} (the reported total uses a cost from before a re-admission); victims {victims:?}")));
        }
        return Err(self.fail(op, "freed_cost_mismatch", format!("reported freed {f}, recorded costs sum to one of {sums:?}; victims {victims:?}")));
      }
    }
    Ok(())
  }

  /// LRU / FIFO: exact order.  `victims` were nominated in this order by one `evict` call;
  /// `before` is the tracked map before the call.
  fn check_order(&self, before: &BTreeMap<u32, Tracked>, victims: &[u32]) -> Result<(), Failure> {
    // candidate positions of a key in the eviction order (smaller = evicted earlier)
    let cand = |t: &Tracked| -> (u64, u64) {
      match self.kind {
        // "LRU evicts in least-recently-used order": position = last use (admission or access)
        Kind::Lru => (t.last_touch, t.last_touch),
        // "FIFO in insertion order": position = insertion; whether over-writing a tracked key counts
        // as a new insertion is not said, so both its first and its last admission are accepted
        Kind::Fifo => (t.first_in, t.last_in),
        _ => (0, u64::MAX),
      }
    };
    let vs: BTreeSet<u32> = victims.iter().copied().collect();
    // (a) among victims: if a must precede b, a comes first
    for (i, a) in victims.iter().enumerate() {
      for b in &victims[i + 1..] {
        let (ta, tb) = (&before[a], &before[b]);
        if cand(tb).1 < cand(ta).0 {
          return Err(self.fail("evict", "order", format!("{} nominated key {a} before key {b} although {b} is older (positions {:?} vs {:?}); victims {victims:?}", self.kind.name(), cand(ta), cand(tb))));
        }
      }
    }
    // (b) no survivor is strictly older than a victim
    for (x, tx) in before {
      if vs.contains(x) {
        continue;
      }
      for v in victims {
        if cand(tx).1 < cand(&before[v]).0 {
          return Err(self.fail("evict", "order_skipped_older", format!("{} nominated key {v} but kept the older key {x} (positions {:?} vs {:?}); victims {victims:?}", self.kind.name(), cand(&before[v]), cand(tx))));
        }
      }
    }
    Ok(())
  }
}

fn guarded<R>(kind: Kind, op: &str, f: impl FnOnce() -> R) -> Result<R, Failure> {
  match catch_unwind(AssertUnwindSafe(f)) {
    Ok(r) => Ok(r),
    Err(p) => {
      let m = crate::panic_msg(&p);
      Err(Failure::new(P, sig(kind, op, &format!("panic_{}", crate::panic_site(&m))), format!("policy panicked: {m}")))
    }
  }
}

pub fn execute(s: &Scenario) -> Result<CaseReport, Failure> {
  let kind = s.kind;
  // the policy is leaked if it panics (a poisoned/corrupted object must not be dropped while unwinding)
  let policy: Box<dyn CachePolicy<u32, ()>> = make_policy(kind, s.cap);
  let policy = std::mem::ManuallyDrop::new(policy);
  let r = run(s, &policy);
  if r.is_ok() || !r.as_ref().err().map(|f| f.signature.contains("/panic_")).unwrap_or(false) {
    drop(std::mem::ManuallyDrop::into_inner(policy));
  }
  r
}

fn run(s: &Scenario, policy: &Box<dyn CachePolicy<u32, ()>>) -> Result<CaseReport, Failure> {
  let kind = s.kind;
  let mut m = Model { kind, tracked: BTreeMap::new(), nominated: BTreeSet::new(), seq: 0, readmissions: 0, removes: 0, evicts_nonempty: 0 };
  let mut rep = CaseReport::new();
  rep.class(format!("policy:{}", kind.name()));

  let admit = |m: &mut Model, k: u32, c: u64, op: &str| -> Result<(), Failure> {
    m.seq += 1;
    let seq = m.seq;
    let d = guarded(kind, op, || policy.on_admit(&k, c))?;
    // the reference bookkeeping: an admitted key is tracked with the cost of this admission
    // "re-admitting a key updates its cost rather than duplicating it"
    match m.tracked.get_mut(&k) {
      Some(t) => {
        m.readmissions += 1;
        let old = std::mem::replace(&mut t.costs, BTreeSet::from([c]));
        t.stale.extend(old);
        t.last_in = seq;
        t.last_touch = seq;
      }
      None => {
        m.tracked.insert(k, Tracked { costs: BTreeSet::from([c]), stale: BTreeSet::new(), first_in: seq, last_in: seq, last_touch: seq });
      }
    }
    m.nominated.remove(&k);
    match d {
      AdmissionDecision::Admit => {}
      AdmissionDecision::Reject => {
        // a rejected key is not resident, hence not tracked
        m.tracked.remove(&k);
      }
      AdmissionDecision::AdmitAndEvict(v) => {
        // keys returned in AdmitAndEvict are victims: "only ever nominates keys it is currently tracking"
            if crate::trace_on() {
          eprintln!("  {op}({k},{c}) -> AdmitAndEvict({v:?})");
        }
        m.take_victims(op, &v, None)?;
      }
    }
    Ok(())
  };

  for op in &s.ops {
    match op {
      POp::Admit { k, c } => admit(&mut m, *k as u32, *c, "on_admit")?,
      POp::Access { k, c } => {
        let k = *k as u32;
        m.seq += 1;
        let seq = m.seq;
        let cost = match (c, m.tracked.get(&k)) {
          (Some(c), _) => *c,
          (None, Some(t)) => *t.costs.iter().next().unwrap(),
          (None, None) => 1,
        };
        guarded(kind, "on_access", || policy.on_access(&k, cost))?;
        if let Some(t) = m.tracked.get_mut(&k) {
          t.costs.insert(cost);
          t.last_touch = seq;
        }
      }
      POp::Remove { k } => {
        let k = *k as u32;
        guarded(kind, "on_remove", || policy.on_remove(&k))?;
        // "stops tracking an admitted key only ... on being told it was removed"
        if m.tracked.remove(&k).is_some() {
          m.removes += 1;
        }
        m.nominated.remove(&k);
      }
      POp::Clear => {
        guarded(kind, "clear", || policy.clear())?;
        m.tracked.clear();
        m.nominated.clear();
      }
      POp::Evict { n } => {
        evict_checked(&mut m, policy, *n, &mut rep)?;
      }
    }
  }

  // Evictability probe (terminal, so no clone of the policy is needed):
  // "stops tracking an admitted key only by nominating it as a victim or on being told it was
  //  removed, so every resident key stays evictable".
  // V = evict(u64::MAX) are the currently evictable keys (TinyLFU keeps its newest <= 1 % in an
  // admission window that evict does not touch, so V may be a strict subset right now); every other
  // tracked key must be nominated (by AdmitAndEvict or a second evict(u64::MAX)) after W fresh
  // admissions have turned the window over.  A key that never comes back was silently dropped.
  evict_checked(&mut m, policy, u64::MAX, &mut rep)?;
  let rest: BTreeSet<u32> = m.tracked.keys().copied().collect();
  if !rest.is_empty() {
    rep.class("probe:keys_not_immediately_evictable");
    let window = ((s.cap as f64 * 0.01).round() as u64).max(1);
    // ARC nominates from T1 only once T1 is worth at least its adaptive target p (<= capacity) and
    // from T2 otherwise, so with an empty T2 its T1 keys become evictable again only after up to
    // `capacity` worth of further admissions: give it that turnover instead of the window's.
    let w = if kind == Kind::Arc { (3 * window + 2).max(s.cap + 2) } else { 3 * window + 2 };
    for i in 0..w {
      admit(&mut m, 1000 + i as u32, 1, "probe_admit")?;
    }
    evict_checked(&mut m, policy, u64::MAX, &mut rep)?;
    let lost: Vec<u32> = rest.iter().copied().filter(|k| m.tracked.contains_key(k)).collect();
    if !lost.is_empty() {
      return Err(m.fail("probe", "silently_dropped_resident", format!("keys {lost:?} were admitted, never nominated and never removed, yet evict(u64::MAX), {w} fresh admissions and a second evict(u64::MAX) did not nominate them: the policy stopped tracking them")));
    }
  }

  // NT: "history contains a re-admission, a remove and an evict"
  rep.nontrivial = m.readmissions > 0 && m.removes > 0 && m.evicts_nonempty > 0;
  if m.readmissions > 0 {
    rep.class("readmission");
  }
  Ok(rep)
}

fn evict_checked(m: &mut Model, policy: &Box<dyn CachePolicy<u32, ()>>, n: u64, rep: &mut CaseReport) -> Result<(), Failure> {
  let kind = m.kind;
  let before = m.tracked.clone();
  let (victims, freed) = guarded(kind, "evict", || policy.evict(n))?;
  if crate::trace_on() {
    eprintln!("  evict({n}) -> {victims:?} freed {freed}; tracked before: {:?}", before.keys().collect::<Vec<_>>());
  }
  if !victims.is_empty() {
    m.evicts_nonempty += 1;
    rep.class("evict_nonempty");
  }
  m.take_victims("evict", &victims, Some(freed))?;
  if matches!(kind, Kind::Lru | Kind::Fifo) {
    m.check_order(&before, &victims)?;
  }
  if freed < n {
    // "It frees at least the requested cost whenever its evictable keys are worth that much":
    // the call freed less than requested, so ask for everything that is still evictable; the state
    // changed only by the first call, hence first + second = what was evictable when it was made.
    let (more, freed2) = guarded(kind, "evict", || policy.evict(u64::MAX))?;
    if !more.is_empty() {
      rep.class("evict_followup_nonempty");
    }
    m.take_victims("evict", &more, Some(freed2))?;
    if freed.saturating_add(freed2) >= n && n != u64::MAX {
      return Err(m.fail("evict", "freed_less_than_requested", format!("evict({n}) freed {freed} ({victims:?}) although an immediate evict(u64::MAX) nominated {more:?} worth {freed2} more")));
    }
  }
  Ok(())
}
