//! C15 — loader single-flight.
//!
//! Property text: "For any number of concurrent fetch_with calls, from threads or tasks, that miss on
//! the same key, the loader runs exactly once per miss; every caller returns that one loaded value,
//! the value becomes resident with its cost, and no caller waits forever once the loader has
//! returned. A later miss after invalidation or expiry triggers exactly one new load, and loads of
//! different keys do not block each other."
//!
//! Two engines besides the sequential clauses in seq.rs:
//!  * E4-loader: waves of real threads (sync and async handles) against gate-controlled loaders.  The
//!    clauses are timing-free: as long as the key stays resident and unexpired, every caller of a wave —
//!    whether it arrives before, during or just after the load — must see exactly one loader run.
//!  * E2-async-loader: `AsyncCache` + async loader + harness `TaskSpawner`; callers, spawned loader
//!    tasks and the loader's own future are all polled by the history on one thread (poll, cancel,
//!    open gate, invalidate, clock step), so stuck waiters are decided without a clock.

use crate::env::*;
use proptest::prelude::*;
use serde::{Deserialize, Serialize};
use std::collections::{BTreeMap, BTreeSet};
use std::future::Future;
use std::pin::Pin;
use std::sync::atomic::{AtomicBool, AtomicU64, Ordering};
use std::sync::{Arc, Condvar, Mutex};
use std::task::{Context, Poll, Wake, Waker};
use std::time::{Duration, Instant};
use vcore::{CaseReport, Check, Failure};

const P: &str = "C15";
const MS: u64 = 1_000_000;

fn fail(engine: &str, api: &str, clause: &str, msg: String) -> Failure {
  Failure::new(P, format!("{engine}/loader/{api}/{clause}"), msg)
}

// =============================================================================================
// E4: threads
// =============================================================================================

#[derive(Clone, Copy, Debug, Serialize, Deserialize, PartialEq, Eq)]
pub enum Latency {
  Zero,
  Spin,
  Gate,
}

#[derive(Clone, Copy, Debug, Serialize, Deserialize, PartialEq, Eq)]
pub enum Between {
  Nothing,
  Invalidate,
  /// advance the virtual clock past the TTL (+ grace)
  Expire,
  /// advance into the grace window (stale-while-revalidate refresh racing the callers)
  Stale,
}

#[derive(Clone, Debug, Serialize, Deserialize)]
pub struct Wave {
  /// (key, number of callers, latency)
  pub groups: Vec<(u32, u8, Latency)>,
  /// how many of each group's callers use the async handle (block_on on their own thread)
  pub async_callers: u8,
  /// what happens to the wave's keys before the wave
  pub before: Between,
  /// extra callers started right after the gates were opened ("just after completion")
  pub late: u8,
}

#[derive(Clone, Debug, Serialize, Deserialize)]
pub struct TScenario {
  pub shards: usize,
  pub collide: bool,
  pub ttl_ms: Option<u64>,
  pub swr_ms: Option<u64>,
  pub async_loader: bool,
  pub cost: u64,
  pub waves: Vec<Wave>,
}

struct Gates {
  /// per key: open?
  open: Mutex<BTreeMap<u32, bool>>,
  cv: Condvar,
  entered: Mutex<Vec<u32>>,
  returned: Mutex<Vec<u32>>,
}

impl Gates {
  fn wait(&self, key: u32) {
    let mut g = self.open.lock().unwrap();
    while !g.get(&key).copied().unwrap_or(true) {
      g = self.cv.wait(g).unwrap();
    }
  }
  fn set(&self, key: u32, open: bool) {
    self.open.lock().unwrap().insert(key, open);
    self.cv.notify_all();
  }
}

pub fn tscenario_strategy() -> impl Strategy<Value = TScenario> {
  let lat = prop_oneof![1 => Just(Latency::Zero), 1 => Just(Latency::Spin), 3 => Just(Latency::Gate)];
  let group = (0u32..4, 2u8..12, lat);
  let wave = (
    proptest::collection::vec(group, 1..4),
    0u8..4,
    prop_oneof![2 => Just(Between::Nothing), 3 => Just(Between::Invalidate), 2 => Just(Between::Expire), 2 => Just(Between::Stale)],
    0u8..4,
  )
    .prop_map(|(mut groups, async_callers, before, late)| {
      // one group per key
      let mut seen = BTreeSet::new();
      groups.retain(|g| seen.insert(g.0));
      Wave { groups, async_callers, before, late }
    });
  (
    prop_oneof![Just(1usize), Just(2), Just(8)],
    any::<bool>(),
    prop_oneof![Just(None), Just(Some(50u64)), Just(Some(1000))],
    prop_oneof![Just(None), Just(Some(50u64))],
    any::<bool>(),
    prop_oneof![Just(0u64), Just(1), Just(3)],
    proptest::collection::vec(wave, 1..5),
  )
    .prop_map(|(shards, collide, ttl_ms, swr, async_loader, cost, waves)| TScenario { shards, collide, ttl_ms, swr_ms: if ttl_ms.is_some() { swr } else { None }, async_loader, cost, waves })
}

fn join_all(handles: Vec<(u32, std::thread::JoinHandle<Val>)>, results: &mut Vec<(u32, Val)>, done: &Arc<AtomicU64>, want: u64, secs: u64) -> bool {
  let deadline = Instant::now() + Duration::from_secs(secs);
  while done.load(Ordering::SeqCst) < want {
    if Instant::now() >= deadline {
      return false;
    }
    std::thread::sleep(Duration::from_micros(100));
  }
  for (k, h) in handles {
    match h.join() {
      Ok(v) => results.push((k, v)),
      Err(_) => return false,
    }
  }
  true
}

fn bound_secs() -> u64 {
  // development aid: VERIF_C15_BOUND_SECS shortens the liveness bound (never set by vf)
  std::env::var("VERIF_C15_BOUND_SECS").ok().and_then(|s| s.parse().ok()).unwrap_or(30)
}

pub fn execute_threads(s: &TScenario) -> Result<CaseReport, Failure> {
  const E: &str = "E4";
  let clock = case_clock();
  let next_wid = Arc::new(AtomicU64::new(1));
  let gates = Arc::new(Gates { open: Default::default(), cv: Default::default(), entered: Default::default(), returned: Default::default() });
  let st = Arc::new(LoaderState { next_wid: next_wid.clone(), clock: clock.clone(), cost: s.cost, log: Default::default(), cv: Default::default() });
  let lat: Arc<Mutex<BTreeMap<u32, Latency>>> = Default::default();
  let mut b: TBuilder = TBuilder::new().hasher(FixedState { collide: s.collide }).shards(s.shards).unbounded().janitor_tick_interval(Duration::from_millis(50)).maintenance_chance(1 << 31);
  if let Some(t) = s.ttl_ms {
    b = b.time_to_live(Duration::from_millis(t));
  }
  if let Some(t) = s.swr_ms {
    b = b.stale_while_revalidate(Duration::from_millis(t));
  }
  let body = {
    let (st, gates, lat, clock) = (st.clone(), gates.clone(), lat.clone(), clock.clone());
    move |k: u32| -> (Val, u64) {
      fibre_cache::verif::install(Some(clock.clone()));
      gates.entered.lock().unwrap().push(k);
      let l = lat.lock().unwrap().get(&k).copied().unwrap_or(Latency::Zero); // (guard released here)
      match l {
        Latency::Zero => {}
        Latency::Spin => {
          let t = Instant::now();
          while t.elapsed() < Duration::from_micros(50) {
            std::hint::spin_loop();
          }
        }
        Latency::Gate => gates.wait(k),
      }
      let r = st.load(k);
      gates.returned.lock().unwrap().push(k);
      r
    }
  };
  let exec = if s.async_loader {
    let ex = Exec::start_pool(clock.clone(), 6);
    let body = body.clone();
    b = b.async_loader(move |k| {
      let body = body.clone();
      async move { body(k) }
    });
    b = b.spawner(Arc::new(ExecSpawner(ex.clone())));
    Some(ex)
  } else {
    b = b.loader(body);
    None
  };
  let cache = b.build().expect("cache builds");
  let mut rep = CaseReport::new();
  rep.class(if s.async_loader { "threads:async_loader" } else { "threads:sync_loader" });
  let mut now = T0;
  // model: key -> (resident wid, ttl deadline)
  let mut resident: BTreeMap<u32, (u64, Option<u64>)> = BTreeMap::new();
  let mut costs: BTreeMap<u64, u64> = BTreeMap::new();
  let mut loads_seen = 0usize;
  let result = (|| -> Result<(), Failure> {
    for (wi, w) in s.waves.iter().enumerate() {
      // ---- between waves ----
      for (k, _, _) in &w.groups {
        match w.before {
          Between::Nothing => {}
          Between::Invalidate => {
            cache.invalidate(k);
            resident.remove(k);
          }
          Between::Expire | Between::Stale => {}
        }
      }
      match (w.before, s.ttl_ms) {
        (Between::Expire, Some(t)) => {
          now += (t + s.swr_ms.unwrap_or(0) + 1) * MS;
          clock.store(now, Ordering::SeqCst);
        }
        (Between::Stale, Some(t)) if s.swr_ms.is_some() => {
          // into the grace window of everything loaded at the current time
          now += t * MS;
          clock.store(now, Ordering::SeqCst);
        }
        _ => {}
      }
      // expected state of each key of the wave: Fresh (no load may happen), Stale (exactly one
      // refresh), Absent (exactly one load)
      #[derive(PartialEq, Clone, Copy, Debug)]
      enum St {
        Fresh,
        Stale,
        Absent,
      }
      let mut state: BTreeMap<u32, St> = BTreeMap::new();
      for (k, _, l) in &w.groups {
        let stt = match resident.get(k) {
          None => St::Absent,
          Some((_, None)) => St::Fresh,
          Some((_, Some(d))) => {
            if now < *d {
              St::Fresh
            } else if s.swr_ms.map_or(false, |g| now < *d + g * MS) {
              St::Stale
            } else {
              St::Absent
            }
          }
        };
        state.insert(*k, stt);
        lat.lock().unwrap().insert(*k, *l);
        gates.set(*k, *l != Latency::Gate);
      }
      // ---- the wave ----
      let done = Arc::new(AtomicU64::new(0));
      let started = Arc::new(AtomicU64::new(0));
      let spawn_caller = |k: u32, use_async: bool| {
        let c = cache.clone();
        let (clock, done, started) = (clock.clone(), done.clone(), started.clone());
        std::thread::spawn(move || {
          fibre_cache::verif::install(Some(clock));
          started.fetch_add(1, Ordering::SeqCst);
          let v = if use_async { (*block_on(c.to_async().fetch_with(&k))).clone() } else { (*c.fetch_with(&k)).clone() };
          done.fetch_add(1, Ordering::SeqCst);
          v
        })
      };
      let mut gated: Vec<(u32, std::thread::JoinHandle<Val>)> = Vec::new();
      let mut free: Vec<(u32, std::thread::JoinHandle<Val>)> = Vec::new();
      let mut total = 0u64;
      for (k, n, l) in &w.groups {
        for i in 0..*n {
          let h = spawn_caller(*k, i < w.async_callers);
          total += 1;
          // callers of a key whose load blocks on a closed gate cannot finish (unless they hit)
          if *l == Latency::Gate && state[k] == St::Absent {
            gated.push((*k, h));
          } else {
            free.push((*k, h));
          }
        }
      }
      let mut results: Vec<(u32, Val)> = Vec::new();
      // C15: "loads of different keys do not block each other": callers of keys whose loader does not
      // wait for a gate (and stale/fresh hits) finish while the other keys' gates are still closed.
      // The harness holds the only thing that blocks (the gates), so a caller that is still not back
      // after 30 s waits for another key's load.
      let free_n = free.len() as u64;
      {
        let deadline = Instant::now() + Duration::from_secs(bound_secs());
        while done.load(Ordering::SeqCst) < free_n {
          if Instant::now() >= deadline {
            for (k, _, _) in &w.groups {
              gates.set(*k, true);
            }
            return Err(fail(E, "fetch_with", "different_keys_blocked", format!("wave {wi}: only {} of {free_n} callers of ungated keys returned while other keys' loaders were blocked on their gates", done.load(Ordering::SeqCst))));
          }
          std::thread::sleep(Duration::from_micros(100));
        }
      }
      if !gated.is_empty() && free_n > 0 {
        rep.class("threads:ungated_key_finished_while_gate_closed");
      }
      // let every gated caller get going, then open the gates
      let t = Instant::now();
      while started.load(Ordering::SeqCst) < total && t.elapsed() < Duration::from_secs(5) {
        std::thread::yield_now();
      }
      std::thread::sleep(Duration::from_micros(200));
      for (k, _, _) in &w.groups {
        gates.set(*k, true);
      }
      // late arrivals: "callers arriving ... just after completion of a load"
      for (k, _, _) in &w.groups {
        for _ in 0..w.late {
          free.push((*k, spawn_caller(*k, false)));
          total += 1;
        }
      }
      // C15: "no caller waits forever once the loader has returned"
      let all: Vec<(u32, std::thread::JoinHandle<Val>)> = gated.into_iter().chain(free.into_iter()).collect();
      if !join_all(all, &mut results, &done, total, bound_secs()) {
        let entered = gates.entered.lock().unwrap().len();
        let returned = gates.returned.lock().unwrap().len();
        if entered == returned {
          return Err(fail(E, "fetch_with", "caller_stuck_after_loader_returned", format!("wave {wi}: {} of {total} callers returned 30 s after every gate was opened; all {entered} loader invocations had returned", done.load(Ordering::SeqCst))));
        }
        return Err(Failure::new("C15", "E4/loader/inconclusive", "loader still running after 30 s"));
      }
      if let Some(ex) = &exec {
        ex.wait_idle(Duration::from_secs(20));
      }
      // a stale refresh of a sync loader runs on a thread nobody joins: wait for entered == returned
      let t = Instant::now();
      while gates.entered.lock().unwrap().len() != gates.returned.lock().unwrap().len() && t.elapsed() < Duration::from_secs(10) {
        std::thread::sleep(Duration::from_micros(100));
      }
      // a refresh of a stale entry with a sync loader runs on a thread the cache spawned and nobody
      // joins; it may not even have entered the loader yet: wait for it (liveness only — if it never
      // shows up the wave is inconclusive, not a violation)
      if !s.async_loader {
        for (k, _, _) in &w.groups {
          if state[k] == St::Stale {
            let t = Instant::now();
            while !st.log.lock().unwrap()[loads_seen..].iter().any(|l| l.key == *k) {
              if t.elapsed() > Duration::from_secs(10) {
                return Err(Failure::new("C15", "E4/loader/inconclusive", "no refresh observed within 10 s"));
              }
              std::thread::sleep(Duration::from_micros(200));
            }
          }
        }
        let t = Instant::now();
        while gates.entered.lock().unwrap().len() != gates.returned.lock().unwrap().len() && t.elapsed() < Duration::from_secs(10) {
          std::thread::sleep(Duration::from_micros(100));
        }
      }
      // every loader invocation of this engine ends in exactly one insert; `inserts` is bumped after
      // the map insert, so this waits until every loaded value is in the map (liveness only)
      {
        let t = Instant::now();
        while (cache.metrics().inserts as usize) < st.log.lock().unwrap().len() {
          if t.elapsed() > Duration::from_secs(10) {
            return Err(Failure::new("C15", "E4/loader/inconclusive", "a loaded value was not inserted within 10 s"));
          }
          std::thread::sleep(Duration::from_micros(100));
        }
      }
      let loads: Vec<LoadRec> = {
        let g = st.log.lock().unwrap();
        let v = g[loads_seen..].to_vec();
        loads_seen = g.len();
        v
      };
      for l in &loads {
        costs.insert(l.wid, l.cost);
      }
      for (k, n, _) in &w.groups {
        let kl: Vec<&LoadRec> = loads.iter().filter(|l| l.key == *k).collect();
        let vals: Vec<&Val> = results.iter().filter(|(rk, _)| rk == k).map(|(_, v)| v).collect();
        let callers = *n as usize + w.late as usize;
        if callers >= 2 {
          rep.nontrivial = true;
        }
        match state[k] {
          St::Absent => {
            // C15: "the loader runs exactly once per miss" / "A later miss after invalidation or
            // expiry triggers exactly one new load"
            if kl.len() != 1 {
              return Err(fail(E, "fetch_with", "loads_per_miss_not_one", format!("wave {wi} key {k}: {callers} concurrent callers missed, the loader ran {} times", kl.len())));
            }
            // C15: "every caller returns that one loaded value"
            if let Some(v) = vals.iter().find(|v| v.wid != kl[0].wid || v.key != *k) {
              return Err(fail(E, "fetch_with", "caller_got_other_value", format!("wave {wi} key {k}: loaded write {}, a caller returned {v:?}", kl[0].wid)));
            }
            resident.insert(*k, (kl[0].wid, s.ttl_ms.map(|t| kl[0].at + t * MS)));
            rep.class("threads:wave_miss");
          }
          St::Fresh => {
            if !kl.is_empty() {
              return Err(fail(E, "fetch_with", "load_without_miss", format!("wave {wi} key {k}: resident and fresh, yet the loader ran {} times", kl.len())));
            }
            let cur = resident[k].0;
            if let Some(v) = vals.iter().find(|v| v.wid != cur) {
              return Err(fail(E, "fetch_with", "caller_got_other_value", format!("wave {wi} key {k}: resident write {cur}, a caller returned {v:?}")));
            }
          }
          St::Stale => {
            // "stale-while-revalidate refreshes racing with misses": one refresh, callers see the
            // stale or the refreshed value
            if kl.len() != 1 {
              return Err(fail(E, "fetch_with", "refreshes_per_stale_entry_not_one", format!("wave {wi} key {k}: {callers} callers hit a stale entry inside its grace window, the loader ran {} times", kl.len())));
            }
            let cur = resident[k].0;
            if let Some(v) = vals.iter().find(|v| v.wid != cur && v.wid != kl[0].wid) {
              return Err(fail(E, "fetch_with", "caller_got_other_value", format!("wave {wi} key {k}: stale write {cur}, refreshed write {}, a caller returned {v:?}", kl[0].wid)));
            }
            resident.insert(*k, (kl[0].wid, s.ttl_ms.map(|t| kl[0].at + t * MS)));
            rep.class("threads:wave_stale_refresh");
          }
        }
        // C15: "the value becomes resident with its cost"
        let (wid, d) = resident[k];
        let fresh = d.map_or(true, |d| now < d);
        if fresh {
          match cache.peek(k) {
            Some(v) if v.wid == wid => {}
            other => return Err(fail(E, "fetch_with", "loaded_value_not_resident", format!("wave {wi} key {k}: write {wid} was loaded, peek returns {other:?}"))),
          }
        }
      }
    }
    // cost: the resident entries are exactly the last loads; current_cost must say so
    let cost_of = |v: &Val| costs.get(&v.wid).copied();
    let expired: Vec<u32> = resident.iter().filter(|(_, (_, d))| d.map_or(false, |d| now >= d)).map(|(k, _)| *k).collect();
    let mut purge = |c: &TCache| {
      for k in &expired {
        c.remove(k);
      }
    };
    match quiesce_check(&cache, None, &cost_of, &mut purge) {
      Ok(_) | Err(QuiesceErr::Inconclusive(_)) => Ok(()),
      Err(QuiesceErr::Violation(clause, msg)) => Err(fail(E, "fetch_with", &format!("resident_cost_{clause}"), msg)),
    }
  })();
  // never leave a loader thread blocked
  for k in 0..8 {
    gates.set(k, true);
  }
  if let Some(ex) = &exec {
    ex.wait_idle(Duration::from_secs(5));
    ex.stop();
  }
  match result {
    Err(f) if f.signature == "E4/loader/inconclusive" => {
      rep.inconclusive = 1;
      Ok(rep)
    }
    Err(f) => Err(f),
    Ok(()) => Ok(rep),
  }
}

// =============================================================================================
// E2: async callers, spawned loader tasks and loader futures on a harness-owned executor
// =============================================================================================

#[derive(Clone, Debug, Serialize, Deserialize)]
pub enum AStep {
  /// create a caller future `fetch_with(k)` (not polled yet)
  Call { k: u8 },
  PollCaller { i: u16 },
  PollTask { i: u16 },
  Open { k: u8 },
  Close { k: u8 },
  /// cancel a caller
  Drop { i: u16 },
  Invalidate { k: u8 },
  Advance { ms: u16 },
  /// poll woken callers/tasks until nothing is woken
  Settle,
}

#[derive(Clone, Debug, Serialize, Deserialize)]
pub struct AScenario {
  pub shards: usize,
  pub collide: bool,
  pub ttl_ms: Option<u64>,
  pub steps: Vec<AStep>,
}

pub fn ascenario_strategy() -> impl Strategy<Value = AScenario> {
  let step = prop_oneof![
    6 => (0u8..3).prop_map(|k| AStep::Call { k }),
    6 => any::<u16>().prop_map(|i| AStep::PollCaller { i }),
    4 => any::<u16>().prop_map(|i| AStep::PollTask { i }),
    3 => (0u8..3).prop_map(|k| AStep::Open { k }),
    1 => (0u8..3).prop_map(|k| AStep::Close { k }),
    2 => any::<u16>().prop_map(|i| AStep::Drop { i }),
    2 => (0u8..3).prop_map(|k| AStep::Invalidate { k }),
    1 => prop_oneof![Just(1u16), Just(49), Just(50), Just(51)].prop_map(|ms| AStep::Advance { ms }),
    3 => Just(AStep::Settle),
  ];
  (prop_oneof![Just(1usize), Just(2), Just(8)], any::<bool>(), prop_oneof![2 => Just(None), 1 => Just(Some(50u64))], proptest::collection::vec(step, 0..60))
    .prop_map(|(shards, collide, ttl_ms, steps)| AScenario { shards, collide, ttl_ms, steps })
}

struct Flag(AtomicBool);
impl Wake for Flag {
  fn wake(self: Arc<Self>) {
    self.0.store(true, Ordering::SeqCst);
  }
  fn wake_by_ref(self: &Arc<Self>) {
    self.0.store(true, Ordering::SeqCst);
  }
}

struct AShared {
  open: Mutex<[bool; 3]>,
  gate_wakers: Mutex<Vec<(u8, Waker)>>,
  /// loader invocations that entered and have not completed, per key
  inflight: Mutex<[u32; 3]>,
  entered_log: Mutex<Vec<u32>>,
  spawned: Mutex<Vec<Pin<Box<dyn Future<Output = ()> + Send>>>>,
}

struct GateFut {
  sh: Arc<AShared>,
  k: u8,
}
impl Future for GateFut {
  type Output = ();
  fn poll(self: Pin<&mut Self>, cx: &mut Context<'_>) -> Poll<()> {
    if self.sh.open.lock().unwrap()[self.k as usize] {
      Poll::Ready(())
    } else {
      self.sh.gate_wakers.lock().unwrap().push((self.k, cx.waker().clone()));
      Poll::Pending
    }
  }
}

struct QueueSpawner(Arc<AShared>);
impl fibre_cache::TaskSpawner for QueueSpawner {
  fn spawn(&self, future: Pin<Box<dyn Future<Output = ()> + Send>>) {
    self.0.spawned.lock().unwrap().push(future);
  }
}

struct Slot<F> {
  fut: Option<F>,
  flag: Arc<Flag>,
  polled: bool,
  key: u8,
  created_step: usize,
  result: Option<Val>,
}

pub fn execute_async(s: &AScenario) -> Result<CaseReport, Failure> {
  const E: &str = "E2";
  let clock = case_clock();
  let next_wid = Arc::new(AtomicU64::new(1));
  let st = Arc::new(LoaderState { next_wid, clock: clock.clone(), cost: 1, log: Default::default(), cv: Default::default() });
  let sh = Arc::new(AShared { open: Mutex::new([false; 3]), gate_wakers: Default::default(), inflight: Mutex::new([0; 3]), entered_log: Default::default(), spawned: Default::default() });
  let mut b: TBuilder = TBuilder::new().hasher(FixedState { collide: s.collide }).shards(s.shards).unbounded().janitor_tick_interval(Duration::from_millis(50)).maintenance_chance(1 << 31);
  if let Some(t) = s.ttl_ms {
    b = b.time_to_live(Duration::from_millis(t));
  }
  {
    let (st, sh) = (st.clone(), sh.clone());
    b = b.async_loader(move |k: u32| {
      let (st, sh) = (st.clone(), sh.clone());
      async move {
        sh.inflight.lock().unwrap()[k as usize] += 1;
        sh.entered_log.lock().unwrap().push(k);
        GateFut { sh: sh.clone(), k: k as u8 }.await;
        let r = st.load(k);
        sh.inflight.lock().unwrap()[k as usize] -= 1;
        r
      }
    });
  }
  b = b.spawner(Arc::new(QueueSpawner(sh.clone())));
  let ac: TAsync = b.build_async().expect("cache builds");
  // callers borrow the handle: keep it boxed and alive until every future is gone
  let acb: &'static TAsync = Box::leak(Box::new(ac));
  type CallerFut = Pin<Box<dyn Future<Output = Arc<Val>>>>;
  let mut callers: Vec<Slot<CallerFut>> = Vec::new();
  let mut tasks: Vec<Slot<Pin<Box<dyn Future<Output = ()> + Send>>>> = Vec::new();
  let mut rep = CaseReport::new();
  let mut now = T0;
  // model: completed loads per key in order: (wid, completed at step, dead since step)
  let mut loads: [Vec<(u64, usize, Option<usize>, u64)>; 3] = Default::default();
  let mut loads_seen = 0usize;
  let mut entered_seen = 0usize;
  let mut max_waiting = 0usize;
  let mut cancelled = false;

  let result = (|| -> Result<(), Failure> {
    macro_rules! absorb {
      ($step:expr) => {{
        // adopt tasks the cache spawned
        for f in sh.spawned.lock().unwrap().drain(..) {
          tasks.push(Slot { fut: Some(f), flag: Arc::new(Flag(AtomicBool::new(true))), polled: false, key: 0, created_step: $step, result: None });
        }
        // loader entries: C15 "the loader runs exactly once per miss" — a load may only start while no
        // other load of that key is in flight and the key is not resident and fresh
        let entered: Vec<u32> = {
          let g = sh.entered_log.lock().unwrap();
          let v = g[entered_seen..].to_vec();
          entered_seen = g.len();
          v
        };
        for k in entered {
          let ku = k as usize;
          if sh.inflight.lock().unwrap()[ku] > 1 {
            return Err(fail(E, "fetch_with", "concurrent_loads_of_one_key", format!("step {}: a second loader invocation for key {k} started while one was still running", $step)));
          }
          if let Some((wid, _, None, at)) = loads[ku].last().copied() {
            if s.ttl_ms.map_or(true, |t| now < at + t * MS) {
              return Err(fail(E, "fetch_with", "load_without_miss", format!("step {}: key {k} is resident (write {wid}) and fresh, yet the loader was invoked again", $step)));
            }
          }
        }
        let done: Vec<LoadRec> = {
          let g = st.log.lock().unwrap();
          let v = g[loads_seen..].to_vec();
          loads_seen = g.len();
          v
        };
        for l in done {
          let ku = l.key as usize;
          // a completed load supersedes the previous value of the key
          if let Some(last) = loads[ku].last_mut() {
            if last.2.is_none() {
              last.2 = Some($step);
            }
          }
          loads[ku].push((l.wid, $step, None, l.at));
        }
      }};
    }
    macro_rules! poll_caller {
      ($i:expr, $step:expr) => {{
        let i: usize = $i;
        if callers[i].fut.is_some() {
          callers[i].flag.0.store(false, Ordering::SeqCst);
          callers[i].polled = true;
          let w = Waker::from(callers[i].flag.clone());
          let mut cx = Context::from_waker(&w);
          let r = callers[i].fut.as_mut().unwrap().as_mut().poll(&mut cx);
          absorb!($step);
          if let Poll::Ready(v) = r {
            callers[i].fut = None;
            let v = (*v).clone();
            let k = callers[i].key as usize;
            // C15: "every caller returns that one loaded value": a value some load of this key
            // produced, and not one that was already invalidated/superseded when the caller was created
            match loads[k].iter().find(|l| l.0 == v.wid) {
              None => return Err(fail(E, "fetch_with", "caller_got_unknown_value", format!("step {}: caller {i} of key {k} returned {v:?}, which no completed load of that key produced", $step))),
              Some((_, _, Some(dead), _)) if *dead < callers[i].created_step => {
                return Err(fail(E, "fetch_with", "caller_got_dead_value", format!("step {}: caller {i} of key {k} (created at step {}) returned write {} which was invalidated/replaced at step {dead}", $step, callers[i].created_step, v.wid)))
              }
              _ => {}
            }
            callers[i].result = Some(v);
          }
        }
      }};
    }
    macro_rules! poll_task {
      ($i:expr, $step:expr) => {{
        let i: usize = $i;
        if tasks[i].fut.is_some() {
          tasks[i].flag.0.store(false, Ordering::SeqCst);
          tasks[i].polled = true;
          let w = Waker::from(tasks[i].flag.clone());
          let mut cx = Context::from_waker(&w);
          let r = tasks[i].fut.as_mut().unwrap().as_mut().poll(&mut cx);
          absorb!($step);
          if r.is_ready() {
            tasks[i].fut = None;
          }
        }
      }};
    }
    for (si, step) in s.steps.iter().enumerate() {
      match step {
        AStep::Call { k } => {
          let key = *k as u32;
          let fut: CallerFut = Box::pin(async move { acb.fetch_with(&key).await });
          callers.push(Slot { fut: Some(fut), flag: Arc::new(Flag(AtomicBool::new(true))), polled: false, key: *k, created_step: si, result: None });
        }
        AStep::PollCaller { i } => {
          if !callers.is_empty() {
            let i = vcore::idx(*i, callers.len());
            poll_caller!(i, si);
          }
        }
        AStep::PollTask { i } => {
          if !tasks.is_empty() {
            let i = vcore::idx(*i, tasks.len());
            poll_task!(i, si);
          }
        }
        AStep::Open { k } => {
          sh.open.lock().unwrap()[*k as usize] = true;
          let ws: Vec<(u8, Waker)> = std::mem::take(&mut *sh.gate_wakers.lock().unwrap());
          for (wk, w) in ws {
            if wk == *k {
              w.wake();
            } else {
              sh.gate_wakers.lock().unwrap().push((wk, w));
            }
          }
        }
        AStep::Close { k } => sh.open.lock().unwrap()[*k as usize] = false,
        AStep::Drop { i } => {
          if !callers.is_empty() {
            let i = vcore::idx(*i, callers.len());
            if callers[i].fut.take().is_some() && callers[i].polled {
              cancelled = true;
            }
          }
        }
        AStep::Invalidate { k } => {
          let key = *k as u32;
          let _ = block_on(acb.invalidate(&key));
          if let Some(last) = loads[*k as usize].last_mut() {
            if last.2.is_none() {
              last.2 = Some(si);
            }
          }
        }
        AStep::Advance { ms } => {
          now += *ms as u64 * MS;
          clock.store(now, Ordering::SeqCst);
          if let Some(t) = s.ttl_ms {
            for l in loads.iter_mut() {
              if let Some(last) = l.last_mut() {
                if last.2.is_none() && now >= last.3 + t * MS {
                  last.2 = Some(si);
                }
              }
            }
          }
        }
        AStep::Settle => {
          // an executor that polls exactly the woken tasks, until none is woken
          let mut rounds = 0;
          loop {
            let mut any = false;
            for i in 0..tasks.len() {
              if tasks[i].fut.is_some() && tasks[i].flag.0.load(Ordering::SeqCst) {
                any = true;
                poll_task!(i, si);
              }
            }
            for i in 0..callers.len() {
              if callers[i].fut.is_some() && callers[i].polled && callers[i].flag.0.load(Ordering::SeqCst) {
                any = true;
                poll_caller!(i, si);
              }
            }
            rounds += 1;
            if !any || rounds > 10_000 {
              break;
            }
          }
          let open = *sh.open.lock().unwrap();
          let inflight = *sh.inflight.lock().unwrap();
          let waiting = callers.iter().filter(|c| c.fut.is_some() && c.polled).count();
          max_waiting = max_waiting.max(waiting);
          for k in 0..3usize {
            // C15: "loads of different keys do not block each other": with its gate open a key's load
            // cannot depend on anything but the executor; after settling it must be finished
            let pending_tasks = tasks.iter().filter(|t| t.fut.is_some()).count();
            if open[k] && inflight[k] > 0 {
              return Err(fail(E, "fetch_with", "load_stalled_with_open_gate", format!("step {si}: key {k}'s gate is open and every woken task was polled, yet its load is still in flight ({pending_tasks} spawned tasks pending; closed gates: {:?})", open)));
            }
            // C15: "no caller waits forever once the loader has returned": no load of this key is
            // running or queued, so a started caller that is still pending has nobody left to wake it
            let queued = tasks.iter().any(|t| t.fut.is_some());
            if inflight[k] == 0 && !queued {
              if let Some((i, _)) = callers.iter().enumerate().find(|(_, c)| c.key as usize == k && c.fut.is_some() && c.polled) {
                return Err(fail(E, "fetch_with", "caller_stuck_after_load_completed", format!("step {si}: caller {i} of key {k} is pending and unwoken although no load of that key is running or queued")));
              }
            }
          }
        }
      }
      absorb!(si);
    }
    Ok(())
  })();
  // teardown: futures first, then the leaked handle
  callers.clear();
  tasks.clear();
  sh.spawned.lock().unwrap().clear();
  sh.gate_wakers.lock().unwrap().clear();
  unsafe {
    drop(Box::from_raw(acb as *const TAsync as *mut TAsync));
  }
  result?;
  // NT: ">= 2 callers overlapped one load"
  rep.nontrivial = max_waiting >= 2;
  if cancelled {
    rep.class("async:cancelled_waiting_caller");
  }
  if max_waiting >= 2 {
    rep.class("async:overlapping_callers");
  }
  Ok(rep)
}

// =============================================================================================

pub fn check(check: &mut Check) {
  let ctx = check.ctx.clone();
  let n_threads = ctx.tier.pick(300u64, 20_000u64);
  let out = vcore::drive(&ctx, &check.findings, 3, n_threads, tscenario_strategy, |s| execute_threads(s));
  check.absorb(crate::ENGINE_LOADER, out);
  let n_async = ctx.tier.pick(12_000u64, 2_000_000u64);
  let out = vcore::drive(&ctx, &check.findings, 4, n_async, ascenario_strategy, |s| execute_async(s));
  check.absorb(crate::ENGINE_ALOADER, out);
  check.require_class("threads:wave_miss", 100);
  check.require_class("async:overlapping_callers", 500);
}

pub fn assumptions() -> Vec<String> {
  vec![
    "E4 waves: unbounded cache, so a loaded key stays resident; the per-wave clauses then hold for every arrival order (before / during / just after the load), no timing is asserted".into(),
    "E4: 'different keys do not block' and 'no caller waits forever' are decided with a 30 s bound in a construction where the harness gates are the only blocking objects and all of them are open; a loader that has not returned by then is reported inconclusive (exit 2)".into(),
    "E2: single harness thread, every poll/wake is part of the generated history; the late-arrival window between map insert and pending-marker removal is not split (no delay point inside spawn_loader_task)".into(),
  ]
}

pub fn rule() -> String {
  "E1: sequential histories with fetch_with / invalidate / clock steps (see C11 rule); E4: generated waves of 2..12 threads per key (sync and async handles) against Zero/Spin/Gate loaders, keys colliding or not on the pending-load stripes, invalidation / expiry / stale-grace between waves; E2: generated poll/cancel/gate/invalidate/clock histories on a harness executor. Non-trivial = at least 2 callers overlapped one load (E4: a group of >= 2 callers; E2: >= 2 started callers pending at a Settle), or (E1) a key was loaded again after invalidation/expiry; distinct = hash of the scenario".into()
}
