use serde::{Deserialize, Serialize};
use vcore::{CaseReport, Check, Failure};
#[derive(Clone, Debug, Serialize, Deserialize)]
pub struct TScenario {}
#[derive(Clone, Debug, Serialize, Deserialize)]
pub struct AScenario {}
pub fn execute_threads(_s: &TScenario) -> Result<CaseReport, Failure> { Ok(CaseReport::new()) }
pub fn execute_async(_s: &AScenario) -> Result<CaseReport, Failure> { Ok(CaseReport::new()) }
pub fn check(_c: &mut Check) {}
pub fn assumptions() -> Vec<String> { vec![] }
pub fn rule() -> String { String::new() }
