//! cachex — checks for the cache properties C11–C17 (hook build: `--cfg excsn_fibre_verif`).
//!
//!   cachex check <PROPERTY> <quick|thorough>
//!   cachex replay <replay.json>
//!   cachex run <engine> <scenario.json> [PROPERTY]     (development aid, VERIF_TRACE=1 prints steps)

mod conc;
mod env;
mod loader;
mod pair;
mod policy;
mod seq;
mod seqgen;

use vcore::{Check, Ctx, EvidenceMeta, Failure, Replay};

static GLOBAL_PROPERTY: std::sync::OnceLock<String> = std::sync::OnceLock::new();

pub fn current_property() -> String {
  GLOBAL_PROPERTY.get().cloned().unwrap_or_default()
}

pub fn trace_on() -> bool {
  static T: std::sync::OnceLock<bool> = std::sync::OnceLock::new();
  *T.get_or_init(|| std::env::var("VERIF_TRACE").is_ok())
}

pub fn panic_msg(p: &Box<dyn std::any::Any + Send>) -> String {
  if let Some(s) = p.downcast_ref::<&str>() {
    s.to_string()
  } else if let Some(s) = p.downcast_ref::<String>() {
    s.clone()
  } else {
    "non-string panic".to_string()
  }
}

/// A short, stable tag for a panic message (used in signatures).
pub fn panic_site(msg: &str) -> String {
  msg.chars().take(48).map(|c| if c.is_ascii_alphanumeric() { c } else { '_' }).collect()
}

pub const ENGINE_POLICY: &str = "E1-policy";
pub const ENGINE_SEQ: &str = "E1-cache";
pub const ENGINE_LOADER: &str = "E4-loader";
pub const ENGINE_ALOADER: &str = "E2-async-loader";
pub const ENGINE_CONC: &str = "E4-threads";
pub const ENGINE_PAIR: &str = "E4p-pair";

fn run_replay(r: &Replay) -> Option<Failure> {
  match r.engine.as_str() {
    ENGINE_POLICY => policy::execute(&vcore::from_value::<policy::Scenario>(&r.scenario)).err(),
    ENGINE_SEQ => seq::execute(&vcore::from_value::<seq::Scenario>(&r.scenario)).err(),
    ENGINE_LOADER => loader::execute_threads(&vcore::from_value::<loader::TScenario>(&r.scenario)).err(),
    ENGINE_ALOADER => loader::execute_async(&vcore::from_value::<loader::AScenario>(&r.scenario)).err(),
    ENGINE_CONC => conc::execute(&vcore::from_value::<conc::Scenario>(&r.scenario)).err(),
    ENGINE_PAIR => pair::execute(&vcore::from_value::<pair::Scenario>(&r.scenario)).err(),
    other => {
      eprintln!("unknown engine {other}");
      std::process::exit(2)
    }
  }
}

fn main() {
  let args: Vec<String> = std::env::args().collect();
  if std::env::var("VERIF_DEBUG").is_err() {
    std::panic::set_hook(Box::new(|_| {}));
  }
  match args.get(1).map(|s| s.as_str()) {
    Some("replay") => {
      let r = vcore::read_replay(&args[2]);
      let _ = GLOBAL_PROPERTY.set(r.property.clone());
      // E4 replays are statistical: repeat (see NOTES.md)
      // E4p replays force their interleaving with the pause plan: mostly deterministic, repeated a few times
      // E1 histories in maint_always configurations race the real janitor thread: repeated as well
      let janitor_timing = r.engine == ENGINE_SEQ && r.scenario.get("cfg").and_then(|c| c.get("maint_always")).and_then(|b| b.as_bool()).unwrap_or(false);
      let reps = if r.engine == ENGINE_CONC || r.engine == ENGINE_LOADER { 200 } else if r.engine == ENGINE_PAIR { 10 } else if janitor_timing { 30 } else { 1 };
      for _ in 0..reps {
        if let Some(f) = run_replay(&r) {
          if f.property == r.property {
            println!("replay still fails: [{}] {} :: {}", f.property, f.signature, f.message);
            std::process::exit(1)
          }
        }
      }
      println!("replay passes");
      std::process::exit(0)
    }
    Some("run") => {
      let engine = args[2].clone();
      let txt = std::fs::read_to_string(&args[3]).expect("read scenario");
      let mut v: serde_json::Value = serde_json::from_str(&txt).expect("json");
      if let Some(sc) = v.get("scenario") {
        v = sc.clone();
      }
      let _ = GLOBAL_PROPERTY.set(args.get(4).cloned().unwrap_or_else(|| "C11".into()));
      let r = Replay { property: current_property(), engine, signature: String::new(), message: String::new(), seed: 0, scenario: v };
      match run_replay(&r) {
        None => println!("scenario passes"),
        Some(f) => println!("scenario fails: [{}] {} :: {}", f.property, f.signature, f.message),
      }
    }
    Some("check") => {
      let prop = args[2].clone();
      let tier = args.get(3).cloned().unwrap_or_else(|| "quick".into());
      let _ = GLOBAL_PROPERTY.set(prop.clone());
      let ctx = Ctx::from_args(&prop, &tier);
      let mut check = Check::new(ctx.clone());
      check.run_witnesses(&|r| run_replay(r).filter(|f| f.property == r.property));
      check.run_regressions(&|r| run_replay(r));
      let mut engines: Vec<&str> = Vec::new();
      let mut assumptions: Vec<String> = Vec::new();
      let rule: String;
      match prop.as_str() {
        "C14" => {
          let cases = ctx.tier.pick(400_000u64, 20_000_000u64);
          let max_ops = ctx.tier.pick(60usize, 120usize);
          // development aid: VERIF_POLICY_KINDS=arc,fifo restricts the policies (never set by vf)
          let fifo_open = check.findings.open_for("C14", "E1/policy/fifo/evict/freed_cost_is_stale_after_readmission").is_some();
          let kinds: Vec<policy::Kind> = match std::env::var("VERIF_POLICY_KINDS") {
            Ok(v) => policy::ALL_KINDS.iter().copied().filter(|k| v.split(',').any(|x| x == k.name())).collect(),
            Err(_) => policy::ALL_KINDS.to_vec(),
          };
          let out = vcore::drive(&ctx, &check.findings, 1, cases, move || policy::scenario_strategy(kinds.clone(), max_ops, fifo_open), |s| policy::execute(s));
          check.absorb(ENGINE_POLICY, out);
          for k in policy::ALL_KINDS {
            check.require_class(&format!("policy:{}", k.name()), ctx.tier.pick(1000, 10_000));
          }
          check.require_class("evict_nonempty", 1000);
          check.require_class("readmission", 1000);
          engines.push("E1 policy-call histories against reference bookkeeping (proptest)");
          assumptions.push("policies are driven directly through the public CachePolicy trait, one thread".into());
          assumptions.push("on_access is mostly called with the recorded cost (as the cache does); with another cost either is accepted as 'recorded'".into());
          rule = "proptest-generated sequences of on_admit/on_access/on_remove/evict/clear (keys 0..12, costs {0,1,2,3,10,1000}) on one of the 8 built-in policies, followed by the terminal evictability probe; non-trivial = the history contains a re-admission of a tracked key, an on_remove of a tracked key and an evict that nominated at least one key; distinct = hash of the scenario".into();
        }
        "C11" | "C12" | "C13" | "C16" | "C17" => {
          // development aid (never set by vf): VERIF_ONLY_ENGINE=conc skips the sequential engine
          if std::env::var("VERIF_ONLY_ENGINE").map_or(true, |e| e != "conc" && e != "pair") {
            seq::check(&mut check);
          }
          engines.push("E1 sequential cache histories on sync+async handles against a reference model, H3 virtual clock (proptest)");
          let only = std::env::var("VERIF_ONLY_ENGINE").ok();
          if matches!(prop.as_str(), "C11" | "C13" | "C16") && only.as_deref().map_or(true, |e| e != "pair") {
            conc::check(&mut check);
            engines.push("E4 real threads, generated programs, quiescent-state and per-thread-order oracles");
          }
          if matches!(prop.as_str(), "C11" | "C12" | "C13" | "C16") && only.as_deref().map_or(true, |e| e != "conc") {
            pair::check(&mut check);
            engines.push("E4p two threads with generated pause points (key Hash/Eq/Clone evaluations, user closures, loader body), outcome compared with sequential reference executions");
            assumptions.extend(pair::assumptions());
          }
          assumptions.extend(seq::assumptions());
          rule = format!("{} || {}", seq::rule_for(&prop), pair::rule());
        }
        "C15" => {
          if std::env::var("VERIF_ONLY_ENGINE").map_or(true, |e| e != "pair") {
            seq::check(&mut check);
            loader::check(&mut check);
          }
          pair::check(&mut check);
          engines.push("E1 sequential histories (loads per miss), E4 gate-controlled loader waves on threads, E2 async waves on a harness TaskSpawner/executor, E4p two threads with generated pause points against sequential reference executions");
          assumptions.extend(seq::assumptions());
          assumptions.extend(loader::assumptions());
          assumptions.extend(pair::assumptions());
          rule = format!("{} || {}", loader::rule(), pair::rule());
        }
        _ => {
          eprintln!("property {prop} is not served by this binary");
          std::process::exit(2)
        }
      };
      if std::env::var("VERIF_SURVEY").is_ok() {
        let mut by_sig: std::collections::BTreeMap<String, (u64, String)> = Default::default();
        for (k, v) in &check.stats.excluded {
          if let Some(rest) = k.strip_prefix("SURVEY ") {
            let (sig, msg) = rest.split_once(" :: ").unwrap_or((rest, ""));
            let e = by_sig.entry(sig.to_string()).or_insert((0, msg.to_string()));
            e.0 += v;
          }
        }
        for (k, (n, m)) in by_sig {
          println!("{n:6}  {k}\n          e.g. {m}");
        }
        println!("other-property failures: {:#?}", check.stats.other_property_failures);
        println!("classes: {:#?}", check.stats.classes);
        std::process::exit(0);
      }
      check.finish(EvidenceMeta { level: "exploration", rule, engine: engines.join(" + "), assumptions, extra: Default::default() });
    }
    _ => {
      eprintln!("usage: cachex check <PROPERTY> <quick|thorough> | cachex replay <file>");
      std::process::exit(2)
    }
  }
}
