//! E4-threads — generated multi-thread programs on one cache, real scheduling (no delay points).
//! Only facts that are certain under any interleaving are asserted:
//!  * C11 register check with real-time order: a read must not return a write that was overwritten /
//!    removed by an operation that completed before the read started (global logical timestamps);
//!    compute atomicity (N x M increments all arrive); or_insert inserts at most once.
//!  * C13 at quiescence (all threads joined): capacity respected after maintenance, current_cost ==
//!    sum of resident costs (counter drift under racing insert / remove / clear / maintenance).
//!  * C16 at quiescence: no (key, write) notified twice, every notified value was written, a value
//!    removed by a user `remove` is notified Invalidated exactly once and never also Capacity/Expired.
//! Replays are statistical (the replay command repeats the program 200 times).

use crate::env::*;
use proptest::prelude::*;
use serde::{Deserialize, Serialize};
use std::collections::{BTreeMap, BTreeSet};
use std::sync::atomic::{AtomicU64, Ordering};
use std::sync::{Arc, Barrier, Mutex};
use std::time::Duration;
use vcore::{CaseReport, Check, Failure};

const COUNTER_KEY: u32 = 100;
const ORI_BASE: u32 = 200;

#[derive(Clone, Debug, Serialize, Deserialize)]
pub enum COp {
  Insert { k: u8, c: u8 },
  Remove { k: u8 },
  Get { k: u8 },
  Fetch { k: u8 },
  Compute,
  OrInsert { slot: u8 },
  MultiInsert { ks: Vec<u8> },
  Clear,
  Maint,
}

#[derive(Clone, Debug, Serialize, Deserialize)]
pub struct Scenario {
  pub pol: Pol,
  pub shards: usize,
  pub capacity: Option<u64>,
  pub collide: bool,
  pub maint_always: bool,
  pub listener: bool,
  pub threads: Vec<Vec<COp>>,
}

fn cop() -> impl Strategy<Value = COp> {
  prop_oneof![
    8 => (0u8..8, 0u8..4).prop_map(|(k, c)| COp::Insert { k, c }),
    5 => (0u8..8).prop_map(|k| COp::Remove { k }),
    4 => (0u8..8).prop_map(|k| COp::Get { k }),
    3 => (0u8..8).prop_map(|k| COp::Fetch { k }),
    5 => Just(COp::Compute),
    3 => (0u8..4).prop_map(|slot| COp::OrInsert { slot }),
    1 => proptest::collection::vec(0u8..8, 1..5).prop_map(|ks| COp::MultiInsert { ks }),
    3 => Just(COp::Maint),
  ]
}

pub fn scenario_strategy() -> impl Strategy<Value = Scenario> {
  let pol = prop_oneof![3 => Just(Pol::Default), 8 => (0u16..u16::MAX).prop_map(|i| Pol::Custom(crate::policy::ALL_KINDS[vcore::idx(i, 8)]))];
  (pol, prop_oneof![Just(1usize), Just(2), Just(8)], prop_oneof![2 => Just(None), 3 => Just(Some(5u64)), 2 => Just(Some(50u64))], any::<bool>(), any::<bool>(), any::<bool>(), any::<bool>())
    .prop_flat_map(|(pol, shards, capacity, collide, maint_always, listener, allow_clear)| {
      let ops = if allow_clear {
        prop_oneof![20 => cop(), 1 => Just(COp::Clear)].boxed()
      } else {
        cop().boxed()
      };
      proptest::collection::vec(proptest::collection::vec(ops, 5..40), 2..6).prop_map(move |threads| Scenario { pol, shards, capacity, collide, maint_always, listener, threads })
    })
}

#[derive(Clone, Debug)]
enum Ev {
  Write { key: u32, wid: u64, start: u64, end: u64 },
  /// remove/clear: `took` = the write id a remove returned
  Kill { key: Option<u32>, took: Option<u64>, start: u64, end: u64 },
  Read { key: u32, got: Option<Val>, start: u64 },
  ComputeOk,
  OrInsert { key: u32, mine: u64, got: Val },
}

fn fail(p: &str, api: &str, clause: &str, msg: String) -> Failure {
  Failure::new(p, format!("E4/cache/{api}/{clause}"), msg)
}

pub fn execute(s: &Scenario) -> Result<CaseReport, Failure> {
  let clock = case_clock();
  let next_wid = Arc::new(AtomicU64::new(1));
  let tick = Arc::new(AtomicU64::new(1));
  let costs: Arc<Mutex<BTreeMap<u64, u64>>> = Default::default();
  let mut b: TBuilder = TBuilder::new().hasher(FixedState { collide: s.collide }).shards(s.shards).janitor_tick_interval(Duration::from_millis(if s.maint_always { 2 } else { 50 })).maintenance_chance(if s.maint_always { 1 } else { 1 << 31 });
  b = match s.capacity {
    Some(c) => b.capacity(c),
    None => b.unbounded(),
  };
  b = apply_policy(b, s.pol, s.capacity, s.shards);
  let rec = if s.listener {
    let r = Arc::new(Recorder::default());
    b = b.eviction_listener(RecListener(r.clone()));
    Some(r)
  } else {
    None
  };
  let cache = b.build().expect("cache builds");
  let has_clear = s.threads.iter().flatten().any(|o| matches!(o, COp::Clear));
  let counter_mode = s.capacity.is_none() && !has_clear && !matches!(s.pol, Pol::Custom(crate::policy::Kind::TinyLfu) | Pol::Custom(crate::policy::Kind::Arc));
  // the counter entry (cost 0) for the compute-atomicity clause
  let cw = next_wid.fetch_add(1, Ordering::SeqCst);
  costs.lock().unwrap().insert(cw, 0);
  cache.insert(COUNTER_KEY, Val { key: COUNTER_KEY, wid: cw, n: 0 }, 0);
  let barrier = Arc::new(Barrier::new(s.threads.len()));
  let mut handles = Vec::new();
  for prog in s.threads.iter().cloned() {
    let (c, clock, next_wid, tick, costs, barrier) = (cache.clone(), clock.clone(), next_wid.clone(), tick.clone(), costs.clone(), barrier.clone());
    handles.push(std::thread::spawn(move || {
      fibre_cache::verif::install(Some(clock));
      let mut evs: Vec<Ev> = Vec::new();
      let t = || tick.fetch_add(1, Ordering::SeqCst);
      let cost_of = |c: u8| [0u64, 1, 2, 5][c as usize % 4];
      barrier.wait();
      for op in prog {
        match op {
          COp::Insert { k, c: ci } => {
            let wid = next_wid.fetch_add(1, Ordering::SeqCst);
            costs.lock().unwrap().insert(wid, cost_of(ci));
            let start = t();
            c.insert(k as u32, Val { key: k as u32, wid, n: 0 }, cost_of(ci));
            evs.push(Ev::Write { key: k as u32, wid, start, end: t() });
          }
          COp::MultiInsert { ks } => {
            let mut items = Vec::new();
            let mut ws = Vec::new();
            let uniq: BTreeSet<u8> = ks.iter().copied().collect();
            for k in uniq {
              let wid = next_wid.fetch_add(1, Ordering::SeqCst);
              costs.lock().unwrap().insert(wid, 1);
              items.push((k as u32, Val { key: k as u32, wid, n: 0 }, 1u64));
              ws.push((k as u32, wid));
            }
            let start = t();
            c.multi_insert(items);
            let end = t();
            for (key, wid) in ws {
              evs.push(Ev::Write { key, wid, start, end });
            }
          }
          COp::Remove { k } => {
            let start = t();
            let r = c.remove(&(k as u32));
            evs.push(Ev::Kill { key: Some(k as u32), took: r.map(|v| v.wid), start, end: t() });
          }
          COp::Clear => {
            let start = t();
            c.clear();
            evs.push(Ev::Kill { key: None, took: None, start, end: t() });
          }
          COp::Get { k } => {
            let start = t();
            let got = c.get(&(k as u32), |v| v.clone());
            evs.push(Ev::Read { key: k as u32, got, start });
          }
          COp::Fetch { k } => {
            let start = t();
            let got = c.fetch(&(k as u32)).map(|v| (*v).clone());
            evs.push(Ev::Read { key: k as u32, got, start });
          }
          COp::Compute => {
            if c.compute(&COUNTER_KEY, |v| v.n += 1) {
              evs.push(Ev::ComputeOk);
            }
          }
          COp::OrInsert { slot } => {
            let key = ORI_BASE + slot as u32;
            let wid = next_wid.fetch_add(1, Ordering::SeqCst);
            costs.lock().unwrap().insert(wid, 0);
            let got = c.entry(key).or_insert(Val { key, wid, n: 0 }, 0);
            evs.push(Ev::OrInsert { key, mine: wid, got: (*got).clone() });
          }
          COp::Maint => c.run_maintenance(),
        }
      }
      evs
    }));
  }
  let mut all: Vec<Ev> = Vec::new();
  for h in handles {
    match h.join() {
      Ok(e) => all.extend(e),
      Err(p) => {
        let m = crate::panic_msg(&p);
        std::mem::forget(cache);
        return Err(Failure::new(&crate::current_property(), format!("E4/cache/panic/{}", crate::panic_site(&m)), format!("a cache operation panicked: {m}")));
      }
    }
  }
  let mut rep = CaseReport::new();
  rep.class(format!("threads:{}", s.threads.len()));
  // ---- C11 register check --------------------------------------------------------------------
  let mut writes: BTreeMap<u64, (u32, u64, u64)> = BTreeMap::new();
  let mut by_key: BTreeMap<u32, Vec<(u64, u64, u64)>> = BTreeMap::new(); // key -> (wid, start, end)
  let mut kills: Vec<(Option<u32>, u64, u64)> = Vec::new();
  let mut users_of_key: BTreeMap<u32, u32> = BTreeMap::new();
  for e in &all {
    match e {
      Ev::Write { key, wid, start, end } => {
        writes.insert(*wid, (*key, *start, *end));
        by_key.entry(*key).or_default().push((*wid, *start, *end));
        *users_of_key.entry(*key).or_default() += 1;
      }
      Ev::Kill { key, start, end, .. } => kills.push((*key, *start, *end)),
      _ => {}
    }
  }
  for e in &all {
    if let Ev::Read { key, got: Some(v), start } = e {
      // C11: "it never returns another key's value"
      let w = match writes.get(&v.wid) {
        Some(w) if w.0 == *key && v.key == *key => *w,
        _ => return Err(fail("C11", "read", "returned_unknown_or_foreign_value", format!("read of key {key} returned {v:?}"))),
      };
      // C11: "an overwritten value after the overwrite completed": W -> W2 -> R in real-time order
      if let Some(w2) = by_key[key].iter().find(|w2| w2.0 != v.wid && w2.1 > w.2 && w2.2 < *start) {
        return Err(fail("C11", "read", "returned_overwritten_value", format!("key {key}: read started at t={start} returned write {} (completed t={}), but write {} ran entirely in between (t={}..{})", v.wid, w.2, w2.0, w2.1, w2.2)));
      }
      // C11: "or a removed value (no resurrection)"
      if let Some(k) = kills.iter().find(|k| (k.0.is_none() || k.0 == Some(*key)) && k.1 > w.2 && k.2 < *start) {
        return Err(fail("C11", "read", "returned_removed_value", format!("key {key}: read started at t={start} returned write {} (completed t={}), but a remove/clear ran entirely in between (t={}..{})", v.wid, w.2, k.1, k.2)));
      }
    }
  }
  if users_of_key.values().any(|n| *n >= 2) {
    rep.class("shared_key");
  }
  // C11: "concurrent read-modify-writes are never lost"
  let computes = all.iter().filter(|e| matches!(e, Ev::ComputeOk)).count() as u64;
  if counter_mode {
    match cache.peek(&COUNTER_KEY) {
      Some(v) if v.n == computes => {}
      other => return Err(fail("C11", "compute", "lost_update", format!("{computes} compute(+1) calls returned true on a key nobody removes, final value {other:?}"))),
    }
    if computes > 0 {
      rep.class("counter_checked");
    }
  }
  // C11: "or_insert inserts at most once": on keys nobody removes, every caller sees one write
  if counter_mode {
    let mut seen: BTreeMap<u32, BTreeSet<u64>> = BTreeMap::new();
    for e in &all {
      if let Ev::OrInsert { key, got, .. } = e {
        seen.entry(*key).or_default().insert(got.wid);
      }
    }
    if let Some((k, ws)) = seen.iter().find(|(_, ws)| ws.len() > 1) {
      return Err(fail("C11", "entry", "or_insert_inserted_twice", format!("callers of entry({k}).or_insert saw different values {ws:?} although the key was never removed")));
    }
    if !seen.is_empty() {
      rep.class("or_insert_checked");
    }
  }
  // ---- C13 at quiescence ---------------------------------------------------------------------
  let costs = costs.lock().unwrap().clone();
  let cost_of = |v: &Val| costs.get(&v.wid).copied();
  let mut purge = |_: &TCache| {};
  let api = format!("quiesce/{}", s.pol.name());
  match quiesce_check(&cache, s.capacity, &cost_of, &mut purge) {
    Ok(_) => {}
    Err(QuiesceErr::Inconclusive(_)) => rep.inconclusive += 1,
    Err(QuiesceErr::Violation(clause, msg)) => return Err(fail("C13", &api, clause, msg)),
  }
  // ---- C16 at quiescence ---------------------------------------------------------------------
  if let Some(rec) = &rec {
    if flush_listener(&cache, rec, &next_wid) {
      let log = rec.log.lock().unwrap().clone();
      let mut seen: BTreeMap<u64, Reason> = BTreeMap::new();
      let taken: BTreeSet<u64> = all.iter().filter_map(|e| if let Ev::Kill { took: Some(w), .. } = e { Some(*w) } else { None }).collect();
      for n in log.iter().filter(|n| n.key != SENTINEL_KEY) {
        // C16: "that key was resident with that value"
        if !costs.contains_key(&n.val.wid) || n.val.key != n.key {
          return Err(fail("C16", "listener", "unknown_value", format!("notification {n:?} carries a value nobody wrote under that key")));
        }
        // C16: "no removal is notified twice" (user remove racing janitor eviction of the same entry)
        if let Some(prev) = seen.insert(n.val.wid, n.reason) {
          return Err(fail("C16", "listener", "notified_twice", format!("key {} write {} notified twice ({prev:?}, then {:?})", n.key, n.val.wid, n.reason)));
        }
        // C16: "the reason matches the cause"
        match n.reason {
          Reason::Invalidated if !taken.contains(&n.val.wid) => return Err(fail("C16", "listener", "invalidated_without_remove", format!("key {} write {} notified Invalidated but no remove() returned it", n.key, n.val.wid))),
          Reason::Capacity | Reason::Expired if taken.contains(&n.val.wid) => return Err(fail("C16", "listener", "wrong_reason_for_user_remove", format!("key {} write {} was returned by a user remove() but notified {:?}", n.key, n.val.wid, n.reason))),
          Reason::Expired => return Err(fail("C16", "listener", "expired_reason_for_unexpired", format!("key {} write {} notified Expired in a cache without TTL/TTI", n.key, n.val.wid))),
          _ => {}
        }
      }
      // C16 completeness for user removes, decidable only when the queue (128) cannot have overflowed
      if log.len() < 100 {
        if let Some(w) = taken.iter().find(|w| !seen.contains_key(w)) {
          return Err(fail("C16", "listener", "missing_invalidated_notification", format!("remove() returned write {w} but the drained listener never heard of it ({} notifications in total)", log.len())));
        }
      }
      if !taken.is_empty() && seen.values().any(|r| *r == Reason::Capacity) {
        rep.class("remove_and_capacity_notifications");
      }
    } else {
      rep.inconclusive += 1;
    }
  }
  // NT (E4): ">= 2 threads touched the same key" (and for C13/C16 the program mixed writers with
  // removers / clear / maintenance, which every generated program with >= 2 threads on 8 keys does)
  rep.nontrivial = users_of_key.values().any(|n| *n >= 2);
  Ok(rep)
}

pub fn check(check: &mut Check) {
  let ctx = check.ctx.clone();
  let n = ctx.tier.pick(1000u64, 150_000u64);
  let n = std::env::var("VERIF_CONC_CASES").ok().and_then(|s| s.parse().ok()).unwrap_or(n); // development aid
  // E4 programs run under real scheduling: when vcore re-executes a program that already failed once
  // (shrinking, final confirmation) a passing run is repeated up to 100 times before it counts as
  // passing — otherwise a violation is reported under a `nonreproducible/...` signature.
  let failed_once: Arc<Mutex<BTreeSet<u64>>> = Default::default();
  let prop = ctx.property.clone();
  let out = vcore::drive(&ctx, &check.findings, 5, n, scenario_strategy, move |s| {
    let h = vcore::hash_str(&serde_json::to_string(s).unwrap_or_default());
    let mut r = execute(s);
    if r.is_ok() && failed_once.lock().unwrap().contains(&h) {
      for _ in 0..100 {
        r = execute(s);
        if r.is_err() {
          break;
        }
      }
    }
    if matches!(&r, Err(f) if f.property == prop) {
      failed_once.lock().unwrap().insert(h);
    }
    // development aid (never set by vf): dump failing programs, they are statistical
    if let (Err(f), Ok(dir)) = (&r, std::env::var("VERIF_CONC_DUMP")) {
      let rp = vcore::Replay { property: f.property.clone(), engine: crate::ENGINE_CONC.into(), signature: f.signature.clone(), message: f.message.clone(), seed: 0, scenario: serde_json::to_value(s).unwrap() };
      let _ = std::fs::create_dir_all(&dir);
      let _ = std::fs::write(format!("{dir}/{:08x}.json", vcore::hash_str(&serde_json::to_string(s).unwrap()) as u32), serde_json::to_string(&rp).unwrap());
    }
    r
  });
  check.absorb(crate::ENGINE_CONC, out);
  check.require_class("shared_key", 300);
}
