//! Scenario types and proptest strategies of the sequential cache engine (E1-cache).

use crate::env::Pol;
use crate::policy::Kind;
use proptest::prelude::*;
use serde::{Deserialize, Serialize};

pub const NK: u32 = 10;
pub const BULK_BASE: u32 = 1000;
pub const TTLS_MS: [u64; 5] = [10, 50, 1000, 3000, 10_000];
pub const WHEELS: [(u64, usize); 4] = [(10, 4), (10, 100), (1000, 60), (1000, 3)];
pub const BATCHES: [usize; 6] = [1, 2, 63, 64, 65, 0]; // 0 = default API (batch 64)
pub const BULKS: [u32; 8] = [1, 63, 64, 65, 128, 129, 500, 700];
pub const ADV_MS: [u64; 6] = [1, 9, 10, 49, 1000, 4000];

#[derive(Clone, Copy, Debug, Serialize, Deserialize, PartialEq, Eq)]
pub enum LoaderKind {
  None,
  Sync,
  /// async loader + harness TaskSpawner (executor thread)
  Spawner,
}

#[derive(Clone, Debug, Serialize, Deserialize)]
pub struct Cfg {
  pub pol: Pol,
  pub shards: usize,
  pub capacity: Option<u64>,
  pub ttl_ms: Option<u64>,
  pub tti_ms: Option<u64>,
  pub swr_ms: Option<u64>,
  /// maintenance_chance(1) (every insert) instead of 2^31 (never)
  pub maint_always: bool,
  pub introspect: bool,
  pub listener: bool,
  pub loader: LoaderKind,
  pub wheel: u8,
  pub collide: bool,
  pub load_cost: u8,
}

impl Cfg {
  pub fn cost(&self, i: u8) -> u64 {
    let cap = self.capacity.unwrap_or(7);
    [0, 1, 2, 5, cap, cap + 1][i as usize % 6]
  }
  /// May the cache forget an entry on its own?  (bounded, or a policy that evicts on admission)
  pub fn may_forget(&self) -> bool {
    self.capacity.is_some() || matches!(self.pol, Pol::Custom(Kind::TinyLfu) | Pol::Custom(Kind::Arc))
  }
}

#[derive(Clone, Copy, Debug, Serialize, Deserialize, PartialEq, Eq)]
pub enum IterKind {
  Iter,
  IterSnapshot,
  Stream,
  AsyncSnapshot,
  ToSnapshot,
  ToSnapshotAsync,
}

#[derive(Clone, Copy, Debug, Serialize, Deserialize, PartialEq, Eq)]
pub enum Adv {
  /// fixed step, index into ADV_MS
  Ms(u8),
  /// jump relative to the `which`-th pending deadline of the model: -1 ns, exactly, +1 ns
  Deadline { which: u16, delta: i8 },
}

#[derive(Clone, Debug, Serialize, Deserialize)]
pub enum Op {
  Insert { a: bool, k: u32, c: u8 },
  InsertTtl { a: bool, k: u32, c: u8, ttl: u8 },
  Remove { a: bool, k: u32 },
  Invalidate { a: bool, k: u32 },
  Clear { a: bool },
  MultiInsert { a: bool, items: Vec<(u32, u8)> },
  MultiRemove { a: bool, keys: Vec<u32>, inval: bool },
  OrInsert { a: bool, k: u32, c: u8, form: u8 },
  Compute { a: bool, k: u32, form: u8 },
  FetchWith { a: bool, k: u32 },
  Get { a: bool, k: u32 },
  Fetch { a: bool, k: u32 },
  Peek { a: bool, k: u32 },
  EntryGet { a: bool, k: u32 },
  MultiGet { a: bool, keys: Vec<u32> },
  Iter {
    kind: IterKind,
    batch: u8,
    adv: Option<(u16, Adv)>,
    /// Stream only: before yielding the item with one of these indices the interpreter holds the write
    /// lock of every shard (sync `entry()` guards), polls the stream once (a refill goes Pending),
    /// releases the guards and polls to completion
    #[serde(default)]
    held_at: Vec<u16>,
    /// IterSnapshot only (it reads every value at `next()` time): after the item with this index an
    /// overwrite (`false`) or remove (`true`) of the given key completes; every item yielded
    /// afterwards is judged as a read at that moment (C11: "iteration ... never returns an
    /// overwritten value after the overwrite completed, or a removed value")
    #[serde(default)]
    mutate: Option<(u16, u32, bool)>,
  },
  Maint { a: bool },
  Advance(Adv),
  Metrics { a: bool },
  Bulk { n: u8, c: u8, multi: bool },
  Restore {
    fmt: u8,
    pol: Pol,
    extra: Vec<(u32, u8)>,
    lifetimes: bool,
    asnap: bool,
    /// restore through `build_from_snapshot_async`
    #[serde(default)]
    abuild: bool,
    /// the restoring builder states the capacity (the snapshot's own) instead of leaving its default
    #[serde(default)]
    bcap: bool,
  },
  Quiesce,
  /// The next operation on the async handle finds its shard locks contended: the interpreter holds the
  /// write lock of every shard (sync `entry()` guards on keys nobody uses) while it polls the future once,
  /// then releases them and polls to completion.
  Contend,
  /// async `multi_remove` polled once while the interpreter holds the write lock of one shard (`hold`
  /// indexes the shards), then dropped (cancelled) before the guard is released.
  CancelMultiRemove { keys: Vec<u32>, hold: u16, inval: bool },
}

#[derive(Clone, Debug, Serialize, Deserialize)]
pub struct Scenario {
  pub cfg: Cfg,
  pub ops: Vec<Op>,
}

#[derive(Clone, Copy, Debug, PartialEq, Eq)]
pub enum Focus {
  C11,
  C12,
  C13,
  C15,
  C16,
  C17,
}

impl Focus {
  pub fn of(p: &str) -> Focus {
    match p {
      "C12" => Focus::C12,
      "C13" => Focus::C13,
      "C15" => Focus::C15,
      "C16" => Focus::C16,
      "C17" => Focus::C17,
      _ => Focus::C11,
    }
  }
}

/// Generator-side exclusions for open known findings (switched off when the witness passes).
#[derive(Clone, Copy, Debug, Default)]
pub struct Excl {
  /// keep the number of un-maintained inserts per shard below the 512-event buffer
  pub no_event_overflow: bool,
  /// never take a snapshot while the cache is over capacity / with custom policy mismatch
  pub no_restore_over_capacity: bool,
}

fn pol_strategy() -> impl Strategy<Value = Pol> {
  prop_oneof![
    3 => Just(Pol::Default),
    8 => (0u16..u16::MAX).prop_map(|i| Pol::Custom(crate::policy::ALL_KINDS[vcore::idx(i, 8)])),
  ]
}

fn opt_ms(p_some: u32, vals: &'static [u64]) -> impl Strategy<Value = Option<u64>> {
  prop_oneof![
    (100 - p_some) => Just(None),
    p_some => (0u16..u16::MAX).prop_map(move |i| Some(vals[vcore::idx(i, vals.len())])),
  ]
}

pub fn cfg_strategy(f: Focus) -> impl Strategy<Value = Cfg> {
  let (p_ttl, p_tti, p_bounded, p_listener, p_loader): (u32, u32, u32, u32, u32) = match f {
    Focus::C11 => (30, 20, 60, 15, 40),
    Focus::C12 => (75, 50, 35, 20, 50),
    Focus::C13 => (30, 20, 92, 15, 30),
    Focus::C15 => (50, 20, 50, 20, 99),
    Focus::C16 => (50, 35, 70, 99, 25),
    Focus::C17 => (40, 25, 60, 20, 10),
  };
  // shard counts the builder has to round (3, 5, 6, 12) are part of the domain: `shards(n)` accepts any n
  let shards = if f == Focus::C17 { prop_oneof![4 => Just(1usize), 4 => Just(2), 3 => Just(8), 1 => Just(64), 2 => Just(3), 1 => Just(6)].boxed() } else { prop_oneof![4 => Just(1usize), 4 => Just(2), 2 => Just(8), 2 => Just(3), 1 => Just(5), 1 => Just(12)].boxed() };
  (
    (pol_strategy(), shards, prop_oneof![(100 - p_bounded) => Just(None), p_bounded => prop_oneof![Just(Some(1u64)), Just(Some(5)), Just(Some(5)), Just(Some(50)), Just(Some(50)), Just(Some(300))]]),
    (opt_ms(p_ttl, &TTLS_MS), opt_ms(p_tti, &TTLS_MS), opt_ms(50, &TTLS_MS)),
    (prop::bool::weighted(0.2), prop::bool::weighted(0.15), prop::bool::weighted(p_listener as f64 / 100.0), prop::bool::weighted(p_loader as f64 / 100.0), any::<bool>()),
    (0u8..4, prop::bool::weighted(0.15), 0u8..6),
  )
    .prop_map(|((pol, shards, capacity), (ttl_ms, tti_ms, swr), (maint_always, introspect, listener, has_loader, sync_loader), (wheel, collide, load_cost))| {
      let loader = if !has_loader {
        LoaderKind::None
      } else if sync_loader {
        LoaderKind::Sync
      } else {
        LoaderKind::Spawner
      };
      // stale-while-revalidate needs a loader and a TTL; the combination with an idle timeout is
      // left out (the property does not say whether the grace window also extends idle expiry)
      let swr_ms = if loader != LoaderKind::None && ttl_ms.is_some() && tti_ms.is_none() { swr } else { None };
      // the wait for a background refresh of a sync loader reads metrics(): keep that side-effect free
      let introspect = introspect && !(loader == LoaderKind::Sync && swr_ms.is_some());
      Cfg { pol, shards, capacity, ttl_ms, tti_ms, swr_ms, maint_always, introspect, listener, loader, wheel, collide, load_cost }
    })
}

fn key() -> impl Strategy<Value = u32> {
  prop_oneof![12 => 0..NK, 1 => BULK_BASE..BULK_BASE + 700]
}

fn adv() -> impl Strategy<Value = Adv> {
  prop_oneof![
    2 => (0u8..6).prop_map(Adv::Ms),
    3 => (any::<u16>(), prop_oneof![Just(-1i8), Just(0), Just(1)]).prop_map(|(which, delta)| Adv::Deadline { which, delta }),
  ]
}

fn iter_kind() -> impl Strategy<Value = IterKind> {
  prop_oneof![Just(IterKind::Iter), Just(IterKind::IterSnapshot), Just(IterKind::Stream), Just(IterKind::AsyncSnapshot), Just(IterKind::ToSnapshot), Just(IterKind::ToSnapshotAsync)]
}

pub fn op_strategy(f: Focus) -> BoxedStrategy<Op> {
  // weights: [write, remove, clear, multi, entry, compute, fetch_with, read, iter, maint, advance, metrics, bulk, restore, quiesce, contend, cancelled multi_remove]
  let w: [u32; 17] = match f {
    Focus::C11 => [14, 6, 1, 4, 5, 5, 4, 24, 4, 4, 3, 1, 1, 0, 1, 3, 1],
    Focus::C12 => [12, 2, 1, 2, 5, 2, 5, 26, 5, 8, 16, 1, 1, 1, 1, 3, 1],
    Focus::C13 => [18, 6, 2, 5, 4, 2, 4, 8, 1, 7, 4, 2, 3, 0, 3, 3, 2],
    Focus::C15 => [6, 8, 1, 1, 2, 1, 24, 8, 1, 4, 10, 1, 0, 0, 1, 3, 1],
    Focus::C16 => [16, 10, 1, 5, 3, 1, 3, 8, 1, 10, 8, 1, 1, 0, 2, 3, 6],
    Focus::C17 => [14, 3, 1, 4, 2, 1, 1, 4, 20, 3, 5, 1, 6, 8, 1, 3, 1],
  };
  let w: [u32; 17] = w.map(|x| x.max(1)); // proptest unions reject weight 0
  let a = || any::<bool>();
  prop_oneof![
    w[0] => prop_oneof![
      3 => (a(), key(), 0u8..6).prop_map(|(a, k, c)| Op::Insert { a, k, c }),
      1 => (a(), key(), 0u8..6, 0u8..5).prop_map(|(a, k, c, ttl)| Op::InsertTtl { a, k, c, ttl }),
    ],
    w[1] => prop_oneof![(a(), key()).prop_map(|(a, k)| Op::Remove { a, k }), (a(), key()).prop_map(|(a, k)| Op::Invalidate { a, k })],
    w[2] => a().prop_map(|a| Op::Clear { a }),
    w[3] => prop_oneof![
      (a(), proptest::collection::vec((key(), 0u8..6), 0..8)).prop_map(|(a, items)| Op::MultiInsert { a, items }),
      (a(), proptest::collection::vec(key(), 0..8), any::<bool>()).prop_map(|(a, keys, inval)| Op::MultiRemove { a, keys, inval }),
    ],
    w[4] => prop_oneof![
      2 => (a(), key(), 0u8..6, 0u8..3).prop_map(|(a, k, c, form)| Op::OrInsert { a, k, c, form }),
      1 => (a(), key()).prop_map(|(a, k)| Op::EntryGet { a, k }),
    ],
    w[5] => (a(), key(), 0u8..4).prop_map(|(a, k, form)| Op::Compute { a, k, form }),
    w[6] => (a(), key()).prop_map(|(a, k)| Op::FetchWith { a, k }),
    w[7] => prop_oneof![
      (a(), key()).prop_map(|(a, k)| Op::Get { a, k }),
      (a(), key()).prop_map(|(a, k)| Op::Fetch { a, k }),
      (a(), key()).prop_map(|(a, k)| Op::Peek { a, k }),
      (a(), key()).prop_map(|(a, k)| Op::EntryGet { a, k }),
      (a(), proptest::collection::vec(key(), 0..6)).prop_map(|(a, keys)| Op::MultiGet { a, keys }),
    ],
    w[8] => (iter_kind(), 0u8..6, proptest::option::weighted(0.35, (0u16..200, adv())), proptest::option::weighted(0.4, proptest::collection::vec(prop_oneof![3 => 0u16..8, 2 => 60u16..70, 1 => 0u16..200], 1..4)), proptest::option::weighted(0.5, (prop_oneof![4 => 1u16..4, 1 => 1u16..70], key(), any::<bool>())))
      .prop_map(|(kind, batch, adv, held, mutate)| Op::Iter { kind, batch, adv, held_at: if kind == IterKind::Stream { held.unwrap_or_default() } else { vec![] }, mutate: if kind == IterKind::IterSnapshot { mutate } else { None } }),
    w[9] => a().prop_map(|a| Op::Maint { a }),
    w[10] => adv().prop_map(Op::Advance),
    w[11] => a().prop_map(|a| Op::Metrics { a }),
    w[12] => (0u8..8, 0u8..6, any::<bool>()).prop_map(|(n, c, multi)| Op::Bulk { n, c, multi }),
    w[13] => (0u8..3, pol_strategy(), proptest::collection::vec((0u32..40, 0u8..6), 0..12), any::<bool>(), any::<bool>(), any::<bool>(), prop::bool::weighted(0.3))
      .prop_map(|(fmt, pol, extra, lifetimes, asnap, abuild, bcap)| Op::Restore { fmt, pol, extra, lifetimes, asnap, abuild, bcap }),
    w[14] => Just(Op::Quiesce),
    w[15] => Just(Op::Contend),
    w[16] => (proptest::collection::vec(key(), 1..8), any::<u16>(), any::<bool>()).prop_map(|(keys, hold, inval)| Op::CancelMultiRemove { keys, hold, inval }),
  ]
  .boxed()
}

pub fn scenario_strategy(f: Focus, max_ops: usize, excl: Excl) -> impl Strategy<Value = Scenario> {
  (cfg_strategy(f), proptest::collection::vec(op_strategy(f), 0..max_ops)).prop_map(move |(cfg, mut ops)| {
    // an op that needs a loader is only generated for caches that have one (the API panics or
    // blocks without a loader: precondition every real caller respects)
    if cfg.loader == LoaderKind::None {
      ops.retain(|o| !matches!(o, Op::FetchWith { .. }));
    }
    if excl.no_event_overflow && ops.iter().any(|o| matches!(o, Op::Restore { .. })) {
      // a restore re-announces every restored entry through the same 512-slot buffer
      for o in ops.iter_mut() {
        if let Op::Bulk { n, .. } = o {
          if BULKS[*n as usize % 8] > 400 {
            *n = 5; // 129
          }
        }
      }
    }
    if excl.no_event_overflow {
      // exclusion by construction (open finding: lossy 512-event write buffer): insert a
      // maintenance fixpoint (Quiesce) before a shard could have 512 unprocessed write events
      let mut pending = 0u32;
      let mut out = Vec::with_capacity(ops.len());
      for o in ops {
        let add = match &o {
          Op::Bulk { n, .. } => BULKS[*n as usize % 8] + 1,
          Op::MultiInsert { items, .. } => items.len() as u32 + 1,
          Op::Maint { .. } | Op::Quiesce => 0,
          _ => 2, // an op plus a possible listener sentinel
        };
        if matches!(o, Op::Quiesce) {
          pending = 0;
        }
        if pending + add > 500 {
          out.push(Op::Quiesce);
          pending = 0;
        }
        pending += add;
        out.push(o);
      }
      ops = out;
    }
    if excl.no_restore_over_capacity {
      let mut out = Vec::with_capacity(ops.len());
      for o in ops {
        if matches!(o, Op::Restore { .. }) {
          out.push(Op::Quiesce);
        }
        out.push(o);
      }
      ops = out;
    }
    Scenario { cfg, ops }
  })
}
