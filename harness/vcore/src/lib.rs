//! vcore — shared plumbing for every check: seeds and tiers, the proptest driver (generation,
//! shrinking, parallel shards), counters and evidence files, the known-findings protocol and
//! replay files.  No check keeps its own copies of any of this.

use proptest::strategy::{Strategy, ValueTree};
use proptest::test_runner::{Config, RngSeed, TestCaseError, TestError, TestRunner};
use serde::{de::DeserializeOwned, Deserialize, Serialize};
use serde_json::{json, Value};
use std::collections::{BTreeMap, BTreeSet};
use std::hash::{Hash, Hasher};
use std::path::{Path, PathBuf};
use std::sync::atomic::{AtomicBool, Ordering};
use std::sync::{Arc, Mutex};
use std::time::Instant;

pub use proptest;
pub use serde_json;

pub const VERIF_ROOT: &str = "/verif";

// ---------------------------------------------------------------------------------------------
// Tier / seed / context
// ---------------------------------------------------------------------------------------------

#[derive(Clone, Copy, Debug, PartialEq, Eq)]
pub enum Tier {
  Quick,
  Thorough,
}

impl Tier {
  pub fn name(self) -> &'static str {
    match self {
      Tier::Quick => "quick",
      Tier::Thorough => "thorough",
    }
  }
  pub fn pick<T>(self, quick: T, thorough: T) -> T {
    match self {
      Tier::Quick => quick,
      Tier::Thorough => thorough,
    }
  }
}

#[derive(Clone, Debug)]
pub struct Ctx {
  pub property: String,
  pub tier: Tier,
  pub seed: u64,
  pub start: Instant,
  pub threads: usize,
}

impl Ctx {
  /// `args`: `<PROPERTY> <quick|thorough>`; seed from VERIF_SEED (default 1), tier may be
  /// overridden by VERIF_TIER.
  pub fn from_args(property: &str, tier: &str) -> Ctx {
    let tier_s = std::env::var("VERIF_TIER").unwrap_or_else(|_| tier.to_string());
    let tier = if tier_s.starts_with('t') { Tier::Thorough } else { Tier::Quick };
    let seed = std::env::var("VERIF_SEED").ok().and_then(|s| s.trim().parse::<u64>().ok()).unwrap_or(1);
    let threads = std::env::var("VERIF_THREADS")
      .ok()
      .and_then(|s| s.parse().ok())
      .unwrap_or_else(|| std::thread::available_parallelism().map(|n| n.get()).unwrap_or(4).min(16));
    Ctx { property: property.to_string(), tier, seed, start: Instant::now(), threads }
  }
  pub fn wall(&self) -> f64 {
    self.start.elapsed().as_secs_f64()
  }
}

/// splitmix64 — used only to *derive* sub-seeds from VERIF_SEED (never to make choices inside
/// a property; those all come from proptest or from fuzzer bytes).
pub fn mix(a: u64, b: u64) -> u64 {
  let mut z = a.wrapping_add(0x9E3779B97F4A7C15).wrapping_add(b.wrapping_mul(0xD1B54A32D192ED03));
  z = (z ^ (z >> 30)).wrapping_mul(0xBF58476D1CE4E5B9);
  z = (z ^ (z >> 27)).wrapping_mul(0x94D049BB133111EB);
  z ^ (z >> 31)
}

pub fn hash_str(s: &str) -> u64 {
  let mut h = std::collections::hash_map::DefaultHasher::new();
  s.hash(&mut h);
  h.finish()
}

/// Monotone index map (shrinks toward 0): `i` uniformly in u16 → `0..len`.
pub fn idx(i: u16, len: usize) -> usize {
  if len == 0 {
    0
  } else {
    ((i as usize) * len) >> 16
  }
}

// ---------------------------------------------------------------------------------------------
// Failures and known findings
// ---------------------------------------------------------------------------------------------

/// An oracle clause that failed.  `signature` is specific (engine / flavour / operation form /
/// clause) and is what known findings are keyed on.
#[derive(Clone, Debug, Serialize, Deserialize, PartialEq, Eq)]
pub struct Failure {
  pub property: String,
  pub signature: String,
  pub message: String,
}

impl Failure {
  pub fn new(property: &str, signature: impl Into<String>, message: impl Into<String>) -> Failure {
    Failure { property: property.to_string(), signature: signature.into(), message: message.into() }
  }
}

#[derive(Clone, Debug, Serialize, Deserialize)]
pub struct FindingEntry {
  pub property: String,
  pub id: String,
  /// "open" or "fixed"
  pub status: String,
  /// exact failure signatures covered by this finding (open entries only suppress these)
  #[serde(default)]
  pub signatures: Vec<String>,
  pub description: String,
  /// paths (relative to /verif) of minimal replays that exhibit it
  #[serde(default)]
  pub witnesses: Vec<String>,
  /// for fixed entries: the fix commit in /repo
  #[serde(default)]
  pub commit: Option<String>,
}

#[derive(Clone, Debug, Default, Serialize, Deserialize)]
pub struct Findings {
  pub findings: Vec<FindingEntry>,
}

impl Findings {
  pub fn load() -> Findings {
    // /verif/known_findings.json plus fragments /verif/known_findings.d/*.json (same format)
    let mut all = Findings::default();
    let mut files = vec![Path::new(VERIF_ROOT).join("known_findings.json")];
    if let Ok(rd) = std::fs::read_dir(Path::new(VERIF_ROOT).join("known_findings.d")) {
      let mut extra: Vec<PathBuf> = rd.filter_map(|e| e.ok()).map(|e| e.path()).filter(|p| p.extension().map(|x| x == "json").unwrap_or(false)).collect();
      extra.sort();
      files.extend(extra);
    }
    for p in files {
      if let Ok(s) = std::fs::read_to_string(&p) {
        let f: Findings = serde_json::from_str(&s).unwrap_or_else(|e| {
          eprintln!("{} unreadable: {e}", p.display());
          std::process::exit(2)
        });
        all.findings.extend(f.findings);
      }
    }
    all
  }
  /// The open finding (if any) whose signature list contains `sig` for `property`.
  pub fn open_for(&self, property: &str, sig: &str) -> Option<&FindingEntry> {
    self.findings.iter().find(|f| f.status == "open" && f.property == property && f.signatures.iter().any(|s| s == sig))
  }
  pub fn open_entries(&self, property: &str) -> Vec<&FindingEntry> {
    self.findings.iter().filter(|f| f.status == "open" && f.property == property).collect()
  }
}

// ---------------------------------------------------------------------------------------------
// Evidence
// ---------------------------------------------------------------------------------------------

#[derive(Default)]
pub struct Stats {
  pub evaluations: u64,
  pub nontrivial: BTreeSet<u64>,
  pub nontrivial_total: u64,
  pub classes: BTreeMap<String, u64>,
  pub excluded: BTreeMap<String, u64>,
  pub other_property_failures: BTreeMap<String, u64>,
  pub inconclusive: u64,
  pub samples: Vec<Value>,
  pub nt_samples: Vec<Value>,
}

impl Stats {
  pub fn merge(&mut self, o: Stats) {
    self.evaluations += o.evaluations;
    self.nontrivial_total += o.nontrivial_total;
    self.nontrivial.extend(o.nontrivial);
    for (k, v) in o.classes {
      *self.classes.entry(k).or_default() += v;
    }
    for (k, v) in o.excluded {
      *self.excluded.entry(k).or_default() += v;
    }
    for (k, v) in o.other_property_failures {
      *self.other_property_failures.entry(k).or_default() += v;
    }
    self.inconclusive += o.inconclusive;
    for s in o.samples {
      if self.samples.len() < 3 {
        self.samples.push(s)
      }
    }
    for s in o.nt_samples {
      if self.nt_samples.len() < 3 {
        self.nt_samples.push(s)
      }
    }
  }
  pub fn class(&mut self, name: &str) {
    *self.classes.entry(name.to_string()).or_default() += 1;
  }
  pub fn class_n(&mut self, name: &str, n: u64) {
    *self.classes.entry(name.to_string()).or_default() += n;
  }
}

/// What one executed case reports back.
#[derive(Default, Clone, Debug)]
pub struct CaseReport {
  pub nontrivial: bool,
  pub classes: Vec<String>,
  /// number of executions this case stands for (E3: schedules run); default 1
  pub executions: u64,
  pub inconclusive: u64,
}

impl CaseReport {
  pub fn new() -> CaseReport {
    CaseReport { executions: 1, ..Default::default() }
  }
  pub fn class(&mut self, c: impl Into<String>) {
    let c = c.into();
    if !self.classes.contains(&c) {
      self.classes.push(c)
    }
  }
}

pub struct EvidenceMeta {
  pub level: &'static str,
  pub rule: String,
  pub engine: String,
  pub assumptions: Vec<String>,
  pub extra: BTreeMap<String, Value>,
}

pub fn write_evidence(ctx: &Ctx, meta: &EvidenceMeta, stats: &Stats, violations: u64, known: &[String]) {
  let mut samples: Vec<Value> = Vec::new();
  samples.extend(stats.nt_samples.iter().cloned());
  samples.extend(stats.samples.iter().cloned());
  samples.truncate(5);
  let mut coverage = serde_json::Map::new();
  coverage.insert("evaluations".into(), json!(stats.evaluations));
  coverage.insert("distinct_nontrivial".into(), json!(stats.nontrivial.len()));
  coverage.insert("nontrivial_total_incl_duplicates".into(), json!(stats.nontrivial_total));
  coverage.insert("rule".into(), json!(meta.rule));
  coverage.insert("samples".into(), Value::Array(samples));
  coverage.insert("classes".into(), json!(stats.classes));
  coverage.insert("excluded_by_known_finding".into(), json!(stats.excluded));
  coverage.insert("failures_attributed_to_other_properties".into(), json!(stats.other_property_failures));
  coverage.insert("inconclusive".into(), json!(stats.inconclusive));
  coverage.insert("engine".into(), json!(meta.engine));
  coverage.insert("known_findings_reported".into(), json!(known));
  for (k, v) in &meta.extra {
    coverage.insert(k.clone(), v.clone());
  }
  let ev = json!({
    "property_id": ctx.property,
    "tier": ctx.tier.name(),
    "seed": ctx.seed,
    "level": meta.level,
    "coverage": Value::Object(coverage),
    "assumptions": meta.assumptions,
    "wall_s": (ctx.wall() * 1000.0).round() / 1000.0,
    "violations": violations,
  });
  // a property served by several binaries: each writes a part, `vf` merges them
  let (dir, name) = match std::env::var("VERIF_EVIDENCE_PART") {
    Ok(part) if !part.is_empty() => (Path::new(VERIF_ROOT).join("evidence").join("parts"), format!("{}-{}.json", ctx.property, part)),
    _ => (Path::new(VERIF_ROOT).join("evidence"), format!("{}.json", ctx.property)),
  };
  let _ = std::fs::create_dir_all(&dir);
  let p = dir.join(name);
  std::fs::write(&p, serde_json::to_string_pretty(&ev).unwrap()).expect("write evidence");
}

// ---------------------------------------------------------------------------------------------
// Replay files
// ---------------------------------------------------------------------------------------------

#[derive(Clone, Debug, Serialize, Deserialize)]
pub struct Replay {
  pub property: String,
  pub engine: String,
  pub signature: String,
  pub message: String,
  pub seed: u64,
  pub scenario: Value,
}

pub fn write_replay(r: &Replay) -> PathBuf {
  let dir = Path::new(VERIF_ROOT).join("replays").join(&r.property);
  let _ = std::fs::create_dir_all(&dir);
  let body = serde_json::to_string_pretty(r).unwrap();
  let mut name: String =
    r.signature.chars().map(|c| if c.is_ascii_alphanumeric() { c } else { '_' }).collect();
  name.truncate(80);
  let p = dir.join(format!("{}-{:08x}.json", name, hash_str(&serde_json::to_string(&r.scenario).unwrap()) as u32));
  std::fs::write(&p, body).expect("write replay");
  p
}

pub fn read_replay(path: &str) -> Replay {
  let p = if Path::new(path).is_absolute() { PathBuf::from(path) } else { Path::new(VERIF_ROOT).join(path) };
  let s = std::fs::read_to_string(&p).unwrap_or_else(|e| {
    eprintln!("cannot read replay {}: {e}", p.display());
    std::process::exit(2)
  });
  let r: Replay = serde_json::from_str(&s).unwrap_or_else(|e| {
    eprintln!("bad replay {}: {e}", p.display());
    std::process::exit(2)
  });
  // the crash / abort guards report a fault during the replay against this case
  let cc = (r.property.clone(), r.engine.clone(), r.scenario.to_string());
  if let Ok(mut g) = ANY_CASE.try_lock() {
    *g = Some(cc.clone());
  }
  CURRENT_CASE.with(|c| *c.borrow_mut() = Some(cc));
  r
}

// ---------------------------------------------------------------------------------------------
// Abort guard: a panic raised while another panic is unwinding (typically a destructor of a
// corrupted object under test) aborts the process before any verdict can be printed.  The
// guard's panic hook sees that second panic first, saves the scenario that was running as a
// replay, prints the VIOLATION line and exits 1.
// ---------------------------------------------------------------------------------------------

thread_local! {
  static CURRENT_CASE: std::cell::RefCell<Option<(String, String, String)>> = const { std::cell::RefCell::new(None) }; // (property, engine, scenario json)
}
static CURRENT_ENGINE: Mutex<String> = Mutex::new(String::new());
/// the case most recently started by any driver thread (fallback for faults on helper threads)
static ANY_CASE: Mutex<Option<(String, String, String)>> = Mutex::new(None);

pub fn set_current_engine(name: &str) {
  *CURRENT_ENGINE.lock().unwrap() = name.to_string();
}

thread_local! {
  static LAST_PANICS: std::cell::RefCell<Vec<String>> = std::cell::RefCell::new(Vec::new());
}

/// A panic that cannot unwind (a second panic escaping a destructor while the first one is
/// unwinding: "panic in a destructor during cleanup", or a panic in a nounwind frame) aborts the
/// process.  Inside the code under test that is a defect (a user's process dies instead of
/// getting a panic it could catch), and without this guard the check would die with SIGABRT and
/// report nothing.  The hook turns exactly that situation into a
/// VIOLATION of the property under check with the running scenario as replay.  Ordinary
/// (catchable) panics are only remembered (the last few messages go into the report) and are
/// judged by the engines' own `catch_unwind` sites.
pub fn install_abort_guard(quiet: bool) {
  install_crash_guard();
  let prev = std::panic::take_hook();
  std::panic::set_hook(Box::new(move |info| {
    let msg = info.payload().downcast_ref::<&str>().map(|s| s.to_string()).or_else(|| info.payload().downcast_ref::<String>().cloned()).unwrap_or_else(|| "panic".into());
    // `PanicHookInfo::can_unwind` is unstable; the two non-unwinding panics std raises are
    // recognised by their fixed messages instead
    let text = info.to_string();
    let can_unwind = !(text.contains("panic in a destructor during cleanup") || text.contains("panic in a function that cannot unwind"));
    if can_unwind {
      LAST_PANICS.with(|f| {
        let mut f = f.borrow_mut();
        if f.len() >= 2 {
          f.remove(0);
        }
        f.push(msg.chars().take(300).collect());
      });
    } else {
      let before = LAST_PANICS.with(|f| f.borrow().clone());
      let case = CURRENT_CASE.with(|c| c.borrow().clone());
      if let Some((property, engine, scenario)) = case {
        let site_src = before.last().cloned().unwrap_or_else(|| msg.clone());
        let site: String = site_src.chars().take(48).map(|c| if c.is_ascii_alphanumeric() { c } else { '_' }).collect();
        let rep = Replay {
          property: property.clone(),
          engine,
          signature: format!("abort/double_panic/{site}"),
          message: format!("non-unwinding panic inside the code under test, the process would abort ({msg}); the panics before it: {before:?}"),
          seed: 0,
          scenario: serde_json::from_str(&scenario).unwrap_or(Value::Null),
        };
        let p = write_replay(&rep);
        println!("  {} :: {}", rep.signature, rep.message);
        println!("VIOLATION property={} replay={}", property, p.display());
        std::process::exit(1);
      }
    }
    if !quiet {
      prev(info);
    }
  }));
}

// ---------------------------------------------------------------------------------------------
// Crash guard: a memory fault (SIGSEGV / SIGBUS / SIGILL) or abort() raised while a generated
// case is running would kill the check without a verdict.  On the unchanged tree no case
// faults; a fault inside the code under test during legal API use (a value read from a slot
// that was never written, a freed node dereferenced, unbounded recursion) is a defect.  The
// handler saves the scenario that was running on the faulting thread as the replay, prints the
// VIOLATION line and exits 1.  Each driver thread gets an alternate signal stack so that stack
// overflows are reported too.
// ---------------------------------------------------------------------------------------------

extern "C" fn crash_handler(sig: libc::c_int, _info: *mut libc::siginfo_t, _ctx: *mut libc::c_void) {
  let name = match sig {
    libc::SIGSEGV => "SIGSEGV",
    libc::SIGBUS => "SIGBUS",
    libc::SIGILL => "SIGILL",
    libc::SIGABRT => "SIGABRT",
    _ => "signal",
  };
  // not async-signal-safe in the strict sense, but the process is lost anyway; if this itself
  // faults the default action kills the process (SA_RESETHAND)
  let mut case = CURRENT_CASE.try_with(|c| c.try_borrow().ok().and_then(|c| c.clone())).ok().flatten();
  let mut helper = false;
  if case.is_none() {
    // a thread spawned by the case (real-thread engines): blame the most recently started case
    case = ANY_CASE.try_lock().ok().and_then(|g| g.clone());
    helper = true;
  }
  if let Some((property, engine, scenario)) = case {
    let rep = Replay {
      property: property.clone(),
      engine,
      signature: format!("crash/{name}"),
      message: format!("{name} while this generated case was running{}: memory fault, stack overflow or abort inside the code under test", if helper { " (fault on a helper thread; the case is the most recently started one)" } else { "" }),
      seed: 0,
      scenario: serde_json::from_str(&scenario).unwrap_or(Value::Null),
    };
    let p = write_replay(&rep);
    println!("  {} :: {}", rep.signature, rep.message);
    println!("VIOLATION property={} replay={}", property, p.display());
    unsafe { libc::_exit(1) };
  }
  eprintln!("{name} outside a generated case (harness or infrastructure fault)");
  unsafe { libc::_exit(2) };
}

/// Give the calling thread an alternate signal stack (needed to report stack overflows).
pub fn install_altstack() {
  const SZ: usize = 1 << 17;
  unsafe {
    let mem = libc::mmap(std::ptr::null_mut(), SZ, libc::PROT_READ | libc::PROT_WRITE, libc::MAP_PRIVATE | libc::MAP_ANONYMOUS, -1, 0);
    if mem == libc::MAP_FAILED {
      return;
    }
    let ss = libc::stack_t { ss_sp: mem, ss_flags: 0, ss_size: SZ };
    libc::sigaltstack(&ss, std::ptr::null_mut());
  }
}

pub fn install_crash_guard() {
  install_altstack();
  unsafe {
    let mut sa: libc::sigaction = std::mem::zeroed();
    sa.sa_sigaction = crash_handler as usize;
    sa.sa_flags = libc::SA_SIGINFO | libc::SA_ONSTACK | libc::SA_RESETHAND;
    libc::sigemptyset(&mut sa.sa_mask);
    for s in [libc::SIGSEGV, libc::SIGBUS, libc::SIGILL, libc::SIGABRT] {
      libc::sigaction(s, &sa, std::ptr::null_mut());
    }
  }
}

// ---------------------------------------------------------------------------------------------
// The proptest driver
// ---------------------------------------------------------------------------------------------

/// signature a replay closure returns for a replay of an engine it does not contain
pub const FOREIGN_ENGINE: &str = "__foreign_engine__";

pub struct Found<S> {
  pub scenario: S,
  pub failure: Failure,
}

pub struct RunOutcome<S> {
  pub stats: Stats,
  /// violations (failures of *this* property not covered by an open known finding), minimal
  pub violations: Vec<Found<S>>,
}

/// Run `cases` generated cases of `strategy` split over `ctx.threads` shards, each shard a
/// proptest `TestRunner` with a seed derived from (VERIF_SEED, stream, shard).  `exec` runs one
/// scenario and returns its report or the first oracle failure.  Failures whose property is
/// not `ctx.property` are counted and the case abandoned (they belong to another check);
/// failures covered by an open known finding are counted as excluded; anything else stops the
/// shard, is shrunk by proptest, and is returned.
pub fn drive<S, St, M, F>(ctx: &Ctx, findings: &Findings, stream: u64, cases: u64, mk_strategy: M, exec: F) -> RunOutcome<S>
where
  S: Clone + std::fmt::Debug + Serialize + Send + 'static,
  St: Strategy<Value = S>,
  M: Fn() -> St + Send + Sync + 'static,
  F: Fn(&S) -> Result<CaseReport, Failure> + Send + Sync + 'static,
{
  let shards = ctx.threads.max(1).min(cases.max(1) as usize);
  let per = (cases + shards as u64 - 1) / shards as u64;
  let exec = Arc::new(exec);
  let mk_strategy = Arc::new(mk_strategy);
  let stop = Arc::new(AtomicBool::new(false));
  let total = Arc::new(Mutex::new(Stats::default()));
  let viols: Arc<Mutex<Vec<Found<S>>>> = Arc::new(Mutex::new(Vec::new()));
  let mut handles = Vec::new();
  // watchdog: a case that does not finish within HANG_SECS is reported as inconclusive
  // (exit 2) together with the scenario that was running — never as a violation.
  let hang_secs: u64 = std::env::var("VERIF_HANG_SECS").ok().and_then(|s| s.parse().ok()).unwrap_or(60);
  let beats: Arc<Vec<Mutex<(Instant, Option<String>)>>> = Arc::new((0..shards).map(|_| Mutex::new((Instant::now(), None))).collect());
  let done = Arc::new(AtomicBool::new(false));
  {
    let beats = beats.clone();
    let done = done.clone();
    let prop = ctx.property.clone();
    std::thread::spawn(move || loop {
      std::thread::sleep(std::time::Duration::from_millis(500));
      if done.load(Ordering::Relaxed) {
        return;
      }
      for b in beats.iter() {
        let g = b.lock().unwrap();
        if let (t, Some(sc)) = (&g.0, &g.1) {
          if t.elapsed().as_secs() >= hang_secs {
            let dir = Path::new(VERIF_ROOT).join("replays").join("_hang");
            let _ = std::fs::create_dir_all(&dir);
            let p = dir.join(format!("{}-{:08x}.json", prop, hash_str(sc) as u32));
            let _ = std::fs::write(&p, sc);
            println!("INCONCLUSIVE: property={} a generated case did not finish within {}s (hang); scenario saved to {}", prop, hang_secs, p.display());
            std::process::exit(2);
          }
        }
      }
    });
  }
  for shard in 0..shards {
    let ctx = ctx.clone();
    let beats = beats.clone();
    let findings = findings.clone();
    let exec = exec.clone();
    let mk_strategy = mk_strategy.clone();
    let stop = stop.clone();
    let total = total.clone();
    let viols = viols.clone();
    let h = std::thread::Builder::new()
      .name(format!("shard{shard}"))
      .stack_size(64 << 20)
      .spawn(move || {
        install_altstack();
        let seed = mix(mix(ctx.seed, stream), shard as u64);
        let cfg = Config {
          cases: per as u32,
          failure_persistence: None,
          rng_seed: RngSeed::Fixed(seed),
          max_shrink_iters: 4000,
          max_global_rejects: 1 << 20,
          ..Config::default()
        };
        let mut runner = TestRunner::new(cfg);
        let survey = std::env::var("VERIF_SURVEY").is_ok();
        let strategy = mk_strategy();
        let stats = std::cell::RefCell::new(Stats::default());
        let failed = std::cell::Cell::new(false);
        let first_failing: std::cell::RefCell<Option<(S, Failure)>> = std::cell::RefCell::new(None);
        let res = runner.run(&strategy, |s| {
          if !failed.get() && stop.load(Ordering::Relaxed) {
            // another shard found a violation: finish quickly
            return Ok(());
          }
          let counting = !failed.get();
          {
            let js = serde_json::to_string(&s).unwrap_or_default();
            let cc = (ctx.property.clone(), CURRENT_ENGINE.lock().unwrap().clone(), js.clone());
            if let Ok(mut g) = ANY_CASE.try_lock() {
              *g = Some(cc.clone());
            }
            CURRENT_CASE.with(|c| *c.borrow_mut() = Some(cc));
            let mut g = beats[shard].lock().unwrap();
            g.0 = Instant::now();
            g.1 = Some(js);
          }
          let r = exec(&s);
          beats[shard].lock().unwrap().1 = None;
          match r {
            Ok(rep) => {
              if counting {
                let mut st = stats.borrow_mut();
                st.evaluations += rep.executions.max(1);
                st.inconclusive += rep.inconclusive;
                for c in &rep.classes {
                  st.class(c);
                }
                let js = serde_json::to_value(&s).unwrap_or(Value::Null);
                if rep.nontrivial {
                  st.nontrivial_total += 1;
                  let h = hash_str(&js.to_string());
                  st.nontrivial.insert(h);
                  if st.nt_samples.len() < 2 {
                    st.nt_samples.push(js);
                  }
                } else if st.samples.len() < 1 {
                  st.samples.push(js);
                }
              }
              Ok(())
            }
            Err(f) => {
              if f.property != ctx.property && !survey {
                if counting {
                  let mut st = stats.borrow_mut();
                  st.evaluations += 1;
                  *st.other_property_failures.entry(format!("{}:{}", f.property, f.signature)).or_default() += 1;
                }
                return Ok(());
              }
              if let Some(k) = findings.open_for(&f.property, &f.signature) {
                if counting {
                  let mut st = stats.borrow_mut();
                  st.evaluations += 1;
                  *st.excluded.entry(k.id.clone()).or_default() += 1;
                }
                return Ok(());
              }
              if counting {
                stats.borrow_mut().evaluations += 1;
              }
              if survey {
                // development aid (VERIF_SURVEY=1): tally every distinct failing signature
                // instead of stopping at the first; never used by registered commands
                let mut st = stats.borrow_mut();
                let e = st.excluded.entry(format!("SURVEY {} :: {}", f.signature, f.message)).or_default();
                *e += 1;
                return Ok(());
              }
              if !failed.get() {
                *first_failing.borrow_mut() = Some((s.clone(), f.clone()));
              }
              failed.set(true);
              stop.store(true, Ordering::Relaxed);
              Err(TestCaseError::fail(f.signature.clone()))
            }
          }
        });
        total.lock().unwrap().merge(stats.into_inner());
        if let Err(TestError::Fail(_, minimal)) = res {
          // re-run the shrunk scenario through the plain interpreter to get the final failure
          // the shrunk scenario must fail again when run through the plain interpreter; if it
          // does not (shrinking wandered through a failure that does not reproduce), fall back
          // to the originally generated failing scenario
          let mut found = match exec(&minimal) {
            Err(f) if f.property == ctx.property => Some(Found { scenario: minimal, failure: f }),
            _ => None,
          };
          if found.is_none() {
            if let Some((orig, f0)) = first_failing.borrow_mut().take() {
              found = Some(match exec(&orig) {
                Err(f) if f.property == ctx.property => Found { scenario: orig, failure: f },
                _ => Found { scenario: orig, failure: Failure::new(&ctx.property, format!("nonreproducible/{}", f0.signature), format!("failed once, passed when re-run: {}", f0.message)) },
              });
            }
          }
          if let Some(fnd) = found {
            viols.lock().unwrap().push(fnd);
          }
        } else if let Err(TestError::Abort(r)) = res {
          eprintln!("proptest aborted: {r}");
          std::process::exit(2);
        }
      })
      .unwrap();
    handles.push(h);
  }
  for h in handles {
    if h.join().is_err() {
      eprintln!("driver shard panicked");
      std::process::exit(2);
    }
  }
  done.store(true, Ordering::Relaxed);
  let stats = std::mem::take(&mut *total.lock().unwrap());
  let violations = std::mem::take(&mut *viols.lock().unwrap());
  RunOutcome { stats, violations }
}

/// Generate one value from a strategy with a fixed seed (used by fuzz corpus seeding and tests).
pub fn sample_one<St: Strategy>(strategy: &St, seed: u64) -> St::Value {
  let cfg = Config { failure_persistence: None, rng_seed: RngSeed::Fixed(seed), ..Config::default() };
  let mut runner = TestRunner::new(cfg);
  strategy.new_tree(&mut runner).unwrap().current()
}

// ---------------------------------------------------------------------------------------------
// Check finalisation: witnesses, VIOLATION / KNOWN-FINDING lines, evidence, exit code
// ---------------------------------------------------------------------------------------------

pub struct Check {
  pub ctx: Ctx,
  pub findings: Findings,
  pub stats: Stats,
  pub violations: Vec<(Replay, PathBuf)>,
  pub known_lines: Vec<String>,
  pub health_failures: Vec<String>,
}

impl Check {
  pub fn new(ctx: Ctx) -> Check {
    Check { ctx, findings: Findings::load(), stats: Stats::default(), violations: vec![], known_lines: vec![], health_failures: vec![] }
  }

  /// Run the witnesses of this property's open findings.  `run` re-executes a replay and
  /// returns its failure if it still fails.  A witness that still fails prints KNOWN-FINDING;
  /// one that no longer fails switches its exclusion off (the entry is dropped from the
  /// in-memory list, so a recurrence is a plain VIOLATION).
  pub fn run_witnesses(&mut self, run: &dyn Fn(&Replay) -> Option<Failure>) {
    let prop = self.ctx.property.clone();
    let mut keep = Vec::new();
    for f in self.findings.findings.clone() {
      if f.property != prop || f.status != "open" {
        keep.push(f);
        continue;
      }
      // still failing = at least one witness still fails with one of the listed signatures
      let mut foreign = false;
      let still = if f.witnesses.is_empty() {
        true
      } else {
        f.witnesses.iter().any(|w| {
          let r = read_replay(w);
          match run(&r) {
            // a witness recorded by an engine this binary does not contain cannot be re-run
            // here: the finding stays open for this binary (another binary of the same check
            // re-runs it and prints the line)
            Some(fl) if fl.signature == FOREIGN_ENGINE => {
              foreign = true;
              true
            }
            Some(fl) => f.signatures.iter().any(|s| *s == fl.signature),
            None => false,
          }
        })
      };
      if still && foreign {
        keep.push(f);
      } else if still {
        let line = format!("KNOWN-FINDING: property={} {} — {}", prop, f.id, f.description);
        println!("{line}");
        self.known_lines.push(line);
        keep.push(f);
      } else {
        eprintln!("note: witness of known finding {} no longer fails; its exclusion is off for this run", f.id);
      }
    }
    self.findings.findings = keep;
  }

  /// Replay tier: the witnesses of *fixed* findings of this property are re-run on every
  /// check; a fixed entry suppresses nothing, so one that fails again is a plain violation.
  pub fn run_regressions(&mut self, run: &dyn Fn(&Replay) -> Option<Failure>) {
    let prop = self.ctx.property.clone();
    for f in self.findings.findings.clone() {
      if f.property != prop || f.status != "fixed" {
        continue;
      }
      for w in &f.witnesses {
        let r = read_replay(w);
        self.stats.class("regression_replays");
        self.stats.evaluations += 1;
        if let Some(fl) = run(&r) {
          if fl.property == prop {
            let rep = Replay { property: prop.clone(), engine: r.engine.clone(), signature: fl.signature.clone(), message: format!("regression of fixed finding {}: {}", f.id, fl.message), seed: self.ctx.seed, scenario: r.scenario.clone() };
            let p = write_replay(&rep);
            self.violations.push((rep, p));
          }
        }
      }
    }
  }

  pub fn absorb<S: Serialize>(&mut self, engine: &str, out: RunOutcome<S>) {
    self.stats.merge(out.stats);
    for v in out.violations {
      let rep = Replay {
        property: v.failure.property.clone(),
        engine: engine.to_string(),
        signature: v.failure.signature.clone(),
        message: v.failure.message.clone(),
        seed: self.ctx.seed,
        scenario: serde_json::to_value(&v.scenario).unwrap(),
      };
      let p = write_replay(&rep);
      self.violations.push((rep, p));
    }
  }

  pub fn require_class(&mut self, class: &str, min: u64) {
    let n = self.stats.classes.get(class).copied().unwrap_or(0);
    if n < min {
      self.health_failures.push(format!("generator health: class '{class}' seen {n} < {min}"));
    }
  }

  /// Development aid: with VERIF_SURVEY set, print the tally of failing signatures and exit 0.
  pub fn survey_report(&self) {
    if std::env::var("VERIF_SURVEY").is_err() {
      return;
    }
    let mut by_sig: BTreeMap<String, (u64, String)> = Default::default();
    for (k, v) in &self.stats.excluded {
      if let Some(rest) = k.strip_prefix("SURVEY ") {
        let (sig, msg) = rest.split_once(" :: ").unwrap_or((rest, ""));
        let e = by_sig.entry(sig.to_string()).or_insert((0, msg.to_string()));
        e.0 += v;
      }
    }
    for (k, (n, m)) in by_sig {
      println!("{n:6}  {k}\n          e.g. {m}");
    }
    std::process::exit(0);
  }

  /// Write evidence, print VIOLATION lines, exit.
  pub fn finish(self, meta: EvidenceMeta) -> ! {
    self.survey_report();
    write_evidence(&self.ctx, &meta, &self.stats, self.violations.len() as u64, &self.known_lines);
    println!(
      "[{} {}] seed={} evaluations={} distinct_nontrivial={} excluded={:?} inconclusive={} wall={:.1}s",
      self.ctx.property,
      self.ctx.tier.name(),
      self.ctx.seed,
      self.stats.evaluations,
      self.stats.nontrivial.len(),
      self.stats.excluded,
      self.stats.inconclusive,
      self.ctx.wall()
    );
    if !self.stats.other_property_failures.is_empty() {
      println!("note: failures attributed to other properties (see their checks): {:?}", self.stats.other_property_failures);
    }
    if !self.violations.is_empty() {
      let mut seen = BTreeSet::new();
      for (r, p) in &self.violations {
        if seen.insert(r.signature.clone()) {
          println!("  {} :: {}", r.signature, r.message);
          println!("VIOLATION property={} replay={}", r.property, p.display());
        }
      }
      std::process::exit(1);
    }
    if !self.health_failures.is_empty() {
      for h in &self.health_failures {
        eprintln!("INCONCLUSIVE: {h}");
      }
      std::process::exit(2);
    }
    std::process::exit(0)
  }
}

pub fn from_value<T: DeserializeOwned>(v: &Value) -> T {
  serde_json::from_value(v.clone()).unwrap_or_else(|e| {
    eprintln!("replay scenario does not decode: {e}");
    std::process::exit(2)
  })
}
