#![no_main]
//! E5 — libFuzzer target: bytes -> E2 scenario -> the same interpreter and oracles the proptest
//! engine uses, in-process, under AddressSanitizer (so silent corruption in the unsafe
//! slot/slab/waiter code becomes a crash).  An oracle failure writes a JSON replay and aborts.

#[path = "../../chan/src/adapt.rs"]
mod adapt;
#[path = "../../chan/src/e1.rs"]
mod e1;
#[path = "../../chan/src/e2.rs"]
mod e2;
#[path = "../../chan/src/payload.rs"]
mod payload;

use arbitrary::Unstructured;
use libfuzzer_sys::fuzz_target;

pub fn current_property() -> String {
  "C06".to_string()
}
pub fn finding_open(id: &str) -> bool {
  // the known rendezvous finding is excluded by construction, exactly as in the check
  id == "F05-rendezvous-cancelled-fulfilled-recv-loses-value"
}
pub fn panic_prop(default: &'static str, covered: &[&'static str]) -> &'static str {
  let cur = current_property();
  covered.iter().copied().find(|c| *c == cur).unwrap_or(default)
}
pub fn panic_msg(p: &Box<dyn std::any::Any + Send>) -> String {
  if let Some(s) = p.downcast_ref::<&str>() {
    s.to_string()
  } else if let Some(s) = p.downcast_ref::<String>() {
    s.clone()
  } else {
    "non-string panic".to_string()
  }
}
pub fn panic_site(msg: &str) -> String {
  msg.chars().take(48).map(|c| if c.is_ascii_alphanumeric() { c } else { '_' }).collect()
}

pub fn decode(data: &[u8]) -> Option<e2::Scenario> {
  use e2::Op;
  let mut u = Unstructured::new(data);
  let flavour = adapt::P2P[u.int_in_range(0..=8usize).ok()?];
  let async_start = u.int_in_range(0..=7u8).ok()? != 0;
  let cap = [1usize, 1, 2, 2, 3, 4, 16][u.int_in_range(0..=6usize).ok()?];
  let mut ops = Vec::new();
  while !u.is_empty() && ops.len() < 120 {
    let tag = u.int_in_range(0..=29u8).ok()?;
    let a: u16 = u.arbitrary().unwrap_or(0);
    let n: u16 = (u.arbitrary::<u8>().unwrap_or(0) % 10) as u16;
    ops.push(match tag {
      0 => Op::SpawnSend(a),
      1 => Op::SpawnSendBatch(a, n),
      2 => Op::SpawnSendBatchMut(a, n),
      3 => Op::SpawnRecv(a),
      4 => Op::SpawnRecvBatch(a, n),
      5 => Op::SpawnRecvBatchMut(a, n),
      6 => Op::SpawnNext(a),
      7 => Op::Poll(a),
      8 => Op::PollWoken,
      9 => Op::Settle,
      10 => Op::PollNewWaker(a),
      11 => Op::Cancel(a),
      12 => Op::CancelWoken(a),
      13 => Op::TrySend(a),
      14 => Op::TryRecv(a),
      15 => Op::TrySendBatch(a, n),
      16 => Op::TryRecvBatch(a, n),
      17 => Op::TrySendBatchMut(a, n),
      18 => Op::TryRecvBatchMut(a, n),
      19 => Op::CloseTx(a),
      20 => Op::DropTx(a),
      21 => Op::CloneTx(a),
      22 => Op::ConvTx(a),
      23 => Op::CloseRx(a),
      24 => Op::DropRx(a),
      25 => Op::CloneRx(a),
      26 => Op::ConvRx(a),
      28 => Op::CloseTxInFlight(a),
      29 => Op::CloseRxInFlight(a),
      _ => Op::Checkpoint,
    });
  }
  Some(e2::Scenario { flavour, async_start, cap, ops })
}

fuzz_target!(|data: &[u8]| {
  let Some(s) = decode(data) else { return };
  if let Err(f) = e2::execute(&s) {
    let rep = vcore::Replay { property: f.property.clone(), engine: "E2".into(), signature: f.signature.clone(), message: f.message.clone(), seed: 0, scenario: serde_json::to_value(&s).unwrap() };
    let p = vcore::write_replay(&rep);
    eprintln!("VIOLATION property={} replay={}", f.property, p.display());
    std::process::abort();
  }
});
