#![no_main]
//! E5 — libFuzzer target for C14: bytes -> policy call history -> the same interpreter and oracle
//! (reference bookkeeping, evictability probe, LRU/FIFO order models) the proptest engine uses,
//! under AddressSanitizer.  An oracle failure writes a JSON replay and aborts.

#[path = "../../cachex/src/policy.rs"]
mod policy;

use arbitrary::Unstructured;
use libfuzzer_sys::fuzz_target;
use policy::{Kind, POp, Scenario};

pub fn panic_msg(p: &Box<dyn std::any::Any + Send>) -> String {
  if let Some(s) = p.downcast_ref::<&str>() {
    s.to_string()
  } else if let Some(s) = p.downcast_ref::<String>() {
    s.clone()
  } else {
    "non-string panic".to_string()
  }
}
pub fn trace_on() -> bool {
  false
}
pub fn panic_site(msg: &str) -> String {
  msg.chars().take(48).map(|c| if c.is_ascii_alphanumeric() { c } else { '_' }).collect()
}

// costs stay small: a total cost that overflows u64 is outside the domain (capacity is a u64)
const COSTS: [u64; 8] = [0, 1, 2, 3, 10, 1000, 7, 50];
const CAPS: [u64; 7] = [1, 2, 5, 10, 100, 2000, 3];
const EVICTS: [u64; 9] = [0, 1, 2, 3, 5, 11, 1000, 2500, u64::MAX];

pub fn decode(data: &[u8]) -> Option<Scenario> {
  let mut u = Unstructured::new(data);
  let kind = policy::ALL_KINDS[u.int_in_range(0..=7usize).ok()?];
  let cap = CAPS[u.int_in_range(0..=6usize).ok()?];
  // open known finding (FIFO keeps the stale cost on re-admission): excluded by construction,
  // exactly as in the check: one cost per key on FIFO
  let fifo = kind == Kind::Fifo;
  let mut ops = Vec::new();
  while !u.is_empty() && ops.len() < 200 {
    let tag = u.int_in_range(0..=19u8).ok()?;
    let k = u.int_in_range(0..=13u8).unwrap_or(0);
    let ci = u.int_in_range(0..=7usize).unwrap_or(0);
    let c = if fifo { COSTS[(k as usize) % 6] } else { COSTS[ci] };
    ops.push(match tag {
      0..=7 => POp::Admit { k, c },
      8..=12 => POp::Access { k, c: None },
      13 => POp::Access { k, c: Some(c) },
      14 | 15 => POp::Remove { k },
      16..=18 => POp::Evict { n: EVICTS[ci % EVICTS.len()] },
      _ => POp::Clear,
    });
  }
  Some(Scenario { kind, cap, ops })
}

fuzz_target!(|data: &[u8]| {
  let Some(s) = decode(data) else { return };
  if let Err(f) = policy::execute(&s) {
    let rep = vcore::Replay {
      property: "C14".into(),
      engine: "E1-policy".into(),
      signature: f.signature.clone(),
      message: f.message.clone(),
      seed: 0,
      scenario: serde_json::to_value(&s).unwrap(),
    };
    let p = vcore::write_replay(&rep);
    println!("  {} :: {}", f.signature, f.message);
    println!("VIOLATION property=C14 replay={}", p.display());
    std::process::abort();
  }
});
