#!/bin/bash
# E5 campaign for one property (thorough tier only): coverage-guided byte fuzzing of the E2
# interpreter under AddressSanitizer.  usage: run.sh <PROP> <runs> <seed> [target]   (target: fz_chan (default) | fz_policy)
# exit 0 = nothing found, 1 = violation (line VIOLATION ... printed), 2 = infrastructure
set -u
PROP=$1; RUNS=$2; SEED=${3:-1}; TGT=${4:-fz_chan}
cd /verif/harness/fuzz || exit 2
export CARGO_NET_OFFLINE=true CARGO_TARGET_DIR=/verif/target/fuzz
CORPUS=/verif/target/fuzz-corpus/$TGT-$PROP-$SEED
rm -rf "$CORPUS"; mkdir -p "$CORPUS" /verif/target/fuzz-artifacts /verif/evidence/parts
cargo +nightly fuzz build --fuzz-dir . $TGT > /verif/target/build-fuzz.log 2>&1 || { echo "fuzz build failed:"; tail -20 /verif/target/build-fuzz.log; exit 2; }
START=$(date +%s)
[ "$SEED" = "0" ] && SEED=1
OUT=$(cargo +nightly fuzz run --fuzz-dir . $TGT "$CORPUS" -- -runs=$RUNS -seed=$SEED -len_control=0 -max_len=360 -artifact_prefix=/verif/target/fuzz-artifacts/ 2>&1)
RC=$?
END=$(date +%s)
VIOL=$(echo "$OUT" | grep '^VIOLATION property=' | head -1)
SIGL=$(echo "$OUT" | grep -B1 '^VIOLATION property=' | head -1)
CRASH=$(echo "$OUT" | grep -o 'Test unit written to [^ ]*' | head -1 | awk '{print $5}')
DONE=$(echo "$OUT" | grep -o 'Done [0-9]* runs' | awk '{print $2}')
python3 - "$PROP" "$SEED" "$CORPUS" "${DONE:-0}" "$((END-START))" "$RC" "$TGT" <<'PY'
import sys, os, json, glob
prop, seed, corpus, done, wall, rc, tgt = sys.argv[1], int(sys.argv[2]), sys.argv[3], int(sys.argv[4]), int(sys.argv[5]), int(sys.argv[6]), sys.argv[7]
files = sorted(glob.glob(corpus + "/*"))
samples = [{"corpus_input_hex": open(f, "rb").read()[:64].hex()} for f in files[:3]]
ev = {"property_id": prop, "tier": "thorough", "seed": seed, "level": "exploration",
      "coverage": {"evaluations": max(done, 1), "distinct_nontrivial": len(files),
                   "rule": "libFuzzer (coverage-guided, ASan) over byte strings decoded into the scenarios of the proptest engines (fz_chan: E2 async histories, fz_policy: policy call histories); distinct non-trivial = inputs retained in the corpus because they reached new coverage of the interpreter + channel code",
                   "samples": samples or [{"corpus_input_hex": ""}], "engine": "E5 cargo-fuzz " + tgt, "classes": {"corpus_files": len(files)}},
      "assumptions": ["campaigns are pinned only approximately by -seed; the saved failing input is the reproducible unit"],
      "wall_s": wall, "violations": 0 if rc == 0 else 1}
json.dump(ev, open(f"/verif/evidence/parts/{prop}-fuzz.json", "w"), indent=1)
PY
if [ $RC -eq 0 ]; then echo "[$PROP fuzz] runs=${DONE:-?} corpus=$(ls "$CORPUS" | wc -l) no crash"; exit 0; fi
if [ -n "$VIOL" ]; then echo "$SIGL"; echo "$VIOL"; exit 1; fi
if [ -n "$CRASH" ]; then
  # a sanitizer / panic crash without an oracle verdict: keep the input as the replay
  mkdir -p /verif/replays/$PROP; cp "$CRASH" /verif/replays/$PROP/fuzz-crash-$(basename "$CRASH").bin
  echo "$OUT" | grep -E 'ERROR: AddressSanitizer|SUMMARY|panicked' | head -5
  echo "VIOLATION property=$PROP replay=/verif/replays/$PROP/fuzz-crash-$(basename "$CRASH").bin"; exit 1
fi
echo "fuzz run ended abnormally (rc=$RC):"; echo "$OUT" | tail -5; exit 2
