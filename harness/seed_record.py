#!/usr/bin/env python3
"""Record a confirmed seeded defect under /verif/seeded/<id>/ (patch.diff, demo.rs, agent notes, meta.json)."""
import json, os, shutil, sys
sid, prop, needs, confirmed, detected = sys.argv[1:6]
src = f"/tmp/seed_out/{sid}"
dst = f"/verif/seeded/{sid}"
os.makedirs(dst, exist_ok=True)
for f in ("patch.diff", "demo.rs", "NOTES.md"):
    if os.path.exists(f"{src}/{f}"):
        shutil.copy(f"{src}/{f}", f"{dst}/{'AUTHOR_NOTES.md' if f == 'NOTES.md' else f}")
meta = {
    "id": sid,
    "breaks_property": prop,
    "needs_to_manifest": needs,
    "origin": "independent sub-agent given only the property text and a scratch worktree of /repo (nothing from /verif)",
    "confirmed": confirmed,
    "checks_run_and_result": detected,
}
json.dump(meta, open(f"{dst}/meta.json", "w"), indent=1)
print("recorded", sid)
