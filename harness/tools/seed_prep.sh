#!/bin/bash
# seed_prep.sh <PROP>  : scratch worktree /tmp/seedwt/<PROP> of /repo HEAD + /tmp/seedwt/<PROP>.PROPERTY.md
# (property text only; nothing from /verif goes to the sub-agent).  Output dir /tmp/seed_out/<PROP>-{1,2,3}.
set -e
p=$1
mkdir -p /tmp/seedwt /tmp/seed_out
[ -d /tmp/seedwt/$p ] || git -C /repo worktree add --detach /tmp/seedwt/$p HEAD >/dev/null
python3 - "$p" <<'PY'
import json,sys
pid=sys.argv[1]
for l in open('/verif/properties.jsonl'):
    r=json.loads(l)
    if r['id']==pid:
        out=[f"# Property {pid}: {r['title']}","",r['statement'],"","## Quantified over","",r['quantifier']['text'],"","## Why the existing tests do not settle it","",r['why_tests_cant'],"","## Code the property is anchored in","",json.dumps(r['anchors'],indent=1)]
        open(f'/tmp/seedwt/{pid}.PROPERTY.md','w').write("\n".join(out)+"\n")
PY
echo /tmp/seedwt/$p
