#!/bin/bash
# evalenv.sh : (re)create a scratch evaluation environment so seeded patches can be tried without touching /repo:
#   /tmp/evalrepo   = worktree of /repo HEAD
#   /tmp/evalverif  = copy of /verif (sources + target cache) with every /repo -> /tmp/evalrepo and /verif -> /tmp/evalverif
set -e
git -C /repo worktree remove --force /tmp/evalrepo 2>/dev/null || true
git -C /repo worktree prune
git -C /repo worktree add --detach /tmp/evalrepo HEAD >/dev/null
mkdir -p /tmp/evalverif
rsync -a --delete --exclude .git --exclude replays --exclude 'target/fuzz*' /verif/ /tmp/evalverif/
cd /tmp/evalverif
sed -i 's|path = "/repo/|path = "/tmp/evalrepo/|' harness/Cargo.toml harness/fuzz/Cargo.toml
sed -i 's|pub const VERIF_ROOT: &str = "/verif";|pub const VERIF_ROOT: \&str = "/tmp/evalverif";|' harness/vcore/src/lib.rs
sed -i 's|^ROOT=/verif$|ROOT=/tmp/evalverif|' vf
grep -rl '"/verif' harness --include=*.rs --include=*.py --include=*.sh | grep -v target | xargs -r sed -i 's|"/verif|"/tmp/evalverif|g'
grep -rl "'/verif\|/verif/" harness/*.py harness/*/*.sh 2>/dev/null | xargs -r sed -i 's|/verif/|/tmp/evalverif/|g'
echo ready
