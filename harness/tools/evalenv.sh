#!/bin/bash
# optional env EVAL_TAG=<suffix>: use /tmp/evalrepo$T<suffix> and /tmp/evalverif$T<suffix> (one environment per worker)
T=${EVAL_TAG:-}
# evalenv.sh : (re)create a scratch evaluation environment so seeded patches can be tried without touching /repo:
#   /tmp/evalrepo$T   = worktree of /repo HEAD
#   /tmp/evalverif$T  = copy of /verif (sources + target cache) with every /repo -> /tmp/evalrepo$T and /verif -> /tmp/evalverif$T
set -e
git -C /repo worktree remove --force /tmp/evalrepo$T 2>/dev/null || true
git -C /repo worktree prune
git -C /repo worktree add --detach /tmp/evalrepo$T HEAD >/dev/null
mkdir -p /tmp/evalverif$T
rsync -a --delete --exclude .git --exclude replays --exclude target /verif/ /tmp/evalverif$T/
cd /tmp/evalverif$T
sed -i "s|path = \"/repo/|path = \"/tmp/evalrepo$T/|" harness/Cargo.toml harness/fuzz/Cargo.toml
sed -i "s|pub const VERIF_ROOT: &str = \"/verif\";|pub const VERIF_ROOT: \&str = \"/tmp/evalverif$T\";|" harness/vcore/src/lib.rs
sed -i "s|^ROOT=/verif\$|ROOT=/tmp/evalverif$T|" vf
grep -rl '"/verif' harness --include=*.rs --include=*.py --include=*.sh | grep -v target | xargs -r sed -i "s|\"/verif|\"/tmp/evalverif$T|g"
grep -rl "'/verif\|/verif/" harness/*.py harness/*/*.sh 2>/dev/null | xargs -r sed -i "s|/verif/|/tmp/evalverif$T/|g"
echo ready
