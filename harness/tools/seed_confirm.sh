#!/bin/bash
# seed_confirm.sh <SEEDID> <crate-dir> <package>   e.g. seed_confirm.sh C02-1 channels fibre
# Independent confirmation of a seeded change in a fresh scratch worktree:
#   1. demo passes on unchanged code  2. patch applies and compiles  3. demo fails with the patch
#   4. the package's existing suite passes with the patch (demo excluded)
set -u
sid=$1; crate=$2; pkg=$3
src=/tmp/seed_out/$sid
wt=/tmp/confirm/$sid
export CARGO_NET_OFFLINE=true CARGO_TARGET_DIR=${SEED_TARGET:-/tmp/confirm/$sid-target} CARGO_TERM_COLOR=never
mkdir -p /tmp/confirm
rm -rf $wt; git -C /repo worktree prune; git -C /repo worktree add --detach $wt HEAD >/dev/null 2>&1 || { echo "worktree failed"; exit 2; }
name=seed_$(echo $sid | tr 'A-Z-' 'a-z_')_demo
cp $src/demo.rs $wt/$crate/tests/$name.rs
cd $wt
res() { echo "[$sid] $1"; }
cargo nextest run -p $pkg --offline --test $name > /tmp/confirm/$sid.demo0.log 2>&1; r0=$?
git apply $src/patch.diff || { res "PATCH DOES NOT APPLY"; exit 1; }
cargo nextest run -p $pkg --offline --test $name > /tmp/confirm/$sid.demo1.log 2>&1; r1=$?
cargo nextest run -p $pkg --offline --no-fail-fast -E "not test(looped_repro_spmc_sync_hang) and not binary($name)" > /tmp/confirm/$sid.suite.log 2>&1; r2=$?
res "demo_without_patch=$r0 (want 0) demo_with_patch=$r1 (want !=0) suite_with_patch=$r2 (want 0)"
grep -E '^\s+(FAIL|TIMEOUT|SIGABRT|SIGSEGV)|Summary' /tmp/confirm/$sid.suite.log | sort | uniq -c | tail -8
cd /; git -C /repo worktree remove --force $wt; [ -n "${SEED_TARGET:-}" ] || rm -rf /tmp/confirm/$sid-target
