#!/bin/bash
# seed_eval2.sh <SEEDID> <PROP>... : like seed_eval.sh but in the scratch environment of evalenv.sh
T=${EVAL_TAG:-}
sid=$1; shift
src=/tmp/seed_out/$sid; [ -d $src ] || src=/verif/seeded/$sid
git -C /tmp/evalrepo$T checkout -q -- . ; git -C /tmp/evalrepo$T apply $src/patch.diff || { echo "[$sid] patch does not apply"; exit 2; }
cd /tmp/evalverif$T
for id in "$@"; do
  s=$(date +%s)
  VERIF_SEED=${VERIF_SEED:-1} ./vf check $id quick > /tmp/eval$T-$sid-$id.log 2>&1; rc=$?
  e=$(date +%s)
  echo "[$sid] $id rc=$rc $((e-s))s :: $(grep -m1 '^VIOLATION' /tmp/eval$T-$sid-$id.log | sed "s|/tmp/evalverif$T|/verif|")"
done
git -C /tmp/evalrepo$T checkout -q -- .
