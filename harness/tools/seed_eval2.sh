#!/bin/bash
# seed_eval2.sh <SEEDID> <PROP>... : like seed_eval.sh but in the scratch environment of evalenv.sh
sid=$1; shift
src=/tmp/seed_out/$sid; [ -d $src ] || src=/verif/seeded/$sid
git -C /tmp/evalrepo checkout -q -- . ; git -C /tmp/evalrepo apply $src/patch.diff || { echo "[$sid] patch does not apply"; exit 2; }
cd /tmp/evalverif
for id in "$@"; do
  s=$(date +%s)
  VERIF_SEED=${VERIF_SEED:-1} ./vf check $id quick > /tmp/eval-$sid-$id.log 2>&1; rc=$?
  e=$(date +%s)
  echo "[$sid] $id rc=$rc $((e-s))s :: $(grep -m1 '^VIOLATION' /tmp/eval-$sid-$id.log | sed 's|/tmp/evalverif|/verif|')"
done
git -C /tmp/evalrepo checkout -q -- .
