#!/bin/bash
# seed_eval.sh <SEEDID> <PROP>...  : apply the seeded patch to /repo, run the quick checks, undo the patch.
# Prints one line per check: rc and the first VIOLATION / signature.  /repo must be clean before.
sid=$1; shift
src=/tmp/seed_out/$sid; [ -d $src ] || src=/verif/seeded/$sid
[ -z "$(git -C /repo status --porcelain --untracked-files=no)" ] || { echo "/repo not clean"; exit 2; }
git -C /repo apply $src/patch.diff || { echo "[$sid] patch does not apply"; exit 2; }
cd /verif
for id in "$@"; do
  s=$(date +%s)
  VERIF_SEED=${VERIF_SEED:-1} ./vf check $id quick > /tmp/eval-$sid-$id.log 2>&1; rc=$?
  e=$(date +%s)
  echo "[$sid] $id rc=$rc $((e-s))s :: $(grep -m1 '^VIOLATION' /tmp/eval-$sid-$id.log) $(grep -m1 -o 'signature[^,]*' /tmp/eval-$sid-$id.log | head -1) $(grep -m1 -E '^\[.*\] .* :: |FAIL|violation:' /tmp/eval-$sid-$id.log | cut -c1-260)"
done
git -C /repo checkout -- .
