#!/bin/bash
# sweep.sh <tier> <seed> [ids...] : run checks one after another, print exit code + wall time + KNOWN-FINDING/VIOLATION lines
tier=$1; seed=$2; shift 2
ids=${@:-C01 C02 C03 C04 C05 C06 C07 C08 C09 C10 C11 C12 C13 C14 C15 C16 C17 C18 C19 C20}
cd /verif
for id in $ids; do
  s=$(date +%s)
  VERIF_SEED=$seed ./vf check $id $tier > /tmp/sweep-$id-$tier-$seed.log 2>&1; rc=$?
  e=$(date +%s)
  echo "$id $tier seed=$seed rc=$rc $((e-s))s $(grep -c '^KNOWN-FINDING' /tmp/sweep-$id-$tier-$seed.log) known; $(grep -m2 '^VIOLATION' /tmp/sweep-$id-$tier-$seed.log | tr '\n' ' ')"
done
