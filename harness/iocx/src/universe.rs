//! The fixed universe of service keys (6 concrete types, 2 trait objects, 16 names: {None,"a","b"}
//! plus 13 confusable names, see `name_of`)
//! and the typed dispatch from (type index, name) onto the public fibre_ioc API: every
//! registration form of `Container` / `LocalContainer`, `get`, and the four resolution macros.

use fibre_ioc::{Container, LocalContainer};
use serde::{Deserialize, Serialize};
use std::any::Any;
use std::cell::RefCell;
use std::collections::BTreeMap;
use std::rc::{Rc, Weak as RcWeak};
use std::sync::{Arc, Mutex, MutexGuard, Weak};

/// type indices 0..6 are the concrete types `Ty<0>`..`Ty<5>`, 6 = `dyn TrA`, 7 = `dyn TrB`
pub const NTY: u8 = 8;
pub const NCONCRETE: u8 = 6;
/// Size of the name universe.  Indices 0..=2 keep their historical meaning (existing replay
/// files use them); 3.. are the *confusable* names: names a key implementation could plausibly
/// conflate with another key (trimming, case folding, C-string truncation, unicode
/// normalisation, "empty means unnamed", formatting the key as text, hashing only a prefix).
/// The model stays keyed on the exact `(type index, name index)`, i.e. on the exact
/// `(TypeId, Option<String>)` — "Services are keyed by type and optional name".
pub const NNAMES: u8 = 16;
/// names 0..PLAIN_NAMES are the ordinary ones ({None,"a","b"})
pub const PLAIN_NAMES: u8 = 3;

fn long_name(last: char) -> &'static str {
  // 300 identical characters (more than any 8-bit length), then one distinguishing character
  let mut s = "x".repeat(300);
  s.push(last);
  Box::leak(s.into_boxed_str())
}

pub fn name_of(n: u8) -> Option<&'static str> {
  static LONG: std::sync::OnceLock<(&'static str, &'static str)> = std::sync::OnceLock::new();
  match n {
    0 => None,
    1 => Some("a"),
    2 => Some("b"),
    // the empty name is a name: (T, Some("")) is not (T, None)
    3 => Some(""),
    // differs from "a" only in case
    4 => Some("A"),
    // ... only in trailing / leading whitespace
    5 => Some("a "),
    6 => Some(" a"),
    // ... only in a trailing NUL (C-string truncation)
    7 => Some("a\0"),
    // U+00E9 precomposed and "e" + U+0301 combining: equal after unicode normalisation only
    8 => Some("\u{e9}"),
    9 => Some("e\u{301}"),
    // fullwidth "a" (equal to "a" under NFKC)
    10 => Some("\u{ff41}"),
    // a name equal to the name of a type of the universe
    11 => Some(std::any::type_name::<Ty<0>>()),
    // two long names that differ in their last character only
    12 => Some(LONG.get_or_init(|| (long_name('1'), long_name('2'))).0),
    13 => Some(LONG.get_or_init(|| (long_name('1'), long_name('2'))).1),
    // the textual form of "no name"
    14 => Some("None"),
    // a lone NUL (empty as a C string)
    _ => Some("\0"),
  }
}

/// Pairs of name indices a sloppy key implementation could conflate (used by generators that
/// want both members of a pair in one case; the oracle never needs it).
pub const TWINS: [(u8, u8); 12] = [(0, 3), (0, 14), (0, 15), (3, 15), (1, 4), (1, 5), (1, 6), (1, 7), (1, 10), (8, 9), (12, 13), (5, 6)];

/// short printable label of a name index for class names and messages
pub fn name_label(n: u8) -> &'static str {
  match n.min(NNAMES - 1) {
    0 => "unnamed",
    1 => "a",
    2 => "b",
    3 => "empty",
    4 => "upper_A",
    5 => "a_space",
    6 => "space_a",
    7 => "a_nul",
    8 => "e_acute_nfc",
    9 => "e_acute_nfd",
    10 => "fullwidth_a",
    11 => "type_name",
    12 => "long_1",
    13 => "long_2",
    14 => "text_None",
    _ => "nul",
  }
}

/// What every service instance carries: a serial unique per factory completion within the case,
/// the id of the registration whose factory built it, and which impl type a trait object is.
#[derive(Clone, Debug, PartialEq, Eq)]
pub struct Inst {
  pub serial: u32,
  pub reg: u32,
  pub imp: u8,
}

/// What a service instance may own besides its payload: something whose `Drop` does work
/// (E5 uses it: an old instance whose teardown takes a while is legitimate user code).
pub type Tail = Option<Box<dyn Any + Send + Sync>>;

pub struct Ty<const N: u8>(pub Inst, #[allow(dead_code)] pub Tail);

pub trait TrA: Send + Sync {
  fn inst(&self) -> &Inst;
  fn imp_type(&self) -> u8;
}
pub trait TrB: Send + Sync {
  fn inst(&self) -> &Inst;
  fn imp_type(&self) -> u8;
}
/// two impl types for each trait, so that a trait key can be re-registered with another impl
pub struct Im<const K: u8>(pub Inst, #[allow(dead_code)] pub Tail);
impl<const K: u8> TrA for Im<K> {
  fn inst(&self) -> &Inst {
    &self.0
  }
  fn imp_type(&self) -> u8 {
    K
  }
}
impl<const K: u8> TrB for Im<K> {
  fn inst(&self) -> &Inst {
    &self.0
  }
  fn imp_type(&self) -> u8 {
    K
  }
}

pub trait HasInst {
  fn the_inst(&self) -> &Inst;
  /// for trait objects: the impl type actually behind the pointer (must equal `inst.imp`)
  fn behind(&self) -> Option<u8> {
    None
  }
}
impl<const N: u8> HasInst for Ty<N> {
  fn the_inst(&self) -> &Inst {
    &self.0
  }
}
impl HasInst for dyn TrA {
  fn the_inst(&self) -> &Inst {
    self.inst()
  }
  fn behind(&self) -> Option<u8> {
    Some(self.imp_type())
  }
}
impl HasInst for dyn TrB {
  fn the_inst(&self) -> &Inst {
    self.inst()
  }
  fn behind(&self) -> Option<u8> {
    Some(self.imp_type())
  }
}

#[derive(Clone, Copy, Debug, PartialEq, Eq, Serialize, Deserialize)]
pub enum Form {
  /// `add_instance[_with_name]` (Container only; on a LocalContainer, which has no such
  /// method, the interpreter uses `add_singleton`)
  Instance,
  /// `add_singleton[_with_name]`
  Singleton,
  /// `add_transient[_with_name]`
  Transient,
  /// `add_singleton_trait[_with_name]::<T>` with a *sized* T (factory returns Arc<T>/Rc<T>)
  SingletonArc,
}

#[derive(Clone, Copy, Debug, PartialEq, Eq, Serialize, Deserialize)]
pub enum Via {
  /// `container.get::<T>(name)`
  Method,
  /// `maybe_resolve_from!` (`maybe_resolve!` on the global container)
  Maybe,
  /// `resolve_from!` (`resolve!` on the global container); only used where the model says the
  /// key is registered (the macro documents a panic for a missing service)
  Resolve,
}

/// A resolved service: its payload, the address of the shared allocation, and the Arc/Rc itself
/// (kept alive by the caller so that addresses are never reused while they are compared).
pub struct Got {
  pub inst: Inst,
  pub behind: Option<u8>,
  pub addr: usize,
  pub keep: Box<dyn Any>,
}
pub struct GotSend {
  pub inst: Inst,
  pub addr: usize,
  pub keep: Box<dyn Any + Send>,
}

// ---------------------------------------------------------------------------------------------
// Container: get
// ---------------------------------------------------------------------------------------------

fn arc_got<T: ?Sized + HasInst + Any + Send + Sync>(a: Arc<T>) -> GotSend {
  GotSend { inst: a.the_inst().clone(), addr: Arc::as_ptr(&a) as *const () as usize, keep: Box::new(a) }
}
fn arc_got_l<T: ?Sized + HasInst + Any + Send + Sync>(a: Arc<T>) -> Got {
  Got { inst: a.the_inst().clone(), behind: a.behind(), addr: Arc::as_ptr(&a) as *const () as usize, keep: Box::new(a) }
}
fn rc_got<T: ?Sized + HasInst + Any>(a: Rc<T>) -> Got {
  Got { inst: a.the_inst().clone(), behind: a.behind(), addr: Rc::as_ptr(&a) as *const () as usize, keep: Box::new(a) }
}

fn cget_t<T: ?Sized + HasInst + Any + Send + Sync>(c: &Container, is_global: bool, name: Option<&str>, via: Via) -> Option<Arc<T>> {
  match (via, name, is_global) {
    (Via::Method, n, _) => c.get::<T>(n),
    (Via::Maybe, None, false) => fibre_ioc::maybe_resolve_from!(c, T),
    (Via::Maybe, Some(n), false) => fibre_ioc::maybe_resolve_from!(c, T, n),
    (Via::Maybe, None, true) => fibre_ioc::maybe_resolve!(T),
    (Via::Maybe, Some(n), true) => fibre_ioc::maybe_resolve!(T, n),
    (Via::Resolve, None, false) => Some(fibre_ioc::resolve_from!(c, T)),
    (Via::Resolve, Some(n), false) => Some(fibre_ioc::resolve_from!(c, T, n)),
    (Via::Resolve, None, true) => Some(fibre_ioc::resolve!(T)),
    (Via::Resolve, Some(n), true) => Some(fibre_ioc::resolve!(T, n)),
  }
}

/// the `trait X` arms of the macros need a literal trait identifier
macro_rules! cget_trait {
  ($c:expr, $g:expr, $name:expr, $via:expr, $Tr:ident) => {
    match ($via, $name, $g) {
      (Via::Method, n, _) => $c.get::<dyn $Tr>(n),
      (Via::Maybe, None, false) => fibre_ioc::maybe_resolve_from!($c, trait $Tr),
      (Via::Maybe, Some(n), false) => fibre_ioc::maybe_resolve_from!($c, trait $Tr, n),
      (Via::Maybe, None, true) => fibre_ioc::maybe_resolve!(trait $Tr),
      (Via::Maybe, Some(n), true) => fibre_ioc::maybe_resolve!(trait $Tr, n),
      (Via::Resolve, None, false) => Some(fibre_ioc::resolve_from!($c, trait $Tr)),
      (Via::Resolve, Some(n), false) => Some(fibre_ioc::resolve_from!($c, trait $Tr, n)),
      (Via::Resolve, None, true) => Some(fibre_ioc::resolve!(trait $Tr)),
      (Via::Resolve, Some(n), true) => Some(fibre_ioc::resolve!(trait $Tr, n)),
    }
  };
}

macro_rules! per_concrete {
  ($ty:expr, $N:ident => $body:expr, else $other:expr) => {
    match $ty {
      0 => {
        const $N: u8 = 0;
        $body
      }
      1 => {
        const $N: u8 = 1;
        $body
      }
      2 => {
        const $N: u8 = 2;
        $body
      }
      3 => {
        const $N: u8 = 3;
        $body
      }
      4 => {
        const $N: u8 = 4;
        $body
      }
      5 => {
        const $N: u8 = 5;
        $body
      }
      _ => $other,
    }
  };
}

/// Resolve (ty, name) from a thread-safe container.
pub fn cget_send(c: &Container, is_global: bool, ty: u8, name: Option<&str>, via: Via) -> Option<GotSend> {
  per_concrete!(ty, N => cget_t::<Ty<N>>(c, is_global, name, via).map(arc_got), else match ty {
    6 => cget_trait!(c, is_global, name, via, TrA).map(arc_got),
    7 => cget_trait!(c, is_global, name, via, TrB).map(arc_got),
    _ => unreachable!("type index"),
  })
}
pub fn cget(c: &Container, is_global: bool, ty: u8, name: Option<&str>, via: Via) -> Option<Got> {
  per_concrete!(ty, N => cget_t::<Ty<N>>(c, is_global, name, via).map(arc_got_l), else match ty {
    6 => cget_trait!(c, is_global, name, via, TrA).map(arc_got_l),
    7 => cget_trait!(c, is_global, name, via, TrB).map(arc_got_l),
    _ => unreachable!("type index"),
  })
}

// ---------------------------------------------------------------------------------------------
// LocalContainer: get
// ---------------------------------------------------------------------------------------------

fn lget_t<T: ?Sized + HasInst + Any>(c: &LocalContainer, name: Option<&str>, via: Via) -> Option<Rc<T>> {
  match (via, name) {
    (Via::Method, n) => c.get::<T>(n),
    (Via::Maybe, None) => fibre_ioc::maybe_resolve_from!(c, T),
    (Via::Maybe, Some(n)) => fibre_ioc::maybe_resolve_from!(c, T, n),
    (Via::Resolve, None) => Some(fibre_ioc::resolve_from!(c, T)),
    (Via::Resolve, Some(n)) => Some(fibre_ioc::resolve_from!(c, T, n)),
  }
}

macro_rules! lget_trait {
  ($c:expr, $name:expr, $via:expr, $Tr:ident) => {
    match ($via, $name) {
      (Via::Method, n) => $c.get::<dyn $Tr>(n),
      (Via::Maybe, None) => fibre_ioc::maybe_resolve_from!($c, trait $Tr),
      (Via::Maybe, Some(n)) => fibre_ioc::maybe_resolve_from!($c, trait $Tr, n),
      (Via::Resolve, None) => Some(fibre_ioc::resolve_from!($c, trait $Tr)),
      (Via::Resolve, Some(n)) => Some(fibre_ioc::resolve_from!($c, trait $Tr, n)),
    }
  };
}

pub fn lget(c: &LocalContainer, ty: u8, name: Option<&str>, via: Via) -> Option<Got> {
  per_concrete!(ty, N => lget_t::<Ty<N>>(c, name, via).map(rc_got), else match ty {
    6 => lget_trait!(c, name, via, TrA).map(rc_got),
    7 => lget_trait!(c, name, via, TrB).map(rc_got),
    _ => unreachable!("type index"),
  })
}

// ---------------------------------------------------------------------------------------------
// registration
// ---------------------------------------------------------------------------------------------

fn creg_n<const N: u8>(c: &Container, name: Option<&str>, form: Form, f: impl Fn() -> (Inst, Tail) + Send + Sync + 'static) {
  let mk = move || {
    let (i, t) = f();
    Ty::<N>(i, t)
  };
  match (form, name) {
    (Form::Instance, None) => c.add_instance(mk()),
    (Form::Instance, Some(n)) => c.add_instance_with_name(n, mk()),
    (Form::Singleton, None) => c.add_singleton(mk),
    (Form::Singleton, Some(n)) => c.add_singleton_with_name(n, mk),
    (Form::Transient, None) => c.add_transient(mk),
    (Form::Transient, Some(n)) => c.add_transient_with_name(n, mk),
    (Form::SingletonArc, None) => c.add_singleton_trait::<Ty<N>>(move || Arc::new(mk())),
    (Form::SingletonArc, Some(n)) => c.add_singleton_trait_with_name::<Ty<N>>(n, move || Arc::new(mk())),
  }
}

fn arc_a(imp: u8, (i, t): (Inst, Tail)) -> Arc<dyn TrA> {
  if imp == 0 {
    Arc::new(Im::<0>(i, t))
  } else {
    Arc::new(Im::<1>(i, t))
  }
}
fn arc_b(imp: u8, (i, t): (Inst, Tail)) -> Arc<dyn TrB> {
  if imp == 0 {
    Arc::new(Im::<0>(i, t))
  } else {
    Arc::new(Im::<1>(i, t))
  }
}
fn rc_a(imp: u8, i: Inst) -> Rc<dyn TrA> {
  if imp == 0 {
    Rc::new(Im::<0>(i, None))
  } else {
    Rc::new(Im::<1>(i, None))
  }
}
fn rc_b(imp: u8, i: Inst) -> Rc<dyn TrB> {
  if imp == 0 {
    Rc::new(Im::<0>(i, None))
  } else {
    Rc::new(Im::<1>(i, None))
  }
}

/// Register (ty, name) on a thread-safe container.  Trait keys (6, 7) always use
/// `add_singleton_trait[_with_name]`, the only form the API offers for unsized keys.
pub fn creg(c: &Container, ty: u8, name: Option<&str>, form: Form, imp: u8, f: impl Fn() -> Inst + Send + Sync + 'static) {
  creg_t(c, ty, name, form, imp, move || (f(), None))
}

/// `creg` for factories that also give the instance a `Tail`.
pub fn creg_t(c: &Container, ty: u8, name: Option<&str>, form: Form, imp: u8, f: impl Fn() -> (Inst, Tail) + Send + Sync + 'static) {
  per_concrete!(ty, N => creg_n::<N>(c, name, form, f), else match (ty, name) {
    (6, None) => c.add_singleton_trait::<dyn TrA>(move || arc_a(imp, f())),
    (6, Some(n)) => c.add_singleton_trait_with_name::<dyn TrA>(n, move || arc_a(imp, f())),
    (7, None) => c.add_singleton_trait::<dyn TrB>(move || arc_b(imp, f())),
    (7, Some(n)) => c.add_singleton_trait_with_name::<dyn TrB>(n, move || arc_b(imp, f())),
    _ => unreachable!("type index"),
  })
}

fn lreg_n<const N: u8>(c: &mut LocalContainer, name: Option<&str>, form: Form, f: impl Fn() -> Inst + 'static) {
  match (form, name) {
    (Form::Instance, _) => unreachable!("normalised away: LocalContainer has no add_instance"),
    (Form::Singleton, None) => c.add_singleton(move || Ty::<N>(f(), None)),
    (Form::Singleton, Some(n)) => c.add_singleton_with_name(n, move || Ty::<N>(f(), None)),
    (Form::Transient, None) => c.add_transient(move || Ty::<N>(f(), None)),
    (Form::Transient, Some(n)) => c.add_transient_with_name(n, move || Ty::<N>(f(), None)),
    (Form::SingletonArc, None) => c.add_singleton_trait::<Ty<N>>(move || Rc::new(Ty::<N>(f(), None))),
    (Form::SingletonArc, Some(n)) => c.add_singleton_trait_with_name::<Ty<N>>(n, move || Rc::new(Ty::<N>(f(), None))),
  }
}

pub fn lreg(c: &mut LocalContainer, ty: u8, name: Option<&str>, form: Form, imp: u8, f: impl Fn() -> Inst + 'static) {
  per_concrete!(ty, N => lreg_n::<N>(c, name, form, f), else match (ty, name) {
    (6, None) => c.add_singleton_trait::<dyn TrA>(move || rc_a(imp, f())),
    (6, Some(n)) => c.add_singleton_trait_with_name::<dyn TrA>(n, move || rc_a(imp, f())),
    (7, None) => c.add_singleton_trait::<dyn TrB>(move || rc_b(imp, f())),
    (7, Some(n)) => c.add_singleton_trait_with_name::<dyn TrB>(n, move || rc_b(imp, f())),
    _ => unreachable!("type index"),
  })
}

// ---------------------------------------------------------------------------------------------
// factories: shared log + dependency resolution
// ---------------------------------------------------------------------------------------------

#[derive(Clone, Debug, PartialEq, Eq)]
pub struct Created {
  pub serial: u32,
  pub reg: u32,
  pub imp: u8,
  /// serial of what each dependency resolved to, in order (None = unregistered)
  pub deps: Vec<Option<u32>>,
}

/// The observable history of factory activity; the model keeps one too and they are compared.
#[derive(Default, Clone, Debug, PartialEq, Eq)]
pub struct Log {
  pub next_serial: u32,
  /// factory invocations (started) per registration id
  pub calls: BTreeMap<u32, u32>,
  /// completed factory runs, in completion order
  pub created: Vec<Created>,
}

impl Log {
  pub fn create(&mut self, reg: u32, imp: u8, deps: Vec<Option<u32>>) -> Inst {
    let serial = self.next_serial;
    self.next_serial += 1;
    self.created.push(Created { serial, reg, imp, deps });
    Inst { serial, reg, imp }
  }
}

pub type Shared = Arc<Mutex<Log>>;

pub fn lock(s: &Shared) -> MutexGuard<'_, Log> {
  s.lock().unwrap_or_else(|e| e.into_inner())
}

/// A thread-safe container as seen from inside a factory (weak: a factory stored in a
/// container must not keep that container alive).
#[derive(Clone)]
pub enum CW {
  Global,
  Inst(Weak<Container>),
}

impl CW {
  pub fn with<R>(&self, f: impl FnOnce(&Container, bool) -> R) -> R {
    match self {
      CW::Global => f(fibre_ioc::global(), true),
      CW::Inst(w) => {
        let a = w.upgrade().expect("container dropped while one of its factories runs");
        f(&a, false)
      }
    }
  }
}

pub type LW = RcWeak<RefCell<LocalContainer>>;

#[derive(Clone)]
pub enum AW {
  C(CW),
  L(LW),
}

pub trait DepRes: 'static {
  /// resolve the dependency and return the serial of what was obtained
  fn resolve(&self) -> Option<u32>;
}

pub struct CDep {
  pub c: CW,
  pub ty: u8,
  pub name: Option<String>,
}
impl DepRes for CDep {
  fn resolve(&self) -> Option<u32> {
    self.c.with(|c, g| cget_send(c, g, self.ty, self.name.as_deref(), Via::Method).map(|g| g.inst.serial))
  }
}

pub struct ADep {
  pub c: AW,
  pub ty: u8,
  pub name: Option<String>,
}
impl DepRes for ADep {
  fn resolve(&self) -> Option<u32> {
    match &self.c {
      AW::C(c) => c.with(|c, g| cget_send(c, g, self.ty, self.name.as_deref(), Via::Method).map(|g| g.inst.serial)),
      AW::L(l) => {
        let rc = l.upgrade().expect("local container dropped while one of its factories runs");
        let b = rc.borrow();
        lget(&b, self.ty, self.name.as_deref(), Via::Method).map(|g| g.inst.serial)
      }
    }
  }
}

thread_local! {
  /// how many harness factories are running, nested, on this thread
  static DEPTH: std::cell::Cell<u32> = const { std::cell::Cell::new(0) };
}

/// More nested factories than this means some factory runs inside itself: an acyclic dependency
/// chain cannot be longer than the number of registrations of the case, and a generated history
/// has at most 30 chunks x 5 registrations = 150 of them (quick: 14 x 5).
pub const MAX_DEPTH: u32 = 200;
pub const DEPTH_PANIC: &str = "HARNESS: unbounded factory recursion";

pub fn reset_depth() {
  DEPTH.with(|d| d.set(0));
}

struct DepthGuard;
impl DepthGuard {
  fn enter() -> DepthGuard {
    DEPTH.with(|d| {
      d.set(d.get() + 1);
      if d.get() > MAX_DEPTH {
        // the container let a service be built inside its own factory again and again: the
        // "stack overflow" outcome, stopped by the harness before the stack actually overflows
        panic!("{}", DEPTH_PANIC);
      }
    });
    DepthGuard
  }
}
impl Drop for DepthGuard {
  fn drop(&mut self) {
    DEPTH.with(|d| d.set(d.get().saturating_sub(1)));
  }
}

/// The factory used by the sequential engine: count the invocation, resolve the dependencies
/// in order (a panic from a nested resolution propagates), then log and build the instance.
pub fn make_factory<D: DepRes>(shared: Shared, reg: u32, imp: u8, deps: Vec<D>) -> impl Fn() -> Inst + 'static {
  move || {
    let _depth = DepthGuard::enter();
    *lock(&shared).calls.entry(reg).or_default() += 1;
    let obs: Vec<Option<u32>> = deps.iter().map(|d| d.resolve()).collect();
    lock(&shared).create(reg, imp, obs)
  }
}
