//! Process isolation.  Two kinds of case are executed in a fresh child process (this very
//! binary, found through `current_exe()`, invoked as `iocx child`, job and verdict as JSON lines
//! over stdin/stdout):
//!
//!  * sequential histories that use `fibre_ioc::global()` — the global container is process-wide
//!    state with no way to unregister, so a fresh process per case is what keeps cases (and
//!    replays) independent of each other;
//!  * cross-thread dependency cycles, whose failure mode is a set of threads parked for good.
//!
//! (Process creation costs ~30 ms on this machine, which is why sequential cycle cases on
//! instance/local containers use a guarded thread instead — see seq.rs.)
//!
//! The child runs the case on worker threads and its main thread only watches.  A hang is not
//! guessed from a timeout alone: the watcher reads /proc/self/task/*/status and declares
//! *blocked* only when every live resolver thread of the case is in state S (sleeping in a futex
//! wait) with unchanged context-switch counters over consecutive samples.  The harness itself
//! never sleeps in those threads (rendezvous waits spin with `yield_now`, state R), and no
//! other thread exists that could wake them, so "all blocked" is a definite mutual wait.  If the
//! generous hard limit passes without that evidence the case is *inconclusive*, not a violation.

use serde::{Deserialize, Serialize};
use serde_json::Value;
use std::collections::BTreeMap;
use std::io::{BufRead, BufReader, Write};
use std::sync::atomic::{AtomicBool, Ordering};
use std::time::{Duration, Instant};
use vcore::{CaseReport, Failure};

pub static IN_CHILD: AtomicBool = AtomicBool::new(false);

pub fn in_child() -> bool {
  IN_CHILD.load(Ordering::Relaxed)
}

#[derive(Clone, Debug, Default, Serialize, Deserialize)]
pub struct Rep {
  pub nontrivial: bool,
  pub classes: Vec<String>,
  pub executions: u64,
  pub inconclusive: u64,
}

impl From<CaseReport> for Rep {
  fn from(r: CaseReport) -> Rep {
    Rep { nontrivial: r.nontrivial, classes: r.classes, executions: r.executions, inconclusive: r.inconclusive }
  }
}
impl From<Rep> for CaseReport {
  fn from(r: Rep) -> CaseReport {
    CaseReport { nontrivial: r.nontrivial, classes: r.classes, executions: r.executions, inconclusive: r.inconclusive }
  }
}

#[derive(Clone, Debug, Serialize, Deserialize)]
enum Verdict {
  Done(Result<Rep, Failure>),
  /// the case did not finish; `blocked` = positive evidence that every worker thread waits
  Hang { blocked: bool, threads: String },
}

#[derive(Debug)]
pub enum Outcome {
  Done(Result<Rep, Failure>),
  /// every live resolver thread of the case is parked for good
  Blocked { threads: String },
  /// hard limit reached while threads were still running (machine too slow?) — inconclusive
  Slow { threads: String },
  /// the child died from a signal (stack overflow ends in SIGABRT/SIGSEGV)
  Crashed { how: String },
  Infra(String),
}

#[derive(Serialize, Deserialize)]
struct Job {
  engine: String,
  scenario: Value,
  hard_ms: u64,
}

/// A child process serving jobs over its stdin/stdout, one JSON line per job.
struct Server {
  child: std::process::Child,
  stdin: Option<std::process::ChildStdin>,
  stdout: BufReader<std::process::ChildStdout>,
}

impl Server {
  fn start() -> Result<Server, String> {
    let exe = std::env::current_exe().map_err(|e| format!("current_exe: {e}"))?;
    let mut child = std::process::Command::new(&exe)
      .arg("child")
      .stdin(std::process::Stdio::piped())
      .stdout(std::process::Stdio::piped())
      .stderr(std::process::Stdio::null())
      .spawn()
      .map_err(|e| format!("spawn {}: {e}", exe.display()))?;
    let stdin = child.stdin.take();
    let stdout = BufReader::new(child.stdout.take().ok_or("no stdout")?);
    Ok(Server { child, stdin, stdout })
  }

  fn job(&mut self, engine: &str, scenario: Value, hard_ms: u64) -> Outcome {
    let mut line = serde_json::to_string(&Job { engine: engine.to_string(), scenario, hard_ms }).unwrap();
    line.push('\n');
    let sent = match self.stdin.as_mut() {
      Some(si) => si.write_all(line.as_bytes()).and_then(|_| si.flush()).is_ok(),
      None => false,
    };
    if sent {
      loop {
        let mut l = String::new();
        match self.stdout.read_line(&mut l) {
          Ok(0) | Err(_) => break,
          Ok(_) => {}
        }
        let l = l.trim_end();
        if let Some(v) = l.strip_prefix("V ") {
          return match serde_json::from_str::<Verdict>(v) {
            Ok(Verdict::Done(r)) => Outcome::Done(r),
            Ok(Verdict::Hang { blocked: true, threads }) => Outcome::Blocked { threads },
            Ok(Verdict::Hang { blocked: false, threads }) => Outcome::Slow { threads },
            Err(e) => Outcome::Infra(format!("bad verdict line: {e}")),
          };
        }
      }
    }
    // no verdict: the child is gone
    self.stdin = None;
    match self.child.wait() {
      Ok(st) => {
        #[cfg(unix)]
        {
          use std::os::unix::process::ExitStatusExt;
          if let Some(sig) = st.signal() {
            return Outcome::Crashed { how: format!("signal {sig}") };
          }
        }
        Outcome::Infra(format!("child ended with {st:?} and no verdict"))
      }
      Err(e) => Outcome::Infra(format!("wait: {e}")),
    }
  }
}

impl Drop for Server {
  fn drop(&mut self) {
    self.stdin = None; // EOF: an idle child exits by itself
    let _ = self.child.kill();
    let _ = self.child.wait();
  }
}

/// Run one case in a fresh child process.
pub fn run_in_child(engine: &str, scenario: Value, hard_ms: u64) -> Outcome {
  // process creation can fail transiently on a loaded machine: retry before giving up
  let mut last = String::new();
  for attempt in 0..4 {
    if attempt > 0 {
      std::thread::sleep(Duration::from_millis(200 * attempt));
    }
    match Server::start() {
      Ok(mut s) => return s.job(engine, scenario, hard_ms),
      Err(e) => last = e,
    }
  }
  Outcome::Infra(last)
}

/// thread names the watcher treats as "threads of the case"
pub const SEQ_WORKER: &str = "e1-worker";
pub const X_PREFIX: &str = "xres-";

/// (state, context switches so far) of one thread of this process
pub fn thread_state(tid: u64) -> Option<(char, u64)> {
  let status = std::fs::read_to_string(format!("/proc/self/task/{tid}/status")).ok()?;
  let mut state = '?';
  let mut sw = 0u64;
  for l in status.lines() {
    if let Some(r) = l.strip_prefix("State:") {
      state = r.trim().chars().next().unwrap_or('?');
    } else if let Some(r) = l.strip_prefix("voluntary_ctxt_switches:") {
      sw += r.trim().parse::<u64>().unwrap_or(0);
    } else if let Some(r) = l.strip_prefix("nonvoluntary_ctxt_switches:") {
      sw += r.trim().parse::<u64>().unwrap_or(0);
    }
  }
  Some((state, sw))
}

fn sample() -> BTreeMap<u64, (char, u64)> {
  let mut m = BTreeMap::new();
  let rd = match std::fs::read_dir("/proc/self/task") {
    Ok(r) => r,
    Err(_) => return m,
  };
  for e in rd.flatten() {
    let tid: u64 = match e.file_name().to_string_lossy().parse() {
      Ok(t) => t,
      Err(_) => continue,
    };
    let comm = std::fs::read_to_string(e.path().join("comm")).unwrap_or_default();
    let comm = comm.trim();
    if !(comm == SEQ_WORKER || comm.starts_with(X_PREFIX)) {
      continue;
    }
    let status = std::fs::read_to_string(e.path().join("status")).unwrap_or_default();
    let mut state = '?';
    let mut sw = 0u64;
    for l in status.lines() {
      if let Some(r) = l.strip_prefix("State:") {
        state = r.trim().chars().next().unwrap_or('?');
      } else if let Some(r) = l.strip_prefix("voluntary_ctxt_switches:") {
        sw += r.trim().parse::<u64>().unwrap_or(0);
      } else if let Some(r) = l.strip_prefix("nonvoluntary_ctxt_switches:") {
        sw += r.trim().parse::<u64>().unwrap_or(0);
      }
    }
    m.insert(tid, (state, sw));
  }
  m
}

/// `iocx child`: serve jobs (one JSON line each) until stdin closes.  Every job runs on fresh
/// worker threads; after a hang verdict the process exits (its threads are stuck for good).
pub fn child_main(run: fn(&str, &Value) -> Result<Rep, Failure>) -> ! {
  IN_CHILD.store(true, Ordering::Relaxed);
  let stdin = std::io::stdin();
  let say = |v: &Verdict| {
    let out = std::io::stdout();
    let mut l = out.lock();
    let _ = writeln!(l, "V {}", serde_json::to_string(v).unwrap());
    let _ = l.flush();
  };
  loop {
    let mut s = String::new();
    match stdin.lock().read_line(&mut s) {
      Ok(0) | Err(_) => std::process::exit(0),
      Ok(_) => {}
    }
    if s.trim().is_empty() {
      continue;
    }
    let job: Job = match serde_json::from_str(&s) {
      Ok(j) => j,
      Err(e) => {
        say(&Verdict::Done(Err(Failure::new("HARNESS", "child/bad_job", e.to_string()))));
        continue;
      }
    };
    let (tx, rx) = std::sync::mpsc::channel();
    let engine = job.engine.clone();
    let scenario = job.scenario.clone();
    // E1 runs on this thread (small stack: a runaway recursion overflows within milliseconds);
    // the cross-thread engine only coordinates here and spawns its `xres-*` threads itself.
    let e1 = engine == "E1";
    std::thread::Builder::new()
      .name(if e1 { SEQ_WORKER } else { "coord" }.to_string())
      .stack_size(2 << 20)
      .spawn(move || {
        let r = run(&engine, &scenario);
        let _ = tx.send(r);
      })
      .expect("spawn worker");
    let start = Instant::now();
    let mut prev: Option<BTreeMap<u64, (char, u64)>> = None;
    let mut stable = 0u32;
    // a sequential history has one thread and nobody who could wake it: 5 identical samples
    // (200 ms without a context switch) settle it; several threads get 10 samples (400 ms)
    let need = if e1 { 5 } else { 10 };
    loop {
      match rx.recv_timeout(Duration::from_millis(40)) {
        Ok(r) => {
          say(&Verdict::Done(r));
          break;
        }
        Err(std::sync::mpsc::RecvTimeoutError::Disconnected) => {
          // the worker died without a result: a harness panic
          say(&Verdict::Done(Err(Failure::new("HARNESS", "child/worker_died", "worker thread ended without a result"))));
          break;
        }
        Err(std::sync::mpsc::RecvTimeoutError::Timeout) => {}
      }
      let cur = sample();
      let all_blocked = !cur.is_empty() && cur.values().all(|(st, _)| *st == 'S');
      if all_blocked && prev.as_ref() == Some(&cur) {
        stable += 1;
      } else {
        stable = 0;
      }
      let threads = cur.values().map(|(s, _)| *s).collect::<String>();
      if stable >= need {
        say(&Verdict::Hang { blocked: true, threads });
        std::process::exit(0);
      }
      if start.elapsed() >= Duration::from_millis(job.hard_ms) {
        say(&Verdict::Hang { blocked: false, threads });
        std::process::exit(0);
      }
      prev = Some(cur);
    }
  }
}
