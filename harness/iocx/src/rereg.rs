//! E5 — a key that stays registered while it is re-registered, resolved concurrently.
//!
//! One case = a container (a fresh instance `Container`, or `global()` with names made unique
//! per execution), ONE target key (type x name of the widened universe), 1–2 *writer* threads
//! that each re-register the target a generated number of times (every registration form the API
//! offers for the key, generated per registration), and 1–6 *reader* threads that resolve the
//! target in a loop for as long as the writers run (through `get` / `maybe_resolve*!` /
//! `resolve*!`).  The target is registered once before any thread starts and the API has no way
//! to unregister, so the key is registered *continuously*.  Two bystander keys that nobody
//! re-registers (same type under a confusable/other name, another type under the same name) are
//! resolved now and then by the readers.
//!
//! Rounds are sequenced so that every re-registration races with resolutions for certain:
//!  * *pace*: before each registration the writer waits (bounded) until every reader has been
//!    seen resolving since the previous one — the readers are in their loop, not still starting;
//!  * *gate* (generated, per case): what a registration owns — the state captured by its factory
//!    closure, and the instance it built — has a `Drop` that, on a writer thread, either dwells a
//!    generated bounded time or waits (bounded) until some reader has begun AND finished a
//!    resolution while the drop is in progress.  A teardown that takes a while is legitimate user
//!    code (closing a pool, joining a thread); the container runs it whenever it lets go of the
//!    replaced registration, i.e. in the middle of `add_*`.
//! All waits are bounded by a few milliseconds; nothing is asserted about time.
//!
//! Oracle: logical timestamps from one SeqCst counter (`clock`).  Registration g: `s_g` taken
//! before the `add_*` call, `c_g` after it returned.  `floor` = max `s_h` over registrations h
//! whose `c_h` has been taken.  A reader loads `floor`, then resolves.  See `check_target`.

use crate::universe::*;
use fibre_ioc::Container;
use proptest::prelude::*;
use serde::{Deserialize, Serialize};
use std::any::Any;
use std::cell::Cell;
use std::panic::{catch_unwind, AssertUnwindSafe};
use std::sync::atomic::{AtomicBool, AtomicU32, AtomicU64, Ordering::SeqCst};
use std::sync::{Arc, Barrier, Mutex};
use std::time::{Duration, Instant};
use vcore::{CaseReport, Failure};

pub const P: &str = "C18";

#[derive(Clone, Debug, Serialize, Deserialize)]
pub struct Rereg {
  pub form: Form,
  pub imp: u8,
  /// the writer resolves the key itself right after registering
  pub get_after: bool,
}

#[derive(Clone, Debug, Serialize, Deserialize)]
pub struct RCase {
  pub global: bool,
  pub ty: u8,
  pub name: u8,
  /// the registration made before any thread starts
  pub first: Rereg,
  /// resolve the key once before the threads start (so that a singleton instance exists and
  /// replacing the registration has something to tear down)
  pub warm: bool,
  /// one list of re-registrations per writer thread (1–2 writers)
  pub writers: Vec<Vec<Rereg>>,
  /// how each reader thread resolves (1–6 readers)
  pub readers: Vec<Via>,
  /// 0 = drops do nothing; 1 = drop waits for a resolution that lies inside it; 2 = drop dwells
  pub gate: u8,
  pub dwell_us: u16,
  /// 0 = busy spin, 1 = yield loop, 2 = sleep
  pub dwell_kind: u8,
  /// how long a lazily run factory dwells (µs)
  pub factory_us: u8,
  /// a reader resolves a bystander key every `bystander`-th iteration (0 = never)
  pub bystander: u8,
  /// readers keep what they resolved until their next resolution (else drop it at once)
  pub hold: bool,
  /// spin iterations a reader idles between two resolutions
  pub gap: u8,
}

static NONCE: AtomicU64 = AtomicU64::new(1);

thread_local! {
  static IS_WRITER: Cell<bool> = const { Cell::new(false) };
}

#[derive(Clone, Copy, PartialEq, Eq, Debug)]
enum Kind {
  Instance,
  Singleton,
  Transient,
}

fn kind_of(ty: u8, form: Form) -> (Form, Kind) {
  if ty >= NCONCRETE {
    // trait keys: `add_singleton_trait` is the only registration the API offers
    return (Form::SingletonArc, Kind::Singleton);
  }
  match form {
    Form::Instance => (Form::Instance, Kind::Instance),
    Form::Singleton => (Form::Singleton, Kind::Singleton),
    Form::SingletonArc => (Form::SingletonArc, Kind::Singleton),
    Form::Transient => (Form::Transient, Kind::Transient),
  }
}

/// spin iterations a reader adds between two resolutions while a writer queues for the lock
const BACKOFF: u32 = 400;
const WAIT_BOUND: Duration = Duration::from_millis(4);
/// a case whose threads are still busy after this long is abandoned as inconclusive
const CASE_BOUND: Duration = Duration::from_secs(20);

fn dwell(us: u64, kind: u8) {
  if us == 0 {
    return;
  }
  let d = Duration::from_micros(us);
  match kind {
    2 => std::thread::sleep(d),
    k => {
      let t = Instant::now();
      while t.elapsed() < d {
        if k == 1 {
          std::thread::yield_now()
        } else {
          std::hint::spin_loop()
        }
      }
    }
  }
}

/// What the threads of one execution share.
struct Rt {
  clock: AtomicU64,
  /// max start stamp among the target registrations whose `add_*` call has returned
  floor: AtomicU64,
  /// per target registration id: start / completion stamps (0 = not yet)
  s: Vec<AtomicU64>,
  c: Vec<AtomicU64>,
  /// per target registration id: factory invocations, resolutions that returned it, the serial
  /// first seen (u64::MAX = none yet)
  calls: Vec<AtomicU32>,
  reads: Vec<AtomicU64>,
  first_serial: Vec<AtomicU64>,
  kinds: Vec<Kind>,
  imps: Vec<u8>,
  next_serial: AtomicU32,
  /// completed reader resolutions of the target / per reader
  reads_done: AtomicU64,
  per_reader: Vec<AtomicU64>,
  stop: AtomicBool,
  /// a writer is inside `add_*` and not inside the teardown of the replaced registration: it
  /// is (or will be) queueing for the map's write lock.  dashmap's shard lock prefers readers,
  /// so readers resolving back to back can keep a writer out for seconds (liveness of
  /// registration is not part of the property): while this is set the readers idle longer
  /// between two resolutions.  They never stop resolving.
  want_lock: AtomicU32,
  fail: Mutex<Option<Failure>>,
  /// registrations during which a reader resolution provably lay inside a drop (gate 1)
  gate_raced: AtomicU64,
  gate_timeouts: AtomicU64,
  gate_dwelled: AtomicU64,
  abandoned: AtomicBool,
}

impl Rt {
  fn tick(&self) -> u64 {
    self.clock.fetch_add(1, SeqCst) + 1
  }
  fn fail(&self, f: Failure) {
    let mut g = self.fail.lock().unwrap_or_else(|e| e.into_inner());
    if g.is_none() {
      *g = Some(f);
    }
    self.stop.store(true, SeqCst);
  }
}

struct Gate {
  rt: Arc<Rt>,
  mode: u8,
  us: u64,
  kind: u8,
  armed: AtomicBool,
  fired: AtomicBool,
}

/// Owned by the factory closure of a registration and by every instance it builds.
struct GateHandle(Arc<Gate>);

impl Drop for GateHandle {
  fn drop(&mut self) {
    let g = &self.0;
    // only the teardown a *registering* thread runs while it replaces the registration is of
    // interest (and only once per registration); everywhere else the drop is free
    if g.mode == 0 || !IS_WRITER.with(|w| w.get()) || !g.armed.load(SeqCst) || g.fired.swap(true, SeqCst) {
      return;
    }
    let rt = &g.rt;
    // the registering thread is past the write lock for the moment: readers at full speed
    let w = rt.want_lock.swap(0, SeqCst);
    let _back = Restore(&rt.want_lock, w);
    if g.mode == 2 {
      dwell(g.us, g.kind);
      rt.gate_dwelled.fetch_add(1, SeqCst);
      return;
    }
    // wait until some reader has begun and finished a resolution inside this drop: after
    // (#readers + 1) completions at least one reader completed two, and its second one began
    // after its first one ended, i.e. after this drop began
    let need = rt.reads_done.load(SeqCst) + rt.per_reader.len() as u64 + 1;
    let t0 = Instant::now();
    let mut spins = 0u32;
    loop {
      if rt.reads_done.load(SeqCst) >= need {
        rt.gate_raced.fetch_add(1, SeqCst);
        return;
      }
      if rt.stop.load(SeqCst) || t0.elapsed() > WAIT_BOUND {
        rt.gate_timeouts.fetch_add(1, SeqCst);
        return;
      }
      relax(&mut spins);
    }
  }
}

/// development aid: IOCX_E5_TRACE=1 prints the writers' progress with timestamps
fn trace() -> bool {
  static T: std::sync::OnceLock<bool> = std::sync::OnceLock::new();
  *T.get_or_init(|| std::env::var("IOCX_E5_TRACE").is_ok())
}

/// Waiting for another running thread: spin (the wait is expected to last microseconds; a
/// `yield_now` on a loaded machine costs a whole time slice), and only now and then yield.
fn relax(spins: &mut u32) {
  *spins += 1;
  if *spins % 4096 == 0 {
    std::thread::yield_now();
  } else {
    std::hint::spin_loop();
  }
}

struct Restore<'a>(&'a AtomicU32, u32);
impl Drop for Restore<'_> {
  fn drop(&mut self) {
    self.0.fetch_add(self.1, SeqCst);
  }
}

fn panic_text(p: Box<dyn Any + Send>) -> String {
  p.downcast_ref::<String>().cloned().or_else(|| p.downcast_ref::<&str>().map(|s| s.to_string())).unwrap_or_default()
}

struct Key {
  cw: CW,
  ty: u8,
  name: Option<String>,
  ck: &'static str,
  tk: &'static str,
}

/// One resolution of the target and everything the property says about its result.
/// `floor` was loaded before the resolution began.  Returns what must be kept alive.
fn check_target(rt: &Rt, key: &Key, via: Via, who: &str, last_transient: &mut Option<(u32, u32)>) -> Option<Box<dyn Any + Send>> {
  let (ck, tk) = (key.ck, key.tk);
  let floor = rt.floor.load(SeqCst);
  let r = catch_unwind(AssertUnwindSafe(|| key.cw.with(|c, g| cget_send(c, g, key.ty, key.name.as_deref(), via))));
  let at = || format!("{who} resolving the target (ty{} name {:?}) via {via:?}", key.ty, key.name.as_deref().map(|s| if s.len() > 40 { &s[s.len() - 12..] } else { s }));
  let g = match r {
    Err(p) => {
      let m = panic_text(p);
      if m.contains("Failed to resolve required service") {
        // the documented panic of `resolve!` / `resolve_from!` for a service that is not there
        // "the latest registration of a key is the one resolved afterwards": the key has been
        // registered since before this thread started and there is no way to unregister
        rt.fail(Failure::new(P, format!("E5/{ck}/{tk}/registered_key_resolved_none"), format!("{}: the key has been registered continuously (it is only ever re-registered) but `resolve` found no service: {m}", at())));
      } else {
        rt.fail(Failure::new(P, format!("E5/{ck}/{tk}/resolution_panicked"), format!("{}: panicked: {m}", at())));
      }
      return None;
    }
    Ok(None) => {
      // "the latest registration of a key is the one resolved afterwards" / only "an
      // unregistered key resolves to None": this key is registered at every instant
      rt.fail(Failure::new(P, format!("E5/{ck}/{tk}/registered_key_resolved_none"), format!("{}: got None although the key has been registered continuously (it is only ever re-registered)", at())));
      return None;
    }
    Ok(Some(g)) => g,
  };
  let id = g.inst.reg as usize;
  if id >= rt.kinds.len() {
    // "differently typed or named registrations never alias"
    rt.fail(Failure::new(P, format!("E5/{ck}/{tk}/aliased_other_registration"), format!("{}: got {:?}, which no registration of this key built", at(), g.inst)));
    return None;
  }
  let cg = rt.c[id].load(SeqCst);
  if cg != 0 && cg < floor {
    // "the latest registration of a key is the one resolved afterwards": registration #id had
    // returned (stamp cg) before another registration of the key was even started (stamp >
    // cg), and that one had returned before this resolution began
    rt.fail(Failure::new(P, format!("E5/{ck}/{tk}/stale_registration_resolved"), format!("{}: got {:?} of registration #{id} (completed at logical time {cg}), but a registration started at {floor} > {cg} had completed before this resolution began", at(), g.inst)));
    return None;
  }
  if g.inst.imp != rt.imps[id] {
    rt.fail(Failure::new(P, format!("E5/{ck}/{tk}/wrong_impl_type"), format!("{}: registration #{id} builds impl {}, got {:?}", at(), rt.imps[id], g.inst)));
    return None;
  }
  match rt.kinds[id] {
    Kind::Instance | Kind::Singleton => {
      // "gives every caller the same instance" (per registration: each one has its own cell)
      let ser = g.inst.serial as u64;
      let prev = match rt.first_serial[id].compare_exchange(u64::MAX, ser, SeqCst, SeqCst) {
        Ok(_) => ser,
        Err(p) => p,
      };
      if prev != ser {
        rt.fail(Failure::new(P, format!("E5/{ck}/singleton/callers_got_different_instances"), format!("{}: registration #{id} ({:?}) handed out instance serial {prev} and now serial {ser}", at(), rt.kinds[id])));
        return None;
      }
    }
    Kind::Transient => {
      rt.reads[id].fetch_add(1, SeqCst);
      // "a transient registration yields a fresh instance on every resolution"
      if *last_transient == Some((id as u32, g.inst.serial)) {
        rt.fail(Failure::new(P, format!("E5/{ck}/transient/not_fresh_per_resolution"), format!("{}: two consecutive resolutions returned the same instance {:?}", at(), g.inst)));
        return None;
      }
      *last_transient = Some((id as u32, g.inst.serial));
    }
  }
  Some(g.keep)
}

pub fn execute(case: &RCase, reps: u32) -> Result<CaseReport, Failure> {
  let mut rep = CaseReport::new();
  for _ in 0..reps.max(1) {
    let r = run_once(case)?;
    rep.nontrivial |= r.nontrivial;
    rep.inconclusive += r.inconclusive;
    for c in r.classes {
      rep.class(c);
    }
  }
  rep.executions = reps.max(1) as u64;
  Ok(rep)
}

fn run_once(case: &RCase) -> Result<CaseReport, Failure> {
  let mut rep = CaseReport::new();
  rep.class("E5");
  let ck = if case.global { "global" } else { "instance" };
  rep.class(format!("E5:{ck}"));
  let ty = case.ty.min(NTY - 1);
  let name = case.name.min(NNAMES - 1);
  let tk = if ty >= NCONCRETE { "trait" } else { "concrete" };
  rep.class(format!("E5:key:{tk}:{}", if name == 0 { "unnamed" } else if name < PLAIN_NAMES { "named" } else { "confusable_name" }));
  let writers: Vec<Vec<Rereg>> = case.writers.iter().take(2).cloned().collect();
  let writers = if writers.is_empty() { vec![vec![]] } else { writers };
  let readers: Vec<Via> = if case.readers.is_empty() { vec![Via::Method] } else { case.readers.iter().take(6).copied().collect() };
  rep.class(format!("E5:writers:{}", writers.len()));
  rep.class(format!("E5:readers:{}", match readers.len() { 1 => "1", 2 => "2", 3..=4 => "3-4", _ => "5-6" }));
  rep.class(format!("E5:gate:{}", match case.gate { 0 => "none", 1 => "drop_waits_for_a_resolution", _ => "drop_dwells" }));

  // registration ids of the target: 0 = the one made up front, then writer by writer
  let mut kinds = vec![kind_of(ty, case.first.form).1];
  let mut imps = vec![case.first.imp.min(1)];
  let mut offsets = Vec::new();
  for w in &writers {
    offsets.push(kinds.len());
    for r in w {
      kinds.push(kind_of(ty, r.form).1);
      imps.push(r.imp.min(1));
    }
  }
  let n_t = kinds.len();
  let by_regs = [n_t as u32, n_t as u32 + 1];

  let nonce = NONCE.fetch_add(1, SeqCst);
  let inst = Arc::new(Container::new());
  let cw = if case.global { CW::Global } else { CW::Inst(Arc::downgrade(&inst)) };
  let global = case.global;
  let nm = move |n: u8| -> Option<String> {
    if global {
      // ("~r": E4 uses "~<n>" with a counter of its own on the same process-wide container)
      Some(format!("{}~r{nonce}", name_of(n).unwrap_or("n")))
    } else {
      name_of(n).map(String::from)
    }
  };
  let key = Key { cw: cw.clone(), ty, name: nm(name), ck, tk };

  let rt = Arc::new(Rt {
    clock: AtomicU64::new(0),
    floor: AtomicU64::new(0),
    s: (0..n_t).map(|_| AtomicU64::new(0)).collect(),
    c: (0..n_t).map(|_| AtomicU64::new(0)).collect(),
    calls: (0..n_t + 2).map(|_| AtomicU32::new(0)).collect(),
    reads: (0..n_t).map(|_| AtomicU64::new(0)).collect(),
    first_serial: (0..n_t).map(|_| AtomicU64::new(u64::MAX)).collect(),
    kinds: kinds.clone(),
    imps: imps.clone(),
    next_serial: AtomicU32::new(0),
    reads_done: AtomicU64::new(0),
    per_reader: (0..readers.len()).map(|_| AtomicU64::new(0)).collect(),
    stop: AtomicBool::new(false),
    want_lock: AtomicU32::new(0),
    fail: Mutex::new(None),
    gate_raced: AtomicU64::new(0),
    gate_timeouts: AtomicU64::new(0),
    gate_dwelled: AtomicU64::new(0),
    abandoned: AtomicBool::new(false),
  });

  // one registration of the target: stamps, gate, factory
  let (gate_mode, dwell_us, dwell_kind, factory_us) = (case.gate.min(2), case.dwell_us as u64, case.dwell_kind, case.factory_us as u64);
  let register = {
    let rt = rt.clone();
    let cw = cw.clone();
    let tname = nm(name);
    move |id: usize, form: Form| -> Result<(), String> {
      let (form, _) = kind_of(ty, form);
      let gate = Arc::new(Gate { rt: rt.clone(), mode: gate_mode, us: dwell_us, kind: dwell_kind, armed: AtomicBool::new(false), fired: AtomicBool::new(false) });
      let owned = GateHandle(gate.clone());
      let (rt2, gate2, imp) = (rt.clone(), gate.clone(), rt.imps[id]);
      let lazy = form != Form::Instance;
      let fac = move || {
        let _owned = &owned; // the closure owns a handle: dropped with the registration
        rt2.calls[id].fetch_add(1, SeqCst);
        if lazy {
          dwell(factory_us, 0);
        }
        let serial = rt2.next_serial.fetch_add(1, SeqCst);
        (Inst { serial, reg: id as u32, imp }, Some(Box::new(GateHandle(gate2.clone())) as Box<dyn Any + Send + Sync>))
      };
      let s = rt.tick();
      rt.s[id].store(s, SeqCst);
      rt.want_lock.fetch_add(1, SeqCst);
      let r = catch_unwind(AssertUnwindSafe(|| cw.with(|c, _| creg_t(c, ty, tname.as_deref(), form, imp, fac))));
      rt.want_lock.fetch_sub(1, SeqCst);
      // from now on whoever lets go of this registration on a registering thread runs the gate
      gate.armed.store(true, SeqCst);
      let c = rt.tick();
      rt.c[id].store(c, SeqCst);
      rt.floor.fetch_max(s, SeqCst);
      r.map_err(panic_text)
    }
  };

  if let Err(m) = register(0, case.first.form) {
    return Err(Failure::new(P, format!("E5/{ck}/{tk}/registration_panicked"), format!("the first registration of the target panicked: {m}")));
  }
  // bystanders: never re-registered.  A = same type under the confusable partner of the
  // target's name (else under another name), B = another type under the same name.
  let by_a_name = TWINS.iter().find_map(|&(a, b)| if a == name { Some(b) } else if b == name { Some(a) } else { None }).unwrap_or(if name == 2 { 1 } else { 2 });
  let by_keys: [(u8, u8); 2] = [(ty, by_a_name), ((ty + 1 + case.gap % 6) % NTY, name)];
  for (i, &(bt, bn)) in by_keys.iter().enumerate() {
    let (rt2, reg) = (rt.clone(), by_regs[i]);
    let idx = n_t + i;
    let form = if bt >= NCONCRETE { Form::SingletonArc } else if i == 0 { Form::Instance } else { Form::Singleton };
    cw.with(|c, _| {
      creg(c, bt, nm(bn).as_deref(), form, 0, move || {
        rt2.calls[idx].fetch_add(1, SeqCst);
        Inst { serial: 1_000_000 + reg, reg, imp: 0 }
      })
    });
  }
  let mut keep_main: Vec<Box<dyn Any + Send>> = Vec::new();
  if case.warm {
    rep.class("E5:instance_exists_before_replacement");
    if let Some(k) = check_target(&rt, &key, Via::Method, "the main thread (before any other thread exists)", &mut None) {
      drop(k); // the container holds the only reference
    }
  }

  let n_threads = readers.len() + writers.len();
  let start = Barrier::new(n_threads + 1);
  let t_case = Instant::now();
  let overlapped = AtomicU64::new(0);
  let regs_done = AtomicU64::new(0);
  std::thread::scope(|s| {
    for (ri, &via) in readers.iter().enumerate() {
      let (rt, key, start, by_keys, nm) = (&rt, &key, &start, &by_keys, &nm);
      let (every, hold, gap) = (case.bystander as u64, case.hold, case.gap as u32);
      s.spawn(move || {
        let by_names: Vec<Option<String>> = by_keys.iter().map(|k| nm(k.1)).collect();
        let who = format!("reader {ri}");
        let mut held: Option<Box<dyn Any + Send>> = None;
        let mut last_tr = None;
        let mut i = 0u64;
        start.wait();
        while !rt.stop.load(SeqCst) {
          i += 1;
          if i % 256 == 0 && t_case.elapsed() > CASE_BOUND {
            rt.abandoned.store(true, SeqCst);
            rt.stop.store(true, SeqCst);
            break;
          }
          if every > 0 && i % every == 0 {
            let b = (i / every) as usize % 2;
            let (bt, _) = by_keys[b];
            // "differently typed or named registrations never alias"; the bystander's one and
            // only registration is "the latest registration of a key"
            match catch_unwind(AssertUnwindSafe(|| key.cw.with(|c, g| cget_send(c, g, bt, by_names[b].as_deref(), Via::Method)))) {
              Ok(Some(g)) if g.inst.reg == by_regs[b] => {}
              Ok(Some(g)) => rt.fail(Failure::new(P, format!("E5/{}/bystander/aliased_other_registration", key.ck), format!("{who}: bystander key (ty{bt}, registered once, never re-registered) resolved to {:?} while the target (ty{}) was being re-registered", g.inst, key.ty))),
              Ok(None) => rt.fail(Failure::new(P, format!("E5/{}/bystander/registered_key_resolved_none", key.ck), format!("{who}: bystander key (ty{bt}, registered once, never re-registered) resolved to None while the target (ty{}) was being re-registered", key.ty))),
              Err(p) => rt.fail(Failure::new(P, format!("E5/{}/bystander/resolution_panicked", key.ck), format!("{who}: resolving a bystander key panicked: {}", panic_text(p)))),
            }
            continue;
          }
          let k = check_target(rt, key, via, &who, &mut last_tr);
          rt.per_reader[ri].fetch_add(1, SeqCst);
          rt.reads_done.fetch_add(1, SeqCst);
          if hold {
            held = k;
          } else {
            drop(k);
          }
          let mut idle = gap;
          if rt.want_lock.load(SeqCst) > 0 {
            // give the processor away at a point where this thread holds nothing, then idle
            std::thread::yield_now();
            idle += BACKOFF;
          }
          for _ in 0..idle {
            std::hint::spin_loop();
          }
        }
        drop(held);
      });
    }
    let mut whs = Vec::new();
    for (wi, list) in writers.iter().enumerate() {
      let (rt, key, start, register, overlapped, regs_done) = (&rt, &key, &start, &register, &overlapped, &regs_done);
      let off = offsets[wi];
      whs.push(s.spawn(move || {
        IS_WRITER.with(|w| w.set(true));
        let who = format!("writer {wi}");
        let mut seen: Vec<u64> = rt.per_reader.iter().map(|_| 0).collect();
        start.wait();
        for (j, r) in list.iter().enumerate() {
          if rt.stop.load(SeqCst) {
            break;
          }
          // pace: every reader has completed a resolution since the previous registration
          let t0 = Instant::now();
          let mut spins = 0u32;
          loop {
            if rt.per_reader.iter().zip(seen.iter()).all(|(a, &b)| a.load(SeqCst) > b) || rt.stop.load(SeqCst) || t0.elapsed() > WAIT_BOUND {
              break;
            }
            relax(&mut spins);
          }
          let t0 = t0.elapsed();
          for (a, b) in rt.per_reader.iter().zip(seen.iter_mut()) {
            *b = a.load(SeqCst);
          }
          let before = rt.reads_done.load(SeqCst);
          let id = off + j;
          if let Err(m) = register(id, r.form) {
            rt.fail(Failure::new(P, format!("E5/{}/{}/registration_panicked", key.ck, key.tk), format!("{who}: re-registration #{id} ({:?}) panicked: {m}", r.form)));
            break;
          }
          regs_done.fetch_add(1, SeqCst);
          if trace() {
            eprintln!("[{:?}] {who}: registration #{id} ({:?}) done, paced {:?}, reads so far {}", t_case.elapsed(), r.form, t0, rt.reads_done.load(SeqCst));
          }
          if rt.reads_done.load(SeqCst) > before {
            // a reader resolution ended while this registration was in progress
            overlapped.fetch_add(1, SeqCst);
          }
          if r.get_after {
            // program order on this thread: its own registration has completed, so every
            // registration that had completed before it started is stale (the floor rule); with
            // a single writer that leaves exactly this registration
            let mut lt = None;
            if let Some(k) = check_target(rt, key, Via::Method, &who, &mut lt) {
              drop(k);
            }
          }
        }
      }));
    }
    start.wait();
    for h in whs {
      let _ = h.join();
    }
    rt.stop.store(true, SeqCst);
  });
  IS_WRITER.with(|w| w.set(false));

  if let Some(f) = rt.fail.lock().unwrap_or_else(|e| e.into_inner()).take() {
    // never drop a possibly corrupted container
    std::mem::forget(inst);
    return Err(f);
  }
  if rt.abandoned.load(SeqCst) {
    rep.inconclusive = 1;
    rep.class("E5:abandoned_after_case_bound");
    return Ok(rep);
  }

  // ---- quiescent oracle -------------------------------------------------------------------
  let mut lt = None;
  let qkey = Key { cw: cw.clone(), ty, name: nm(name), ck, tk: "quiescent" };
  if let Some(k) = check_target(&rt, &qkey, Via::Method, "the main thread (after all threads ended)", &mut lt) {
    keep_main.push(k);
  }
  if let Some(f) = rt.fail.lock().unwrap_or_else(|e| e.into_inner()).take() {
    std::mem::forget(inst);
    return Err(f);
  }
  for id in 0..n_t {
    let calls = rt.calls[id].load(SeqCst);
    match kinds[id] {
      // "runs its factory at most once" (each registration has its own cell)
      Kind::Singleton if calls > 1 => {
        return Err(Failure::new(P, format!("E5/{ck}/singleton/factory_ran_more_than_once"), format!("registration #{id} of the target (singleton) ran its factory {calls} times")));
      }
      // "a transient registration yields a fresh instance on every resolution"
      Kind::Transient if (calls as u64) < rt.reads[id].load(SeqCst) => {
        return Err(Failure::new(P, format!("E5/{ck}/transient/not_fresh_per_resolution"), format!("registration #{id} of the target (transient) was returned by {} resolutions but its factory ran {calls} times", rt.reads[id].load(SeqCst))));
      }
      _ => {}
    }
  }
  for (i, &reg) in by_regs.iter().enumerate() {
    let calls = rt.calls[n_t + i].load(SeqCst);
    if calls > 1 {
      return Err(Failure::new(P, format!("E5/{ck}/bystander/factory_ran_more_than_once"), format!("bystander registration #{reg} ran its factory {calls} times")));
    }
  }

  // ---- what the case exercised --------------------------------------------------------------
  let regs = regs_done.load(SeqCst);
  let ov = overlapped.load(SeqCst);
  let raced = rt.gate_raced.load(SeqCst);
  if regs > 0 {
    rep.class("E5:re_registered_while_resolving");
  }
  if ov > 0 {
    rep.class("E5:resolution_ended_during_a_re_registration");
  }
  if raced > 0 {
    rep.class("E5:resolution_inside_teardown_of_replaced_registration");
  }
  if rt.gate_dwelled.load(SeqCst) > 0 {
    rep.class("E5:teardown_dwelled");
  }
  if rt.gate_timeouts.load(SeqCst) > 0 {
    rep.class("E5:gate_wait_timed_out");
  }
  let mut forms = std::collections::BTreeSet::new();
  for w in &writers {
    for r in w {
      forms.insert(format!("{:?}", kind_of(ty, r.form).0));
    }
  }
  for f in forms {
    rep.class(format!("E5:rereg_form:{f}"));
  }
  if readers.iter().any(|v| *v != Via::Method) {
    rep.class("E5:via_macros");
  }
  if case.bystander > 0 {
    rep.class("E5:bystander_keys_resolved");
  }
  // non-trivial: a reader resolution provably overlapped a re-registration of the key
  rep.nontrivial = ov > 0 || raced > 0;
  drop(keep_main);
  Ok(rep)
}

// ---------------------------------------------------------------------------------------------
// generation
// ---------------------------------------------------------------------------------------------

fn rereg_s() -> impl Strategy<Value = Rereg> {
  (prop_oneof![2 => Just(Form::Instance), 4 => Just(Form::Singleton), 2 => Just(Form::Transient), 2 => Just(Form::SingletonArc)], 0u8..2, prop_oneof![3 => Just(false), 1 => Just(true)]).prop_map(|(form, imp, get_after)| Rereg { form, imp, get_after })
}

pub fn strategy(max_rounds: usize) -> impl Strategy<Value = RCase> {
  let via = prop_oneof![3 => Just(Via::Method), 1 => Just(Via::Maybe), 1 => Just(Via::Resolve)];
  let key = (0u8..NTY, prop_oneof![3 => Just(0u8), 2 => 1u8..PLAIN_NAMES, 2 => PLAIN_NAMES..NNAMES]);
  let shape = (proptest::collection::vec(proptest::collection::vec(rereg_s(), 1..=max_rounds), 1..=2), proptest::collection::vec(via, 1..=6));
  // (the waiting gate first: proptest shrinks towards the first alternative, and a shrunk case
  // with the waiting gate reproduces deterministically)
  let gate = (prop_oneof![5 => Just(1u8), 2 => Just(0u8), 2 => Just(2u8)], 1u16..300, 0u8..3, prop_oneof![2 => Just(0u8), 1 => 1u8..40]);
  let misc = (prop_oneof![1 => Just(0u8), 2 => 2u8..12], any::<bool>(), 0u8..40);
  (prop_oneof![3 => Just(false), 1 => Just(true)], key, rereg_s(), prop_oneof![3 => Just(true), 1 => Just(false)], shape, gate, misc).prop_map(|(global, (ty, name), first, warm, (writers, readers), (gate, dwell_us, dwell_kind, factory_us), (bystander, hold, gap))| RCase {
    global,
    ty,
    name,
    first,
    warm,
    writers,
    readers,
    gate,
    dwell_us,
    dwell_kind,
    factory_us,
    bystander,
    hold,
    gap,
  })
}
