//! E1 — sequential registration / resolution histories against a reference model.
//!
//! Three container slots per case: slot 0 = `fibre_ioc::global()` (case flag `global`, the case
//! then runs in a fresh child process) or an instance `Container`; slot 1 = a second instance
//! `Container`; slot 2 = a `LocalContainer` (behind `Rc<RefCell<_>>`, the way the crate's own
//! tests let local factories reach their container).  Ops register keys of the fixed universe
//! (8 types x 16 names, 13 of them confusable with another name — universe.rs `name_of`)
//! with every registration form, with factories that resolve other keys (same or other
//! container), and resolve keys through `get` and the macros.  After the generated ops every
//! key of every slot is resolved once more (the *sweep*), so aliasing and "unregistered" are
//! checked systematically and not only where the generator happened to look.
//!
//! The history is single-threaded, so every step has exactly one correct outcome and the oracle
//! is equality with the model: result of each resolution, the complete log of factory
//! invocations/completions (with what every dependency resolved to), and pointer identity.

use crate::child;
use crate::universe::*;
use fibre_ioc::{Container, LocalContainer};
use proptest::prelude::*;
use serde::{Deserialize, Serialize};
use std::any::Any;
use std::cell::RefCell;
use std::collections::{BTreeMap, BTreeSet};
use std::panic::{catch_unwind, AssertUnwindSafe};
use std::rc::Rc;
use std::sync::atomic::{AtomicBool, AtomicU64, AtomicUsize, Ordering};
use std::sync::{Arc, Mutex};
use vcore::{idx, CaseReport, Failure};

pub const P: &str = "C18";

#[derive(Clone, Debug, Serialize, Deserialize, PartialEq, Eq)]
pub struct Dep {
  pub slot: u8,
  pub ty: u8,
  pub name: u8,
}

#[derive(Clone, Debug, Serialize, Deserialize, PartialEq, Eq)]
pub enum Op {
  /// register (slot, ty, name); the factory resolves `deps` in order before building
  Reg { slot: u8, ty: u8, name: u8, form: Form, imp: u8, deps: Vec<Dep> },
  Get { slot: u8, ty: u8, name: u8, via: Via },
  /// resolve the `sel`-th currently registered key (monotone index over the model's keys)
  GetKnown { sel: u16, via: Via },
}

#[derive(Clone, Debug, Serialize, Deserialize)]
pub struct SeqCase {
  /// slot 0 is the process-wide `global()` container (else an instance `Container`)
  pub global: bool,
  pub ops: Vec<Op>,
}

// ---------------------------------------------------------------------------------------------
// model
// ---------------------------------------------------------------------------------------------

#[derive(Clone, Copy, Debug, PartialEq, Eq)]
enum Kind {
  Instance,
  Singleton,
  Transient,
}

#[derive(Clone, Debug)]
struct MReg {
  reg: u32,
  kind: Kind,
  imp: u8,
  deps: Vec<Dep>,
  /// the one instance of an Instance / already initialised Singleton registration
  cached: Option<u32>,
  /// how many times this key has been registered in this container (1 = first)
  gen: u32,
}

#[derive(Default)]
struct Flags {
  /// a factory with at least one dependency ran
  dep_factory: bool,
  /// a dependency pointed into another container
  cross_container: bool,
  /// the same (type, name) key of ANOTHER container was on the resolution path (legal, no cycle)
  xsame: bool,
}

struct Model {
  slots: [BTreeMap<(u8, u8), MReg>; 3],
  log: Log,
  next_reg: u32,
  /// registration id -> (slot, ty, name)
  reg_key: BTreeMap<u32, (u8, u8, u8)>,
}

struct Cycle;

impl Model {
  fn new() -> Model {
    Model { slots: [BTreeMap::new(), BTreeMap::new(), BTreeMap::new()], log: Log::default(), next_reg: 0, reg_key: BTreeMap::new() }
  }

  fn register(&mut self, slot: u8, ty: u8, name: u8, kind: Kind, imp: u8, deps: Vec<Dep>) -> u32 {
    let reg = self.next_reg;
    self.next_reg += 1;
    self.reg_key.insert(reg, (slot, ty, name));
    let gen = self.slots[slot as usize].get(&(ty, name)).map(|r| r.gen + 1).unwrap_or(1);
    let cached = if kind == Kind::Instance { Some(self.log.create(reg, imp, vec![]).serial) } else { None };
    // "the latest registration of a key is the one resolved afterwards": replace
    self.slots[slot as usize].insert((ty, name), MReg { reg, kind, imp, deps, cached, gen });
    reg
  }

  /// What resolving (slot, ty, name) must do.  `stack` = keys whose factories are running.
  fn resolve(&mut self, slot: u8, ty: u8, name: u8, stack: &mut Vec<(u8, u8, u8)>, fl: &mut Flags) -> Result<Option<u32>, Cycle> {
    // "a dependency cycle is reported by a panic": the service is (transitively) needed to
    // build itself
    if stack.contains(&(slot, ty, name)) {
      return Err(Cycle);
    }
    if stack.iter().any(|&(s, t, n)| s != slot && t == ty && n == name) {
      fl.xsame = true;
    }
    // "an unregistered key resolves to None"
    let r = match self.slots[slot as usize].get(&(ty, name)) {
      None => return Ok(None),
      Some(r) => r.clone(),
    };
    match r.kind {
      Kind::Instance => Ok(r.cached),
      // "runs its factory at most once and gives every caller the same instance"
      Kind::Singleton if r.cached.is_some() => Ok(r.cached),
      // first resolution of a singleton generation, or "a transient registration yields a
      // fresh instance on every resolution"
      _ => {
        *self.log.calls.entry(r.reg).or_default() += 1;
        if !r.deps.is_empty() {
          fl.dep_factory = true;
        }
        stack.push((slot, ty, name));
        let mut obs = Vec::new();
        for d in &r.deps {
          if d.slot != slot {
            fl.cross_container = true;
          }
          // a cycle below aborts this factory: nothing is logged or cached for it
          obs.push(self.resolve(d.slot, d.ty, d.name, stack, fl)?);
        }
        stack.pop();
        let inst = self.log.create(r.reg, r.imp, obs);
        if r.kind == Kind::Singleton {
          // the registration cannot have changed meanwhile: factories do not register
          if let Some(m) = self.slots[slot as usize].get_mut(&(ty, name)) {
            m.cached = Some(inst.serial);
          }
        }
        Ok(Some(inst.serial))
      }
    }
  }

  fn known_keys(&self) -> Vec<(u8, u8, u8)> {
    let mut v = Vec::new();
    for s in 0..3u8 {
      for (&(t, n), _) in &self.slots[s as usize] {
        v.push((s, t, n));
      }
    }
    v
  }
}

// ---------------------------------------------------------------------------------------------
// normalisation shared by model and interpreter
// ---------------------------------------------------------------------------------------------

fn norm_key(slot: u8, ty: u8, name: u8) -> (u8, u8, u8) {
  (slot.min(2), ty.min(NTY - 1), name.min(NNAMES - 1))
}

/// The API form actually used and the model kind it has.
fn effective(slot: u8, ty: u8, form: Form) -> (Form, Kind) {
  if ty >= NCONCRETE {
    // trait keys: `add_singleton_trait` is the only registration the API offers
    return (Form::SingletonArc, Kind::Singleton);
  }
  match form {
    Form::Instance if slot == 2 => (Form::Singleton, Kind::Singleton),
    Form::Instance => (Form::Instance, Kind::Instance),
    Form::Singleton => (Form::Singleton, Kind::Singleton),
    Form::SingletonArc => (Form::SingletonArc, Kind::Singleton),
    Form::Transient => (Form::Transient, Kind::Transient),
  }
}

/// Factories of the thread-safe containers must be Send + Sync and therefore cannot reach a
/// LocalContainer: such a dependency is redirected to the registering container.
fn norm_deps(slot: u8, kind: Kind, deps: &[Dep]) -> Vec<Dep> {
  if kind == Kind::Instance {
    return vec![];
  }
  deps
    .iter()
    .map(|d| {
      let (s, t, n) = norm_key(d.slot, d.ty, d.name);
      Dep { slot: if slot != 2 && s == 2 { slot } else { s }, ty: t, name: n }
    })
    .collect()
}

fn ck(global: bool, slot: u8) -> &'static str {
  match slot {
    0 if global => "global",
    0 | 1 => "instance",
    _ => "local",
  }
}

// ---------------------------------------------------------------------------------------------
// the real side
// ---------------------------------------------------------------------------------------------

struct Env {
  global: bool,
  c0: Arc<Container>,
  c1: Arc<Container>,
  l: Rc<RefCell<LocalContainer>>,
  shared: Shared,
  /// every Arc/Rc obtained by a top-level resolution stays alive until the end of the case
  keep: Vec<Box<dyn Any>>,
  addr_of: BTreeMap<u32, usize>,
  addrs: BTreeSet<usize>,
}

impl Env {
  fn new(global: bool) -> Env {
    Env {
      global,
      c0: Arc::new(Container::new()),
      c1: Arc::new(Container::new()),
      l: Rc::new(RefCell::new(LocalContainer::new())),
      shared: Arc::new(Mutex::new(Log::default())),
      keep: vec![],
      addr_of: BTreeMap::new(),
      addrs: BTreeSet::new(),
    }
  }

  fn cw(&self, slot: u8) -> CW {
    match slot {
      0 if self.global => CW::Global,
      0 => CW::Inst(Arc::downgrade(&self.c0)),
      _ => CW::Inst(Arc::downgrade(&self.c1)),
    }
  }

  fn register(&self, slot: u8, ty: u8, name: u8, form: Form, reg: u32, imp: u8, deps: &[Dep]) {
    let nm = name_of(name);
    if form == Form::Instance {
      // the value is built by the caller, at registration time
      let sh = self.shared.clone();
      let f = move || lock(&sh).create(reg, imp, vec![]);
      self.cw(slot).with(|c, _| creg(c, ty, nm, form, imp, f));
      return;
    }
    if slot == 2 {
      let deps: Vec<ADep> = deps
        .iter()
        .map(|d| ADep { c: if d.slot == 2 { AW::L(Rc::downgrade(&self.l)) } else { AW::C(self.cw(d.slot)) }, ty: d.ty, name: name_of(d.name).map(String::from) })
        .collect();
      lreg(&mut self.l.borrow_mut(), ty, nm, form, imp, make_factory(self.shared.clone(), reg, imp, deps));
    } else {
      let deps: Vec<CDep> = deps.iter().map(|d| CDep { c: self.cw(d.slot), ty: d.ty, name: name_of(d.name).map(String::from) }).collect();
      self.cw(slot).with(|c, _| creg(c, ty, nm, form, imp, make_factory(self.shared.clone(), reg, imp, deps)));
    }
  }

  fn get(&self, slot: u8, ty: u8, name: u8, via: Via) -> Option<Got> {
    let nm = name_of(name);
    if slot == 2 {
      let b = self.l.borrow();
      lget(&b, ty, nm, via)
    } else {
      self.cw(slot).with(|c, g| cget(c, g, ty, nm, via))
    }
  }
}

fn panic_msg(p: &Box<dyn Any + Send>) -> String {
  if let Some(s) = p.downcast_ref::<&str>() {
    s.to_string()
  } else if let Some(s) = p.downcast_ref::<String>() {
    s.clone()
  } else {
    "non-string panic".to_string()
  }
}

fn site(msg: &str) -> String {
  msg.chars().take(40).map(|c| if c.is_ascii_alphanumeric() { c } else { '_' }).collect()
}

// ---------------------------------------------------------------------------------------------
// interpreter
// ---------------------------------------------------------------------------------------------

/// Model-only pass: does any resolution of this history (sweep included) end in a cycle?
fn predicts_cycle(case: &SeqCase) -> bool {
  let mut m = Model::new();
  let mut fl = Flags::default();
  let mut any = false;
  let mut get = |m: &mut Model, s: u8, t: u8, n: u8| {
    let mut st = Vec::new();
    if m.resolve(s, t, n, &mut st, &mut fl).is_err() {
      any = true;
    }
  };
  for op in &case.ops {
    match op {
      Op::Reg { slot, ty, name, form, imp, deps } => {
        let (s, t, n) = norm_key(*slot, *ty, *name);
        let (_, kind) = effective(s, t, *form);
        m.register(s, t, n, kind, *imp, norm_deps(s, kind, deps));
      }
      Op::Get { slot, ty, name, .. } => {
        let (s, t, n) = norm_key(*slot, *ty, *name);
        get(&mut m, s, t, n);
      }
      Op::GetKnown { sel, .. } => {
        let ks = m.known_keys();
        let (s, t, n) = if ks.is_empty() { (0, 0, 0) } else { ks[idx(*sel, ks.len())] };
        get(&mut m, s, t, n);
      }
    }
  }
  for s in 0..3 {
    for t in 0..NTY {
      for n in 0..NNAMES {
        get(&mut m, s, t, n);
      }
    }
  }
  any
}

/// Where a guarded run currently is (read by the watcher when the worker stops moving).
#[derive(Default)]
pub struct Progress {
  step: AtomicUsize,
  /// the model says the resolution in progress closes a dependency cycle
  at_cycle: AtomicBool,
  /// 0 global, 1 instance, 2 local
  ck: AtomicUsize,
  tid: AtomicU64,
}

fn inconclusive(why: String) -> Result<CaseReport, Failure> {
  let mut cr = CaseReport::new();
  cr.inconclusive = 1;
  cr.class("isolated_inconclusive");
  eprintln!("inconclusive isolated run: {why}");
  Ok(cr)
}

pub fn execute(case: &SeqCase) -> Result<CaseReport, Failure> {
  if case.global && !child::in_child() {
    // process-wide state: a fresh process per case
    return match child::run_in_child("E1", serde_json::to_value(case).unwrap(), 60_000) {
      child::Outcome::Done(r) => r.map(|rep| {
        let mut cr: CaseReport = rep.into();
        cr.class("E1:ran_in_fresh_process");
        cr
      }),
      child::Outcome::Blocked { threads } => inconclusive(format!("child blocked, threads {threads}")),
      child::Outcome::Crashed { how } => inconclusive(format!("child crashed ({how})")),
      child::Outcome::Slow { threads } => inconclusive(format!("child hit the hard limit, threads {threads}")),
      child::Outcome::Infra(e) => inconclusive(e),
    };
  }
  if predicts_cycle(case) {
    return execute_guarded(case);
  }
  run_owned(case, &Progress::default())
}

fn run_owned(case: &SeqCase, pr: &Progress) -> Result<CaseReport, Failure> {
  let mut env = Env::new(case.global);
  let r = run(case, &mut env, pr);
  if r.is_err() {
    // never drop possibly corrupted containers: leak them on failure
    std::mem::forget(env);
  }
  r
}

/// A history in which the model predicts a dependency-cycle panic.  The property names what
/// can happen instead — "a hang or stack overflow".  Runaway recursion is stopped by the depth
/// guard inside the harness factories (universe.rs) and surfaces as an ordinary panic; a hang
/// cannot be survived on the calling thread, so the history runs on a thread of its own, which
/// the caller watches through /proc/self/task/<tid>/status: state S with a frozen
/// context-switch counter over 10 consecutive samples (250 ms).  All objects of the case are
/// private to that thread, so nobody can ever wake it: the verdict is definite, the thread and
/// its containers are leaked.  A hang anywhere else than at a predicted cycle is inconclusive.
fn execute_guarded(case: &SeqCase) -> Result<CaseReport, Failure> {
  let pr = Arc::new(Progress::default());
  let (tx, rx) = std::sync::mpsc::channel();
  let (c2, p2) = (case.clone(), pr.clone());
  let spawned = std::thread::Builder::new().name("e1-guarded".into()).stack_size(4 << 20).spawn(move || {
    if let Ok(l) = std::fs::read_link("/proc/thread-self") {
      if let Some(t) = l.file_name().and_then(|f| f.to_str()).and_then(|f| f.parse::<u64>().ok()) {
        p2.tid.store(t, Ordering::SeqCst);
      }
    }
    let r = run_owned(&c2, &p2);
    let _ = tx.send(r);
  });
  if let Err(e) = spawned {
    return inconclusive(format!("cannot spawn guarded thread: {e}"));
  }
  let start = std::time::Instant::now();
  let mut prev: Option<(char, u64)> = None;
  let mut stable = 0;
  loop {
    match rx.recv_timeout(std::time::Duration::from_millis(25)) {
      Ok(r) => {
        return r.map(|mut cr| {
          cr.class("E1:ran_on_guarded_thread");
          cr
        })
      }
      Err(std::sync::mpsc::RecvTimeoutError::Disconnected) => return inconclusive("guarded thread died without a result (harness panic)".into()),
      Err(std::sync::mpsc::RecvTimeoutError::Timeout) => {}
    }
    let tid = pr.tid.load(Ordering::SeqCst);
    let cur = if tid != 0 { child::thread_state(tid) } else { None };
    match (cur, prev) {
      (Some(c), Some(p)) if c == p && c.0 == 'S' => stable += 1,
      _ => stable = 0,
    }
    prev = cur;
    let step = pr.step.load(Ordering::SeqCst);
    let k = ["global", "instance", "local"][pr.ck.load(Ordering::SeqCst).min(2)];
    if stable >= 10 {
      if pr.at_cycle.load(Ordering::SeqCst) {
        // "a dependency cycle is reported by a panic instead of a hang"
        return Err(Failure::new(P, format!("E1/{k}/cycle/hang_instead_of_panic"), format!("step {step}: the resolution that closes a dependency cycle never returned; its thread is parked for good (state S, context-switch counter frozen)")));
      }
      return inconclusive(format!("guarded thread parked at step {step}, which is not a predicted cycle"));
    }
    if start.elapsed().as_secs() >= 40 {
      return inconclusive(format!("guarded thread still running after 40 s at step {step}"));
    }
  }
}

fn run(case: &SeqCase, env: &mut Env, pr: &Progress) -> Result<CaseReport, Failure> {
  let mut rep = CaseReport::new();
  rep.class("E1");
  if case.global {
    rep.class("E1:global_container");
  }
  let mut m = Model::new();
  let mut fl = Flags::default();
  let mut rereg_resolved = false;
  let mut saw_unregistered_none = false;
  let nops = case.ops.len();
  // generated ops, then the sweep
  let mut step = 0usize;
  let mut sweep: Vec<Op> = Vec::new();
  for s in 0..3 {
    for t in 0..NTY {
      for n in 0..NNAMES {
        sweep.push(Op::Get { slot: s, ty: t, name: n, via: Via::Method });
      }
    }
  }
  for op in case.ops.iter().chain(sweep.iter()) {
    step += 1;
    let in_sweep = step > nops;
    match op {
      Op::Reg { slot, ty, name, form, imp, deps } => {
        let (s, t, n) = norm_key(*slot, *ty, *name);
        let (f, kind) = effective(s, t, *form);
        let deps = norm_deps(s, kind, deps);
        let reg = m.register(s, t, n, kind, *imp, deps.clone());
        let c = ck(case.global, s);
        rep.class(format!("E1:reg:{c}:{f:?}"));
        if m.slots[s as usize][&(t, n)].gen > 1 {
          rep.class("E1:re_registration");
        }
        if n >= PLAIN_NAMES {
          rep.class("E1:confusable_name_registered");
          rep.class(format!("E1:name:{}", name_label(n)));
        }
        if TWINS.iter().any(|&(a, b)| (a == n && m.slots[s as usize].contains_key(&(t, b))) || (b == n && m.slots[s as usize].contains_key(&(t, a)))) {
          // both names of a confusable pair are now registered under one type in one container
          rep.class("E1:confusable_pair_both_registered");
          rep.class(format!("E1:confusable_pair:{c}"));
        }
        if let Err(p) = catch_unwind(AssertUnwindSafe(|| env.register(s, t, n, f, reg, *imp, &deps))) {
          return Err(Failure::new(P, format!("E1/{c}/register/panic/{}", site(&panic_msg(&p))), format!("step {step}: registration panicked: {}", panic_msg(&p))));
        }
        check_logs(env, &m, &format!("E1/{c}"), step)?;
      }
      Op::Get { .. } | Op::GetKnown { .. } => {
        let (s, t, n, via) = match op {
          Op::Get { slot, ty, name, via } => {
            let (s, t, n) = norm_key(*slot, *ty, *name);
            (s, t, n, *via)
          }
          Op::GetKnown { sel, via } => {
            let ks = m.known_keys();
            let (s, t, n) = if ks.is_empty() { (0, 0, 0) } else { ks[idx(*sel, ks.len())] };
            (s, t, n, *via)
          }
          _ => unreachable!(),
        };
        let c = ck(case.global, s);
        let before = m.slots[s as usize].get(&(t, n)).cloned();
        let mut stack = Vec::new();
        let mut gfl = Flags::default();
        let exp = m.resolve(s, t, n, &mut stack, &mut gfl);
        fl.dep_factory |= gfl.dep_factory;
        fl.cross_container |= gfl.cross_container;
        fl.xsame |= gfl.xsame;
        // `resolve!` / `resolve_from!` document a panic for a missing service, so they are only
        // used where the model says the key resolves (or must report a cycle)
        let via = if via == Via::Resolve && matches!(exp, Ok(None)) { Via::Maybe } else { via };
        if via != Via::Method {
          rep.class(format!("E1:via:{via:?}"));
        }
        pr.step.store(step, Ordering::SeqCst);
        pr.ck.store(match c { "global" => 0, "instance" => 1, _ => 2 }, Ordering::SeqCst);
        pr.at_cycle.store(exp.is_err(), Ordering::SeqCst);
        reset_depth();
        let got = catch_unwind(AssertUnwindSafe(|| env.get(s, t, n, via)));
        pr.at_cycle.store(false, Ordering::SeqCst);
        let kind_s: &'static str = match before.as_ref().map(|r| r.kind) {
          None => "unregistered",
          Some(Kind::Instance) => "instance",
          Some(Kind::Singleton) => "singleton",
          Some(Kind::Transient) => "transient",
        };
        // (a macro, not a String: the sweep makes this path hot and the text is only needed on failure)
        macro_rules! what {
          () => {
            format!("step {step}{}: get {c} ty{t} name[{}]={:?} via {via:?}", if in_sweep { " (sweep)" } else { "" }, name_label(n), name_of(n).map(|s| if s.len() > 40 { &s[s.len() - 8..] } else { s }))
          };
        }
        match (&exp, got) {
          (_, Err(p)) if panic_msg(&p).contains(DEPTH_PANIC) => {
            // "reported by a panic instead of a hang or stack overflow": more than MAX_DEPTH
            // nested factories = a factory running inside itself without end
            return Err(Failure::new(P, format!("E1/{c}/cycle/unbounded_recursion_instead_of_panic"), format!("{}: the container kept re-entering factories of services already being built (> {MAX_DEPTH} nested); stopped by the harness before the stack overflowed", what!())));
          }
          (Err(Cycle), Err(_)) => {
            // reported by a panic — which panic text is not part of the property
            rep.class("E1:cycle_reported_by_panic");
            rep.class(format!("E1:cycle_panic:{c}"));
          }
          (Err(Cycle), Ok(g)) => {
            // "a dependency cycle is reported by a panic"
            return Err(Failure::new(P, format!("E1/{c}/cycle/returned_instead_of_panic"), format!("{}: the service transitively depends on itself but the resolution returned {:?}", what!(), g.map(|g| g.inst))));
          }
          (Ok(_), Err(p)) => {
            let msg = panic_msg(&p);
            let sig = if msg.contains("Circular dependency") {
              if gfl.xsame {
                // the resolution path only met the same (type, name) key in ANOTHER container:
                // no service depends on itself, the key "is registered" and must resolve
                format!("E1/{c}/same_key_other_container/false_cycle_panic")
              } else {
                format!("E1/{c}/{kind_s}/false_cycle_panic")
              }
            } else {
              format!("E1/{c}/{kind_s}/unexpected_panic/{}", site(&msg))
            };
            return Err(Failure::new(P, sig, format!("{}: no dependency cycle, model expects {:?}, but the resolution panicked: {msg}", what!(), exp.as_ref().ok())));
          }
          (Ok(None), Ok(Some(g))) => {
            // "an unregistered key resolves to None" / "differently typed or named
            // registrations never alias"
            let from = m.reg_key.get(&g.inst.reg);
            return Err(Failure::new(P, format!("E1/{c}/unregistered_key_resolved"), format!("{}: key was never registered in this container but resolved to {:?} (registration of {:?})", what!(), g.inst, from)));
          }
          (Ok(None), Ok(None)) => {
            // (a flag, not `rep.class`: the sweep comes here some 350 times per case)
            saw_unregistered_none = true;
          }
          (Ok(Some(_)), Ok(None)) => {
            // "the latest registration of a key is the one resolved afterwards"
            return Err(Failure::new(P, format!("E1/{c}/{kind_s}/registered_key_resolved_none"), format!("{}: key is registered but resolved to None", what!())));
          }
          (Ok(Some(serial)), Ok(Some(g))) => {
            let r = before.as_ref().unwrap();
            if g.inst.reg != r.reg {
              let from = m.reg_key.get(&g.inst.reg).copied();
              let sig = if from == Some((s, t, n)) {
                // "the latest registration of a key is the one resolved afterwards"
                format!("E1/{c}/{kind_s}/stale_registration_resolved")
              } else {
                // "differently typed or named registrations never alias"
                format!("E1/{c}/{kind_s}/aliased_other_key")
              };
              return Err(Failure::new(P, sig, format!("{}: expected an instance of registration #{} but got {:?} built by registration #{} of key {:?}", what!(), r.reg, g.inst, g.inst.reg, from)));
            }
            if g.inst.serial != *serial {
              let sig = match r.kind {
                // "gives every caller the same instance"
                Kind::Singleton | Kind::Instance => format!("E1/{c}/{kind_s}/not_the_same_instance"),
                // "a transient registration yields a fresh instance on every resolution"
                Kind::Transient => format!("E1/{c}/transient/not_fresh"),
              };
              return Err(Failure::new(P, sig, format!("{}: expected instance serial {serial}, got {:?}", what!(), g.inst)));
            }
            if g.inst.imp != r.imp || g.behind.map(|b| b != r.imp).unwrap_or(false) {
              return Err(Failure::new(P, format!("E1/{c}/{kind_s}/wrong_impl_type"), format!("{}: registered impl {} but got {:?} behind={:?}", what!(), r.imp, g.inst, g.behind)));
            }
            // pointer identity: every Arc/Rc ever returned to this loop is still alive
            match env.addr_of.get(serial) {
              Some(&a) => {
                rep.class(format!("E1:{kind_s}_resolved_again_ptr_eq"));
                if a != g.addr {
                  // "gives every caller the same instance"
                  return Err(Failure::new(P, format!("E1/{c}/{kind_s}/same_payload_different_allocation"), format!("{}: instance serial {serial} was at {a:#x}, now at {:#x}", what!(), g.addr)));
                }
              }
              None => {
                if !env.addrs.insert(g.addr) {
                  // "yields a fresh instance" / "never alias"
                  return Err(Failure::new(P, format!("E1/{c}/{kind_s}/new_instance_shares_allocation"), format!("{}: a new instance (serial {serial}) lives at the address of another live instance {:#x}", what!(), g.addr)));
                }
                env.addr_of.insert(*serial, g.addr);
              }
            }
            if r.kind == Kind::Transient {
              rep.class("E1:transient_resolved");
            }
            if r.gen > 1 {
              rereg_resolved = true;
            }
            env.keep.push(g.keep);
          }
        }
        check_logs(env, &m, &format!("E1/{c}/{kind_s}"), step)?;
      }
    }
  }
  if saw_unregistered_none {
    rep.class("E1:unregistered_none");
  }
  if fl.dep_factory {
    rep.class("E1:factory_resolved_another_service");
  }
  if fl.cross_container {
    rep.class("E1:dependency_in_another_container");
  }
  if fl.xsame {
    rep.class("E1:same_key_other_container_on_path");
  }
  if rereg_resolved {
    rep.class("E1:re_registered_then_resolved");
  }
  // non-triviality: "a key re-registered then resolved, or a factory resolving another service"
  rep.nontrivial = rereg_resolved || fl.dep_factory;
  Ok(rep)
}

/// The factory activity observed so far must be exactly what the model derives from the text.
fn check_logs(env: &Env, m: &Model, prefix: &str, step: usize) -> Result<(), Failure> {
  let real = lock(&env.shared);
  if *real == m.log {
    return Ok(());
  }
  // find the most specific difference
  for (reg, &n) in &real.calls {
    let exp = m.log.calls.get(reg).copied().unwrap_or(0);
    if n != exp {
      let key = m.reg_key.get(reg).copied();
      let kind = key.and_then(|(s, t, nn)| m.slots[s as usize].get(&(t, nn)).filter(|r| r.reg == *reg).map(|r| r.kind));
      let sig = match (kind, n > exp) {
        // "runs its factory at most once"
        (Some(Kind::Singleton), true) => format!("{prefix}/singleton_factory_ran_again"),
        (Some(Kind::Instance), true) => format!("{prefix}/instance_factory_called"),
        // "a transient registration yields a fresh instance on every resolution"
        (Some(Kind::Transient), _) => format!("{prefix}/transient_factory_count_differs"),
        // a registration that was replaced ran: "the latest registration ... is the one resolved"
        (None, true) => format!("{prefix}/replaced_registration_factory_ran"),
        _ => format!("{prefix}/factory_not_run"),
      };
      return Err(Failure::new(P, sig, format!("step {step}: factory of registration #{reg} (key {key:?}) ran {n} times, the model says {exp}")));
    }
  }
  for (reg, &exp) in &m.log.calls {
    if !real.calls.contains_key(reg) && exp > 0 {
      return Err(Failure::new(P, format!("{prefix}/factory_not_run"), format!("step {step}: factory of registration #{reg} never ran, the model says {exp}")));
    }
  }
  let i = real.created.iter().zip(m.log.created.iter()).position(|(a, b)| a != b).unwrap_or_else(|| real.created.len().min(m.log.created.len()));
  Err(Failure::new(
    P,
    format!("{prefix}/factory_history_differs"),
    format!("step {step}: completed factory runs differ at #{i}: real {:?}, model {:?}", real.created.get(i), m.log.created.get(i)),
  ))
}

// ---------------------------------------------------------------------------------------------
// generation
// ---------------------------------------------------------------------------------------------

fn slot_s() -> impl Strategy<Value = u8> {
  prop_oneof![4 => Just(0u8), 3 => Just(1u8), 3 => Just(2u8)]
}
fn ty_s() -> impl Strategy<Value = u8> {
  prop_oneof![5 => Just(0u8), 4 => Just(1u8), 3 => Just(2u8), 1 => Just(3u8), 1 => Just(4u8), 1 => Just(5u8), 3 => Just(6u8), 2 => Just(7u8)]
}
/// Skewed so that keys keep colliding (re-registration); about 40 % of the picks are one of the
/// 13 confusable names (universe.rs `name_of`), each of which has a partner it must not alias.
fn name_s() -> impl Strategy<Value = u8> {
  prop_oneof![7 => Just(0u8), 5 => Just(1u8), 2 => Just(2u8), 3 => Just(3u8), 6 => PLAIN_NAMES + 1..NNAMES]
}
fn form_s() -> impl Strategy<Value = Form> {
  prop_oneof![2 => Just(Form::Instance), 4 => Just(Form::Singleton), 4 => Just(Form::Transient), 1 => Just(Form::SingletonArc)]
}
fn lazy_form_s() -> impl Strategy<Value = Form> {
  prop_oneof![4 => Just(Form::Singleton), 4 => Just(Form::Transient), 1 => Just(Form::SingletonArc)]
}
fn via_s() -> impl Strategy<Value = Via> {
  prop_oneof![3 => Just(Via::Method), 1 => Just(Via::Maybe), 1 => Just(Via::Resolve)]
}
fn dep_s() -> impl Strategy<Value = Dep> {
  (slot_s(), ty_s(), name_s()).prop_map(|(slot, ty, name)| Dep { slot, ty, name })
}

#[derive(Clone, Debug)]
struct Node {
  slot: u8,
  ty: u8,
  name: u8,
  form: Form,
  imp: u8,
}
fn node_s(lazy: bool) -> impl Strategy<Value = Node> {
  let f = if lazy { lazy_form_s().boxed() } else { form_s().boxed() };
  (slot_s(), ty_s(), name_s(), f, 0u8..2).prop_map(|(slot, ty, name, form, imp)| Node { slot, ty, name, form, imp })
}
/// most chunks stay inside one container; `spread` lets the nodes keep their own slots
fn place(mut nodes: Vec<Node>, spread: bool) -> Vec<Node> {
  if !spread {
    let s = nodes[0].slot;
    for n in nodes.iter_mut() {
      n.slot = s;
    }
  }
  nodes
}

fn chunk_s() -> impl Strategy<Value = Vec<Op>> {
  let reg = (slot_s(), ty_s(), name_s(), form_s(), 0u8..2, proptest::collection::vec(dep_s(), 0..=2)).prop_map(|(slot, ty, name, form, imp, deps)| vec![Op::Reg { slot, ty, name, form, imp, deps }]);
  let get = (slot_s(), ty_s(), name_s(), via_s()).prop_map(|(slot, ty, name, via)| vec![Op::Get { slot, ty, name, via }]);
  let known = (any::<u16>(), via_s()).prop_map(|(sel, via)| vec![Op::GetKnown { sel, via }]);
  // an acyclic dependency graph by construction: node i may depend on nodes j > i only
  let dag = (proptest::collection::vec(node_s(false), 2..=5), any::<u16>(), any::<bool>(), via_s()).prop_map(|(nodes, edges, spread, via)| {
    let nodes = place(nodes, spread);
    let mut ops = Vec::new();
    let mut bit = 0;
    for i in 0..nodes.len() {
      let mut deps = Vec::new();
      for j in i + 1..nodes.len() {
        // the edge to the direct successor is always there, so chains are common
        if j == i + 1 || edges & (1 << (bit % 16)) != 0 {
          deps.push(Dep { slot: nodes[j].slot, ty: nodes[j].ty, name: nodes[j].name });
        }
        bit += 1;
      }
      let n = &nodes[i];
      ops.push(Op::Reg { slot: n.slot, ty: n.ty, name: n.name, form: n.form, imp: n.imp, deps });
    }
    let n0 = &nodes[0];
    ops.push(Op::Get { slot: n0.slot, ty: n0.ty, name: n0.name, via });
    ops.push(Op::Get { slot: n0.slot, ty: n0.ty, name: n0.name, via: Via::Method });
    ops
  });
  // an explicit cycle: node i depends on node i+1, the last one on node 0 (length 1 = on itself)
  let ring = (proptest::collection::vec(node_s(true), 1..=4), prop_oneof![4 => Just(false), 1 => Just(true)], any::<u16>(), via_s()).prop_map(|(nodes, spread, sel, via)| {
    let nodes = place(nodes, spread);
    let mut ops = Vec::new();
    for i in 0..nodes.len() {
      let nx = &nodes[(i + 1) % nodes.len()];
      let n = &nodes[i];
      ops.push(Op::Reg { slot: n.slot, ty: n.ty, name: n.name, form: n.form, imp: n.imp, deps: vec![Dep { slot: nx.slot, ty: nx.ty, name: nx.name }] });
    }
    let n0 = &nodes[0];
    ops.push(Op::Get { slot: n0.slot, ty: n0.ty, name: n0.name, via });
    // afterwards the container must still work, and the cycle must be reported again
    ops.push(Op::GetKnown { sel, via: Via::Method });
    ops.push(Op::Get { slot: n0.slot, ty: n0.ty, name: n0.name, via: Via::Method });
    ops
  });
  // the same key in two containers, one delegating to the other (decorator / override pattern)
  let delegate = (slot_s(), slot_s(), ty_s(), name_s(), lazy_form_s(), form_s(), via_s()).prop_map(|(s1, s2, ty, name, f1, f2, via)| {
    vec![
      Op::Reg { slot: s2, ty, name, form: f2, imp: 0, deps: vec![] },
      Op::Reg { slot: s1, ty, name, form: f1, imp: 1, deps: vec![Dep { slot: s2, ty, name }] },
      Op::Get { slot: s1, ty, name, via },
    ]
  });
  // both members of a confusable pair of names under the same type in the same container, with
  // independent registration forms: "differently ... named registrations never alias"
  let twins = (slot_s(), ty_s(), 0usize..TWINS.len(), any::<bool>(), form_s(), form_s(), via_s()).prop_map(|(slot, ty, pair, swap, f1, f2, via)| {
    let (a, b) = TWINS[pair];
    let (n1, n2) = if swap { (b, a) } else { (a, b) };
    vec![
      Op::Reg { slot, ty, name: n1, form: f1, imp: 0, deps: vec![] },
      Op::Reg { slot, ty, name: n2, form: f2, imp: 1, deps: vec![] },
      Op::Get { slot, ty, name: n1, via },
      Op::Get { slot, ty, name: n2, via },
      Op::Get { slot, ty, name: n1, via: Via::Method },
    ]
  });
  prop_oneof![10 => reg, 6 => get, 12 => known, 6 => dag, 1 => ring, 2 => delegate, 3 => twins]
}

pub fn strategy(max_chunks: usize) -> impl Strategy<Value = SeqCase> {
  (prop_oneof![39 => Just(false), 1 => Just(true)], proptest::collection::vec(chunk_s(), 0..=max_chunks)).prop_map(|(global, chunks)| SeqCase { global, ops: chunks.into_iter().flatten().collect() })
}
