//! E4 — real threads, generated programs.
//!
//! One case = a container (a fresh instance `Container`, or `global()` with names made unique
//! per execution so that nothing leaks between cases) and 1–4 rounds.  A round registers a
//! *fresh* target key (never resolved in this generation) whose factory optionally resolves a
//! short chain of other fresh services and then dwells for a generated tiny delay; T ∈ 2..=16
//! threads released by one barrier resolve the target while a registrar thread registers (and
//! sometimes resolves) unrelated keys of the same container.
//!
//! Only facts that are certain under any real schedule are asserted: factory invocation
//! counters, identity of what the callers obtained, and — for keys only the registrar thread
//! touches — program order on that thread.  Real threads cannot be replayed exactly: a replay
//! repeats the program several times and is *statistical*.

use crate::universe::*;
use fibre_ioc::Container;
use proptest::prelude::*;
use serde::{Deserialize, Serialize};
use std::collections::{BTreeMap, BTreeSet};
use std::panic::{catch_unwind, AssertUnwindSafe};
use std::sync::atomic::{AtomicU64, AtomicUsize, Ordering};
use std::sync::{Arc, Barrier, Mutex};
use std::time::{Duration, Instant};
use vcore::{CaseReport, Failure};

pub const P: &str = "C18";

#[derive(Clone, Debug, Serialize, Deserialize)]
pub struct KeyForm {
  pub ty: u8,
  pub name: u8,
  pub form: Form,
}

#[derive(Clone, Debug, Serialize, Deserialize)]
pub struct Unrelated {
  pub ty: u8,
  pub name: u8,
  pub form: Form,
  /// the registrar resolves the key right after registering it
  pub get_after: bool,
}

#[derive(Clone, Debug, Serialize, Deserialize)]
pub struct Round {
  pub target: KeyForm,
  pub imp: u8,
  /// how long the target's factory dwells before returning
  pub delay_us: u16,
  /// 0 = busy spin, 1 = yield loop, 2 = sleep
  pub delay_kind: u8,
  /// services the target's factory resolves first: target -> chain[0] -> chain[1] ...
  pub chain: Vec<KeyForm>,
  /// what the registrar thread registers meanwhile (entries equal to the target or a chain
  /// key are skipped: the property speaks of *other* keys being registered)
  pub unrelated: Vec<Unrelated>,
  /// per-thread start jitter in units of 2 µs (thread i uses jitter[i % len])
  pub jitter: Vec<u8>,
}

#[derive(Clone, Debug, Serialize, Deserialize)]
pub struct ConcCase {
  pub global: bool,
  pub threads: u8,
  pub rounds: Vec<Round>,
}

static NONCE: AtomicU64 = AtomicU64::new(1);

fn dwell(us: u64, kind: u8) {
  if us == 0 {
    return;
  }
  let d = Duration::from_micros(us);
  match kind {
    2 => std::thread::sleep(d),
    k => {
      let t = Instant::now();
      while t.elapsed() < d {
        if k == 1 {
          std::thread::yield_now()
        } else {
          std::hint::spin_loop()
        }
      }
    }
  }
}

#[derive(Clone, Copy, PartialEq, Eq, Debug)]
enum Kind {
  Singleton,
  Transient,
}

fn kind_of(ty: u8, form: Form) -> (Form, Kind) {
  if ty >= NCONCRETE {
    return (Form::SingletonArc, Kind::Singleton);
  }
  match form {
    // a pre-built instance has no first resolution to race on
    Form::Instance | Form::Singleton => (Form::Singleton, Kind::Singleton),
    Form::SingletonArc => (Form::SingletonArc, Kind::Singleton),
    Form::Transient => (Form::Transient, Kind::Transient),
  }
}

enum Res {
  Got(GotSend),
  None,
  Panic(String),
}

pub fn execute(case: &ConcCase, reps: u32) -> Result<CaseReport, Failure> {
  let mut rep = CaseReport::new();
  for _ in 0..reps.max(1) {
    let r = run_once(case)?;
    rep.nontrivial |= r.nontrivial;
    for c in r.classes {
      rep.class(c);
    }
  }
  rep.executions = reps.max(1) as u64;
  Ok(rep)
}

/// What the threads of a case need to know about the round that is about to start.
struct RoundRt {
  stop: bool,
  tk: (u8, u8),
  name: Option<String>,
  jitter: Vec<u64>,
  /// the registrar's program: (key, form, registration id, resolve right after registering)
  plan: Vec<((u8, u8), Form, u32, bool)>,
  entered: Arc<AtomicUsize>,
  results: Mutex<Vec<Res>>,
  reg_results: Mutex<Vec<(u32, Res)>>,
}

fn panic_text(p: Box<dyn std::any::Any + Send>) -> String {
  p.downcast_ref::<String>().cloned().or_else(|| p.downcast_ref::<&str>().map(|s| s.to_string())).unwrap_or_default()
}

fn run_once(case: &ConcCase) -> Result<CaseReport, Failure> {
  let t_n = (case.threads as usize).clamp(2, 16);
  let nonce = NONCE.fetch_add(1, Ordering::Relaxed);
  let inst = Arc::new(Container::new());
  let cw = if case.global { CW::Global } else { CW::Inst(Arc::downgrade(&inst)) };
  // on the global container every name is unique to this execution
  let global = case.global;
  let nm = move |n: u8| -> Option<String> {
    if global {
      Some(format!("{}~{nonce}", name_of(n).unwrap_or("n")))
    } else {
      name_of(n).map(String::from)
    }
  };
  let shared: Shared = Arc::new(Mutex::new(Log::default()));
  // the T resolver threads and the registrar live for the whole case; each round is framed by
  // two barriers (the start barrier is what aligns the first resolutions)
  let start = Barrier::new(t_n + 2);
  let end = Barrier::new(t_n + 2);
  let slot: Mutex<Option<Arc<RoundRt>>> = Mutex::new(None);
  std::thread::scope(|s| {
    for i in 0..t_n {
      let (cw, start, end, slot) = (&cw, &start, &end, &slot);
      s.spawn(move || loop {
        start.wait();
        let rt = slot.lock().unwrap().clone().expect("round");
        if rt.stop {
          return;
        }
        if !rt.jitter.is_empty() {
          dwell(rt.jitter[i % rt.jitter.len()], 0);
        }
        rt.entered.fetch_add(1, Ordering::SeqCst);
        let r = match catch_unwind(AssertUnwindSafe(|| cw.with(|c, g| cget_send(c, g, rt.tk.0, rt.name.as_deref(), Via::Method)))) {
          Ok(Some(g)) => Res::Got(g),
          Ok(None) => Res::None,
          Err(p) => Res::Panic(panic_text(p)),
        };
        rt.results.lock().unwrap().push(r);
        end.wait();
      });
    }
    {
      let (cw, start, end, slot, shared, nm) = (&cw, &start, &end, &slot, &shared, &nm);
      s.spawn(move || loop {
        start.wait();
        let rt = slot.lock().unwrap().clone().expect("round");
        if rt.stop {
          return;
        }
        for &(key, f, reg, get_after) in rt.plan.iter() {
          let name = nm(key.1);
          let r = catch_unwind(AssertUnwindSafe(|| {
            if f == Form::Instance {
              let sh = shared.clone();
              cw.with(|c, _| creg(c, key.0, name.as_deref(), f, 0, move || lock(&sh).create(reg, 0, vec![])));
            } else {
              cw.with(|c, _| creg(c, key.0, name.as_deref(), f, 0, make_factory(shared.clone(), reg, 0, Vec::<CDep>::new())));
            }
            if get_after {
              cw.with(|c, g| cget_send(c, g, key.0, name.as_deref(), Via::Method))
            } else {
              None
            }
          }));
          let mut out = rt.reg_results.lock().unwrap();
          match r {
            Ok(Some(g)) => out.push((reg, Res::Got(g))),
            Ok(None) if get_after => out.push((reg, Res::None)),
            Ok(None) => {}
            Err(p) => out.push((reg, Res::Panic(panic_text(p)))),
          }
        }
        end.wait();
      });
    }
    let r = rounds(case, t_n, &cw, &nm, &shared, &start, &end, &slot);
    // release the threads
    *slot.lock().unwrap() = Some(Arc::new(RoundRt { stop: true, tk: (0, 0), name: None, jitter: vec![], plan: vec![], entered: Arc::new(AtomicUsize::new(0)), results: Mutex::new(vec![]), reg_results: Mutex::new(vec![]) }));
    start.wait();
    r
  })
}

#[allow(clippy::too_many_arguments)]
fn rounds(case: &ConcCase, t_n: usize, cw: &CW, nm: &dyn Fn(u8) -> Option<String>, shared: &Shared, start: &Barrier, end: &Barrier, slot: &Mutex<Option<Arc<RoundRt>>>) -> Result<CaseReport, Failure> {
  let mut rep = CaseReport::new();
  rep.class("E4");
  let ck = if case.global { "global" } else { "instance" };
  rep.class(format!("E4:{ck}"));
  rep.class(format!("E4:threads:{}", match t_n { 2 => "2", 3..=4 => "3-4", 5..=8 => "5-8", _ => "9-16" }));
  let mut next_reg = 0u32;
  // latest registration per key, as far as one thread knows for sure
  let mut latest: BTreeMap<(u8, u8), (u32, Kind)> = BTreeMap::new();
  let mut keep: Vec<Box<dyn std::any::Any + Send>> = Vec::new();
  let mut max_inside = 0usize;

  for (ri, round) in case.rounds.iter().enumerate() {
    let tk = (round.target.ty.min(NTY - 1), round.target.name.min(NNAMES - 1));
    let (tform, tkind) = kind_of(tk.0, round.target.form);
    // chain keys: distinct from the target and from each other
    let mut used: BTreeSet<(u8, u8)> = BTreeSet::new();
    used.insert(tk);
    let mut chain: Vec<((u8, u8), Form, Kind, u32)> = Vec::new();
    for k in &round.chain {
      let key = (k.ty.min(NTY - 1), k.name.min(NNAMES - 1));
      if used.insert(key) {
        let (f, kd) = kind_of(key.0, k.form);
        chain.push((key, f, kd, next_reg));
        next_reg += 1;
      }
    }
    let treg = next_reg;
    next_reg += 1;
    if latest.contains_key(&tk) {
      rep.class("E4:target_re_registered");
    }
    // register the chain back to front, then the target
    for i in (0..chain.len()).rev() {
      let (key, f, kd, reg) = chain[i];
      let next = chain.get(i + 1).map(|n| CDep { c: cw.clone(), ty: n.0 .0, name: nm(n.0 .1) });
      let fac = make_factory(shared.clone(), reg, 0, next.into_iter().collect::<Vec<_>>());
      cw.with(|c, _| creg(c, key.0, nm(key.1).as_deref(), f, 0, fac));
      latest.insert(key, (reg, kd));
    }
    let entered = Arc::new(AtomicUsize::new(0));
    let inside = Arc::new(AtomicUsize::new(0));
    {
      let first = chain.first().map(|n| CDep { c: cw.clone(), ty: n.0 .0, name: nm(n.0 .1) });
      let sh = shared.clone();
      let (entered, inside) = (entered.clone(), inside.clone());
      let (us, dk, imp) = (round.delay_us as u64, round.delay_kind, round.imp);
      let fac = move || {
        *lock(&sh).calls.entry(treg).or_default() += 1;
        let obs: Vec<Option<u32>> = first.iter().map(|d| d.resolve()).collect();
        dwell(us, dk);
        // how many resolver threads had started their resolution before this factory finished
        inside.fetch_max(entered.load(Ordering::SeqCst), Ordering::SeqCst);
        lock(&sh).create(treg, imp, obs)
      };
      cw.with(|c, _| creg(c, tk.0, nm(tk.1).as_deref(), tform, round.imp, fac));
      latest.insert(tk, (treg, tkind));
    }
    let kind_s = format!("{tkind:?}").to_lowercase();
    rep.class(format!("E4:target:{tform:?}"));
    if !chain.is_empty() {
      rep.class("E4:factory_resolves_other_services");
    }

    // the registrar's program
    let mut plan: Vec<((u8, u8), Form, u32, bool)> = Vec::new();
    let mut plan_kinds: Vec<((u8, u8), u32, Kind)> = Vec::new();
    for u in &round.unrelated {
      let key = (u.ty.min(NTY - 1), u.name.min(NNAMES - 1));
      if used.contains(&key) {
        continue;
      }
      let (f, kd) = kind_of(key.0, u.form);
      // the registrar also uses add_instance
      let f = if u.form == Form::Instance && key.0 < NCONCRETE { Form::Instance } else { f };
      plan.push((key, f, next_reg, u.get_after));
      plan_kinds.push((key, next_reg, kd));
      next_reg += 1;
    }
    if !plan.is_empty() {
      rep.class("E4:registrations_during_resolution");
    }

    let rt = Arc::new(RoundRt {
      stop: false,
      tk,
      name: nm(tk.1),
      jitter: round.jitter.iter().map(|&j| j as u64 * 2).collect(),
      plan,
      entered: entered.clone(),
      results: Mutex::new(Vec::new()),
      reg_results: Mutex::new(Vec::new()),
    });
    *slot.lock().unwrap() = Some(rt.clone());
    start.wait();
    end.wait();
    let results: Vec<Res> = std::mem::take(&mut *rt.results.lock().unwrap());
    let reg_results: Vec<(u32, Res)> = std::mem::take(&mut *rt.reg_results.lock().unwrap());
    for &(key, reg, kd) in &plan_kinds {
      latest.insert(key, (reg, kd));
    }

    // ---- oracle -------------------------------------------------------------------------
    let at = format!("round {ri}, {t_n} threads, target ty{} name{:?} {tform:?}", tk.0, name_of(tk.1));
    if results.len() != t_n {
      return Err(Failure::new("HARNESS", "E4/harness/result_count", format!("{at}: {} results", results.len())));
    }
    let mut serials = BTreeSet::new();
    let mut addrs = BTreeSet::new();
    for r in results {
      match r {
        Res::Panic(m) => return Err(Failure::new(P, format!("E4/{ck}/{kind_s}/resolution_panicked"), format!("{at}: a resolver thread panicked: {m}"))),
        // "the latest registration of a key is the one resolved afterwards": the key was
        // registered before the barrier
        Res::None => return Err(Failure::new(P, format!("E4/{ck}/{kind_s}/registered_key_resolved_none"), format!("{at}: a resolver thread got None"))),
        Res::Got(g) => {
          if g.inst.reg != treg {
            // "differently typed or named registrations never alias"
            return Err(Failure::new(P, format!("E4/{ck}/{kind_s}/aliased_other_registration"), format!("{at}: expected registration #{treg}, a thread got {:?}", g.inst)));
          }
          serials.insert(g.inst.serial);
          addrs.insert(g.addr);
          keep.push(g.keep);
        }
      }
    }
    let calls = lock(&shared).calls.get(&treg).copied().unwrap_or(0);
    match tkind {
      Kind::Singleton => {
        // "Resolving a singleton from any number of threads runs its factory at most once"
        if calls > 1 {
          return Err(Failure::new(P, format!("E4/{ck}/singleton/factory_ran_more_than_once"), format!("{at}: the singleton factory ran {calls} times")));
        }
        // "and gives every caller the same instance"
        if serials.len() != 1 || addrs.len() != 1 {
          return Err(Failure::new(P, format!("E4/{ck}/singleton/callers_got_different_instances"), format!("{at}: {} distinct instances at {} distinct addresses", serials.len(), addrs.len())));
        }
      }
      Kind::Transient => {
        // "a transient registration yields a fresh instance on every resolution"
        if calls as usize != t_n || serials.len() != t_n || addrs.len() != t_n {
          return Err(Failure::new(P, format!("E4/{ck}/transient/not_fresh_per_resolution"), format!("{at}: {t_n} resolutions, factory ran {calls} times, {} distinct instances at {} distinct addresses", serials.len(), addrs.len())));
        }
      }
    }
    // services the target's factory resolved: singletons among them also at most once
    for &(key, _, kd, reg) in &chain {
      let n = lock(&shared).calls.get(&reg).copied().unwrap_or(0);
      if kd == Kind::Singleton && n > 1 {
        return Err(Failure::new(P, format!("E4/{ck}/dependency_singleton/factory_ran_more_than_once"), format!("{at}: dependency ty{} name{:?} ran its factory {n} times", key.0, name_of(key.1))));
      }
    }
    // the registrar's own view (program order on one thread; nobody else touches these keys)
    for (reg, r) in reg_results {
      match r {
        Res::Panic(m) => return Err(Failure::new(P, format!("E4/{ck}/registrar/panicked"), format!("{at}: registering or resolving an unrelated key panicked: {m}"))),
        Res::None => return Err(Failure::new(P, format!("E4/{ck}/registrar/just_registered_key_resolved_none"), format!("{at}: registration #{reg} resolved to None right after registering"))),
        Res::Got(g) => {
          if g.inst.reg != reg {
            return Err(Failure::new(P, format!("E4/{ck}/registrar/latest_registration_not_resolved"), format!("{at}: registered #{reg}, resolved {:?}", g.inst)));
          }
          keep.push(g.keep);
        }
      }
    }
    let ins = inside.load(Ordering::SeqCst);
    max_inside = max_inside.max(ins);
    if ins >= 2 && tkind == Kind::Singleton {
      rep.class("E4:>=2_threads_inside_first_resolution");
    }
  }

  // quiescent: every key this case registered resolves to its latest registration
  for (&key, &(reg, _)) in &latest {
    let name = nm(key.1);
    match catch_unwind(AssertUnwindSafe(|| cw.with(|c, g| cget_send(c, g, key.0, name.as_deref(), Via::Method)))) {
      Ok(Some(g)) if g.inst.reg == reg => keep.push(g.keep),
      Ok(Some(g)) => return Err(Failure::new(P, format!("E4/{ck}/quiescent/latest_registration_not_resolved"), format!("key ty{} name{:?}: latest registration #{reg}, resolved {:?}", key.0, name_of(key.1), g.inst))),
      Ok(None) => return Err(Failure::new(P, format!("E4/{ck}/quiescent/registered_key_resolved_none"), format!("key ty{} name{:?} (registration #{reg}) resolved to None", key.0, name_of(key.1)))),
      Err(_) => return Err(Failure::new(P, format!("E4/{ck}/quiescent/resolution_panicked"), format!("key ty{} name{:?} (registration #{reg})", key.0, name_of(key.1)))),
    }
  }
  rep.nontrivial = max_inside >= 2 || rep.classes.iter().any(|c| c == "E4:target_re_registered" || c == "E4:factory_resolves_other_services");
  drop(keep);
  Ok(rep)
}

// ---------------------------------------------------------------------------------------------
// generation
// ---------------------------------------------------------------------------------------------

fn kf_s() -> impl Strategy<Value = KeyForm> {
  (0u8..NTY, 0u8..NNAMES, prop_oneof![5 => Just(Form::Singleton), 2 => Just(Form::Transient), 1 => Just(Form::SingletonArc)]).prop_map(|(ty, name, form)| KeyForm { ty, name, form })
}

fn round_s() -> impl Strategy<Value = Round> {
  (
    kf_s(),
    0u8..2,
    prop_oneof![1 => Just(0u16), 3 => 1u16..60, 3 => 60u16..400],
    0u8..3,
    proptest::collection::vec(kf_s(), 0..=2),
    proptest::collection::vec(
      (0u8..NTY, 0u8..NNAMES, prop_oneof![Just(Form::Instance), Just(Form::Singleton), Just(Form::Transient), Just(Form::SingletonArc)], any::<bool>())
        .prop_map(|(ty, name, form, get_after)| Unrelated { ty, name, form, get_after }),
      0..=24,
    ),
    proptest::collection::vec(0u8..30, 0..=4),
  )
    .prop_map(|(target, imp, delay_us, delay_kind, chain, unrelated, jitter)| Round { target, imp, delay_us, delay_kind, chain, unrelated, jitter })
}

pub fn strategy() -> impl Strategy<Value = ConcCase> {
  (prop_oneof![3 => Just(false), 1 => Just(true)], 2u8..=16, proptest::collection::vec(round_s(), 1..=4)).prop_map(|(global, threads, rounds)| ConcCase { global, threads, rounds })
}
