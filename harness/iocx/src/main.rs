//! iocx — check for property C18 (IoC resolution) on the plain build of fibre_ioc.
//!
//!   iocx check C18 <quick|thorough>
//!   iocx replay <replay.json>
//!   iocx child                (internal: one isolated case, job on stdin — see child.rs)

mod child;
mod conc;
mod rereg;
mod seq;
mod universe;
mod xcycle;

use vcore::{Check, Ctx, EvidenceMeta, Failure, Replay, Tier};

const XWITNESS_HARD_MS: u64 = 30_000;

fn run_replay(r: &Replay, tier: Tier) -> Option<Failure> {
  match r.engine.as_str() {
    "E1" => {
      let s: seq::SeqCase = vcore::from_value(&r.scenario);
      seq::execute(&s).err()
    }
    "E4" => {
      // real threads: statistical — the program is repeated, any failing repetition counts
      let s: conc::ConcCase = vcore::from_value(&r.scenario);
      conc::execute(&s, tier.pick(40, 400)).err()
    }
    "E4x" => {
      let s: xcycle::XCase = vcore::from_value(&r.scenario);
      xcycle::execute(&s, XWITNESS_HARD_MS).err()
    }
    "E5" => {
      // real threads: statistical unless the case uses the drop gate — repeated
      let s: rereg::RCase = vcore::from_value(&r.scenario);
      rereg::execute(&s, tier.pick(20, 200)).err()
    }
    other => {
      eprintln!("unknown engine {other}");
      std::process::exit(2)
    }
  }
}

fn child_run(engine: &str, scenario: &serde_json::Value) -> Result<child::Rep, Failure> {
  match engine {
    "E1" => {
      let s: seq::SeqCase = vcore::from_value(scenario);
      seq::execute(&s).map(Into::into)
    }
    "E4x" => {
      let s: xcycle::XCase = vcore::from_value(scenario);
      xcycle::execute(&s, 0).map(Into::into)
    }
    other => Err(Failure::new("HARNESS", "child/unknown_engine", other)),
  }
}

fn main() {
  let args: Vec<String> = std::env::args().collect();
  if std::env::var("VERIF_DEBUG").is_err() {
    std::panic::set_hook(Box::new(|_| {}));
  }
  match args.get(1).map(|s| s.as_str()) {
    Some("child") => child::child_main(child_run),
    Some("replay") => {
      let r = vcore::read_replay(&args[2]);
      if r.engine == "E4" || r.engine == "E5" {
        println!("note: engines E4/E5 run real threads; this replay repeats the program and is statistical (a pass does not prove the absence of the race)");
      }
      match run_replay(&r, Tier::Thorough) {
        Some(f) => {
          println!("replay still fails: [{}] {} :: {}", f.property, f.signature, f.message);
          std::process::exit(1)
        }
        None => {
          println!("replay passes");
          std::process::exit(0)
        }
      }
    }
    Some("check") => {
      let prop = args.get(2).cloned().unwrap_or_default();
      if prop != "C18" {
        eprintln!("property {prop} is not served by this binary");
        std::process::exit(2)
      }
      let tier = args.get(3).cloned().unwrap_or_else(|| "quick".into());
      let ctx = Ctx::from_args(&prop, &tier);
      let tier = ctx.tier;
      let mut check = Check::new(ctx.clone());
      check.run_witnesses(&|r| run_replay(r, Tier::Quick));
      check.run_regressions(&|r| run_replay(r, Tier::Quick));

      let t_w = ctx.wall();
      // E1: sequential histories
      let dev = |k: &str, d: u64| std::env::var(k).ok().and_then(|v| v.parse().ok()).unwrap_or(d); // development knobs, unused by vf
      let e1_cases = dev("IOCX_E1_CASES", tier.pick(24_000u64, 1_000_000u64));
      let max_chunks = tier.pick(14usize, 30usize);
      let out = vcore::drive(&ctx, &check.findings, 1, e1_cases, move || seq::strategy(max_chunks), |s| seq::execute(s));
      check.absorb("E1", out);
      let t_e1 = ctx.wall();
      // E4: concurrent first resolutions
      let e4_cases = dev("IOCX_E4_CASES", tier.pick(600u64, 30_000u64));
      let out = vcore::drive(&ctx, &check.findings, 2, e4_cases, conc::strategy, |s| conc::execute(s, 1));
      check.absorb("E4", out);
      let t_e4 = ctx.wall();
      // E4x: cross-thread cycles (each in a child process)
      let x_cases = dev("IOCX_X_CASES", tier.pick(32u64, 600u64));
      let hard_ms = tier.pick(30_000u64, 45_000u64); // below vcore's 60 s per-case watchdog
      let out = vcore::drive(&ctx, &check.findings, 3, x_cases, xcycle::strategy, move |s| xcycle::execute(s, hard_ms));
      check.absorb("E4x", out);
      let t_x = ctx.wall();
      // E5: a continuously registered key re-registered under concurrent resolution
      let e5_cases = dev("IOCX_E5_CASES", tier.pick(320u64, 24_000u64));
      let max_rounds = tier.pick(10usize, 40usize);
      let out = vcore::drive(&ctx, &check.findings, 4, e5_cases, move || rereg::strategy(max_rounds), |s| rereg::execute(s, 1));
      check.absorb("E5", out);
      let t_5 = ctx.wall();
      println!("phases: witnesses+regressions {t_w:.1}s, E1 {:.1}s ({e1_cases} cases), E4 {:.1}s ({e4_cases} programs), E4x {:.1}s ({x_cases} cases), E5 {:.1}s ({e5_cases} programs)", t_e1 - t_w, t_e4 - t_e1, t_x - t_e4, t_5 - t_x);

      if std::env::var("VERIF_SURVEY").is_ok() {
        let mut by_sig: std::collections::BTreeMap<String, (u64, String)> = Default::default();
        for (k, v) in &check.stats.excluded {
          if let Some(rest) = k.strip_prefix("SURVEY ") {
            let (sig, msg) = rest.split_once(" :: ").unwrap_or((rest, ""));
            let e = by_sig.entry(sig.to_string()).or_insert((0, msg.to_string()));
            e.0 += v;
          }
        }
        for (k, (n, m)) in by_sig {
          println!("{n:6}  {k}\n          e.g. {m}");
        }
        std::process::exit(0);
      }

      // generator health (exit 2, never a violation)
      let q = tier == Tier::Quick;
      check.require_class("E1:re_registered_then_resolved", if q { 2_000 } else { 100_000 });
      check.require_class("E1:ran_on_guarded_thread", if q { 1_000 } else { 50_000 });
      check.require_class("E1:factory_resolved_another_service", if q { 2_000 } else { 100_000 });
      check.require_class("E1:cycle_reported_by_panic", if q { 1_000 } else { 50_000 });
      check.require_class("E1:global_container", if q { 300 } else { 15_000 });
      check.require_class("E1:dependency_in_another_container", if q { 500 } else { 25_000 });
      check.require_class("E1:same_key_other_container_on_path", if q { 100 } else { 5_000 });
      check.require_class("E4:>=2_threads_inside_first_resolution", if q { 200 } else { 10_000 });
      check.require_class("E4:registrations_during_resolution", if q { 200 } else { 10_000 });
      check.require_class("E1:confusable_name_registered", if q { 8_000 } else { 400_000 });
      check.require_class("E1:confusable_pair_both_registered", if q { 2_000 } else { 100_000 });
      check.require_class("E1:confusable_pair:local", if q { 300 } else { 15_000 });
      check.require_class("E1:name:empty", if q { 1_000 } else { 50_000 });
      check.require_class("E5:resolution_ended_during_a_re_registration", if q { 200 } else { 15_000 });
      check.require_class("E5:resolution_inside_teardown_of_replaced_registration", if q { 60 } else { 5_000 });
      check.require_class("E5:key:concrete:confusable_name", if q { 25 } else { 2_000 });
      // cross-thread cycles: executed = passed + excluded by the open finding
      let x_done = check.stats.classes.get("E4x").copied().unwrap_or(0) + check.stats.excluded.get("iocx-F2-cross-thread-cycle-deadlocks").copied().unwrap_or(0);
      if x_done < x_cases / 2 {
        check.health_failures.push(format!("generator health: only {x_done} of {x_cases} cross-thread cycle cases reached a verdict"));
      }
      if check.stats.classes.get("isolated_inconclusive").copied().unwrap_or(0) > 0 {
        check.health_failures.push(format!("{} isolated case(s) were inconclusive (child process slow, crashed outside a cycle step, or could not be started)", check.stats.classes["isolated_inconclusive"]));
      }

      let mut extra = std::collections::BTreeMap::new();
      extra.insert(
        "level_note".to_string(),
        serde_json::json!("E1 is exact (single thread, one correct outcome per step). E4 runs real threads on this machine's scheduler: each program is one sample of its interleavings; replays of E4 cases are statistical. E4x decides 'hang' from positive evidence in a child process (all resolver threads parked, context-switch counters frozen); otherwise inconclusive. E5 runs real threads too; with the drop gate (class E5:gate:drop_waits_for_a_resolution) a resolution provably lies inside the teardown of the replaced registration, otherwise the overlap is sampled."),
      );
      check.finish(EvidenceMeta {
        level: "exploration",
        rule: "proptest-generated cases of four engines. E1: sequential registration/resolution histories over 8 types x 16 names (None, \"a\", \"b\" and 13 confusable names: empty, case, whitespace, NUL, unicode normalisation, a type's name, long names differing in the last character, \"None\") x {global|instance, instance, local} containers, followed by a sweep resolving every one of the 384 keys. E4: T in 2..=16 barrier-released threads resolving a freshly registered key while a registrar thread registers other keys. E4x: a dependency ring entered by >= 2 threads at once. E5: 1-2 writer threads re-registering one continuously registered key (all registration forms) while 1-6 reader threads resolve it and two bystander keys, rounds sequenced by atomics. A case is non-trivial when a key was re-registered and then resolved, or a factory that resolves another service ran, or >= 2 threads were inside a first resolution of the same singleton (measured by counters inside the factory), or (E5) a reader resolution ended while a re-registration of the key was in progress (measured). distinct = hash of the scenario".into(),
        engine: "E1 sequential model-based histories + E4 real-thread programs + E4x cross-thread cycles in child processes + E5 concurrent re-registration programs (proptest)".into(),
        assumptions: vec![
          "E1: factories only resolve (they never register), as in the property's quantifier".into(),
          "E4/E4x: real scheduler of this machine (x86-64); interleavings are sampled, not enumerated".into(),
          "E4: only other keys are registered while a key is being resolved; E5: the resolved key itself is re-registered, never unregistered (the API has no removal)".into(),
          "E5: while a writer queues for the map's write lock the readers idle longer between resolutions (dashmap's shard lock prefers readers; liveness of registration is not part of the property)".into(),
        ],
        extra,
      });
    }
    _ => {
      eprintln!("usage: iocx check C18 <quick|thorough> | iocx replay <file>");
      std::process::exit(2)
    }
  }
}
