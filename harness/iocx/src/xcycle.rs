//! E4x — a dependency cycle that crosses threads.
//!
//! Nodes 0..len form a ring (node i's factory resolves node i+1, the last one node 0).  Each of
//! T ≥ 2 threads starts by resolving its own *entry* node; an entry node's factory, when it
//! first runs on the thread that entered there, waits (spinning with `yield_now`, bounded) until
//! all T threads are inside their entry factories, and only then resolves its successor.  So
//! every thread is inside a first resolution when it reaches for a service that another thread
//! is busy building, which in turn needs what this thread is building.
//!
//! The property says "a dependency cycle is reported by a panic instead of a hang or stack
//! overflow".  No factory of a ring can complete, so the only outcomes are: every top-level
//! resolution panics (held), or threads wait for each other forever (violated).  The case runs
//! in a child process (see child.rs): *blocked* is decided from positive evidence (all resolver
//! threads parked with frozen context-switch counters), not from a timeout alone.

use crate::child;
use crate::universe::*;
use fibre_ioc::Container;
use proptest::prelude::*;
use serde::{Deserialize, Serialize};
use std::cell::Cell;
use std::panic::{catch_unwind, AssertUnwindSafe};
use std::sync::atomic::{AtomicBool, AtomicUsize, Ordering};
use std::sync::{Arc, Mutex};
use std::time::{Duration, Instant};
use vcore::{CaseReport, Failure};

pub const P: &str = "C18";

#[derive(Clone, Debug, Serialize, Deserialize)]
pub struct XNode {
  pub name: u8,
  pub form: Form,
}

#[derive(Clone, Debug, Serialize, Deserialize)]
pub struct XCase {
  pub global: bool,
  /// node i has type index (base + i) % 8, so all keys of the ring are distinct
  pub base: u8,
  /// 2..=4 nodes
  pub nodes: Vec<XNode>,
  /// entry node of each thread (normalised to ≥ 2 distinct indices)
  pub entries: Vec<u8>,
}

thread_local! {
  static TIX: Cell<Option<usize>> = const { Cell::new(None) };
  static RDV_DONE: Cell<bool> = const { Cell::new(false) };
}

fn norm(case: &XCase) -> (Vec<(u8, u8, Form, bool)>, Vec<usize>) {
  let mut nodes: Vec<(u8, u8, Form, bool)> = Vec::new();
  let len = case.nodes.len().clamp(2, 4);
  for i in 0..len {
    let n = case.nodes.get(i).cloned().unwrap_or(XNode { name: 0, form: Form::Singleton });
    let ty = (case.base % NTY + i as u8) % NTY;
    let (form, single) = if ty >= NCONCRETE {
      (Form::SingletonArc, true)
    } else {
      match n.form {
        Form::Instance | Form::Singleton => (Form::Singleton, true),
        Form::SingletonArc => (Form::SingletonArc, true),
        Form::Transient => (Form::Transient, false),
      }
    };
    nodes.push((ty, n.name.min(NNAMES - 1), form, single));
  }
  let mut entries: Vec<usize> = Vec::new();
  for &e in &case.entries {
    let e = (e as usize).min(len - 1);
    if !entries.contains(&e) {
      entries.push(e);
    }
  }
  for e in 0..len {
    if entries.len() >= 2 {
      break;
    }
    if !entries.contains(&e) {
      entries.push(e);
    }
  }
  (nodes, entries)
}

pub fn execute(case: &XCase, hard_ms: u64) -> Result<CaseReport, Failure> {
  if child::in_child() {
    return run(case).map(Into::into);
  }
  let ck = if case.global { "global" } else { "instance" };
  let (nodes, entries) = norm(case);
  let shape = format!("ring of {} ({} singleton), {} threads, {ck} container", nodes.len(), nodes.iter().filter(|n| n.3).count(), entries.len());
  let inconclusive = |why: String| -> Result<CaseReport, Failure> {
    let mut cr = CaseReport::new();
    cr.inconclusive = 1;
    cr.class("isolated_inconclusive");
    eprintln!("inconclusive child run: {why}");
    Ok(cr)
  };
  match child::run_in_child("E4x", serde_json::to_value(case).unwrap(), hard_ms) {
    child::Outcome::Done(r) => r.map(Into::into),
    // "a dependency cycle is reported by a panic instead of a hang"
    child::Outcome::Blocked { threads } => Err(Failure::new(
      P,
      "E4x/cross_thread_cycle/blocked_no_panic",
      format!("{shape}: no resolution reported the cycle; every resolver thread is parked waiting for a singleton another one is building (thread states {threads}, context-switch counters frozen)"),
    )),
    // "... or stack overflow"
    child::Outcome::Crashed { how } => Err(Failure::new(P, "E4x/cross_thread_cycle/crash_instead_of_panic", format!("{shape}: the process died ({how})"))),
    child::Outcome::Slow { threads } => inconclusive(format!("hard limit reached with running threads {threads}")),
    child::Outcome::Infra(e) => inconclusive(e),
  }
}

enum Out {
  Panic(String),
  Returned(Option<Inst>),
}

/// Runs inside the child process, on the `coord` thread.
fn run(case: &XCase) -> Result<child::Rep, Failure> {
  let mut rep = CaseReport::new();
  rep.class("E4x");
  let ck = if case.global { "global" } else { "instance" };
  rep.class(format!("E4x:{ck}"));
  let (nodes, entries) = norm(case);
  let t_n = entries.len();
  rep.class(format!("E4x:ring{}:threads{}", nodes.len(), t_n));
  let inst = Arc::new(Container::new());
  let cw = if case.global { CW::Global } else { CW::Inst(Arc::downgrade(&inst)) };
  let shared: Shared = Arc::new(Mutex::new(Log::default()));
  let arrived = Arc::new(AtomicUsize::new(0));
  let rdv_timeout = Arc::new(AtomicBool::new(false));
  let entries_a = Arc::new(entries.clone());
  for (i, &(ty, name, form, _)) in nodes.iter().enumerate() {
    let nx = nodes[(i + 1) % nodes.len()];
    let dep = CDep { c: cw.clone(), ty: nx.0, name: name_of(nx.1).map(String::from) };
    let (sh, arrived, rdv_timeout, entries_a) = (shared.clone(), arrived.clone(), rdv_timeout.clone(), entries_a.clone());
    let reg = i as u32;
    let fac = move || {
      *lock(&sh).calls.entry(reg).or_default() += 1;
      if let Some(t) = TIX.with(|c| c.get()) {
        if entries_a[t] == i && !RDV_DONE.with(|c| c.replace(true)) {
          // rendezvous: wait until every thread is inside its entry factory (never sleeps)
          arrived.fetch_add(1, Ordering::SeqCst);
          let t0 = Instant::now();
          while arrived.load(Ordering::SeqCst) < entries_a.len() {
            if t0.elapsed() > Duration::from_secs(2) {
              rdv_timeout.store(true, Ordering::SeqCst);
              break;
            }
            std::thread::yield_now();
          }
        }
      }
      let d = dep.resolve();
      lock(&sh).create(reg, 0, vec![d])
    };
    cw.with(|c, _| creg(c, ty, name_of(name), form, 0, fac));
  }
  // an unrelated, acyclic service of the same container
  let other_ty = (case.base % NTY + nodes.len() as u8) % NTY;
  let other_form = if other_ty >= NCONCRETE { Form::SingletonArc } else { Form::Singleton };
  let other_reg = 100u32;
  cw.with(|c, _| creg(c, other_ty, None, other_form, 0, make_factory(shared.clone(), other_reg, 0, Vec::<CDep>::new())));

  let mut hs = Vec::new();
  for (t, &e) in entries.iter().enumerate() {
    let cw = cw.clone();
    let (ty, name, _, _) = nodes[e];
    hs.push(
      std::thread::Builder::new()
        .name(format!("{}{t}", child::X_PREFIX))
        .spawn(move || {
          TIX.with(|c| c.set(Some(t)));
          match catch_unwind(AssertUnwindSafe(|| cw.with(|c, g| cget_send(c, g, ty, name_of(name), Via::Method)))) {
            Ok(g) => Out::Returned(g.map(|g| g.inst)),
            Err(p) => Out::Panic(p.downcast_ref::<String>().cloned().or_else(|| p.downcast_ref::<&str>().map(|s| s.to_string())).unwrap_or_default()),
          }
        })
        .expect("spawn"),
    );
  }
  // if the threads wait for each other this join never returns; the watcher in main decides
  let outs: Vec<Out> = hs.into_iter().map(|h| h.join().unwrap_or_else(|_| Out::Panic("thread died".into()))).collect();
  if rdv_timeout.load(Ordering::SeqCst) {
    rep.class("E4x:rendezvous_incomplete");
  } else {
    rep.class("E4x:all_threads_inside_a_first_resolution");
    rep.nontrivial = true;
  }
  for (t, o) in outs.iter().enumerate() {
    match o {
      Out::Panic(m) => {
        rep.class(if m.contains("Circular dependency") { "E4x:panic:circular_dependency" } else { "E4x:panic:other" });
      }
      // "a dependency cycle is reported by a panic": no factory of a ring can complete, so a
      // resolution that returns did not report it
      Out::Returned(v) => {
        return Err(Failure::new(P, format!("E4x/{ck}/cross_thread_cycle/returned_instead_of_panic"), format!("thread {t} resolving its entry node got {v:?} although the service transitively depends on itself")));
      }
    }
  }
  rep.class("E4x:every_thread_reported_the_cycle_by_panic");
  // afterwards the container still serves what is registered ("the latest registration of a
  // key is the one resolved afterwards")
  match catch_unwind(AssertUnwindSafe(|| cw.with(|c, g| cget_send(c, g, other_ty, None, Via::Method)))) {
    Ok(Some(g)) if g.inst.reg == other_reg => {}
    Ok(o) => return Err(Failure::new(P, format!("E4x/{ck}/after_cycle/unrelated_key_wrong"), format!("unrelated key resolved to {:?}", o.map(|g| g.inst)))),
    Err(_) => return Err(Failure::new(P, format!("E4x/{ck}/after_cycle/unrelated_key_panicked"), "resolving an unrelated acyclic key panicked after the cycle was reported")),
  }
  // and the cycle is still reported to a single thread (stack unwound, cells reusable)
  let (ty, name, _, _) = nodes[entries[0]];
  match catch_unwind(AssertUnwindSafe(|| cw.with(|c, g| cget_send(c, g, ty, name_of(name), Via::Method)))) {
    Err(_) => {}
    Ok(v) => return Err(Failure::new(P, format!("E4x/{ck}/after_cycle/returned_instead_of_panic"), format!("single-threaded resolution of the ring afterwards returned {:?}", v.map(|g| g.inst)))),
  }
  Ok(rep.into())
}

pub fn strategy() -> impl Strategy<Value = XCase> {
  (
    prop_oneof![2 => Just(false), 1 => Just(true)],
    0u8..NTY,
    proptest::collection::vec((0u8..NNAMES, prop_oneof![3 => Just(Form::Singleton), 2 => Just(Form::Transient), 1 => Just(Form::SingletonArc)]).prop_map(|(name, form)| XNode { name, form }), 2..=4),
    proptest::collection::vec(0u8..4, 2..=4),
  )
    .prop_map(|(global, base, nodes, entries)| XCase { global, base, nodes, entries })
}
