#!/usr/bin/env python3
"""Merge the evidence parts written by the binaries that serve one property into
/verif/evidence/<ID>.json.  Pure bookkeeping: sums of measured counters, concatenated samples."""
import glob, json, sys
pid, tier = sys.argv[1], sys.argv[2]
parts = sorted(glob.glob(f"/verif/evidence/parts/{pid}-*.json"))
if not parts:
    print(f"no evidence parts for {pid}"); sys.exit(2)
docs = [json.load(open(p)) for p in parts]
cov = {"evaluations": 0, "distinct_nontrivial": 0, "rule": "", "samples": [], "classes": {}, "engines": [],
       "excluded_by_known_finding": {}, "inconclusive": 0, "known_findings_reported": [], "per_engine": {}}
rules = []
for p, d in zip(parts, docs):
    name = p.split("-", 1)[1][:-5]
    c = d["coverage"]
    cov["evaluations"] += c.get("evaluations", 0)
    cov["distinct_nontrivial"] += c.get("distinct_nontrivial", 0)
    rules.append(f"[{c.get('engine', name)}] {c.get('rule', '')}")
    cov["samples"].extend(c.get("samples", [])[:3])
    for k, v in c.get("classes", {}).items():
        cov["classes"][f"{name}:{k}"] = v
    for k, v in c.get("excluded_by_known_finding", {}).items():
        cov["excluded_by_known_finding"][k] = cov["excluded_by_known_finding"].get(k, 0) + v
    cov["inconclusive"] += c.get("inconclusive", 0)
    for k in c.get("known_findings_reported", []):
        if k not in cov["known_findings_reported"]:
            cov["known_findings_reported"].append(k)
    cov["engines"].append(c.get("engine", name))
    cov["per_engine"][name] = {"evaluations": c.get("evaluations", 0), "distinct_nontrivial": c.get("distinct_nontrivial", 0), "wall_s": d.get("wall_s", 0)}
cov["rule"] = " || ".join(rules)
out = {"property_id": pid, "tier": docs[0]["tier"], "seed": docs[0]["seed"], "level": "exploration", "coverage": cov,
       "assumptions": sorted({a for d in docs for a in d.get("assumptions", [])}),
       "wall_s": round(sum(d.get("wall_s", 0) for d in docs), 3),
       "violations": sum(d.get("violations", 0) for d in docs)}
json.dump(out, open(f"/verif/evidence/{pid}.json", "w"), indent=1)
