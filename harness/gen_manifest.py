#!/usr/bin/env python3
"""Regenerates /verif/MANIFEST.json from the table below (run after changing what is claimed)."""
import json, subprocess

E1 = "E1 sequential model-based histories (proptest)"
E2 = "E2 deterministic async poll/wake/cancel histories on a harness-owned executor (proptest)"
E3 = "E3 generated programs x generated schedules over the real code (shuttle backend via hook H1/H2, custom seed-driven scheduler)"

CHECKS = {
 "C01": dict(engine="E1+E2+E3", technique="property-based testing: proptest-generated operation histories against a FIFO reference model (E1), async poll/cancel histories with conservation oracle (E2), generated concurrent programs under generated schedules with conservation/hand-back oracles (E3); shrinking to a minimal replay",
   text="exactly-once delivery and effect-free failed operations held on every generated sequential history, async poll/cancel history and (program, schedule) pair explored, for all nine point-to-point flavours and every operation form; exploration, no claim of absence",
   note="E1/E2 are single-threaded (overlap only through pending futures); E3 explores sequentially consistent interleavings of 2-4 threads with <= 6 ops each under 48 (quick) / 200 (thorough) seeded schedules per program; weak-memory effects and larger programs are out of reach; reference models in harness/chan/src/{e1,e2}.rs and harness/sched/src/prog.rs are trusted", ref="DESIGN.md §5 C01"),
 "C02": dict(engine="E1+E2+E3", technique="property-based testing: FIFO reference model equality on generated sequential histories incl. forced ring wrap / chunk and slab recycling (E1), interval-order oracle on async histories (E2) and per-(consumer, producer) order under generated schedules (E3)",
   text="FIFO equality with a queue model on non-overlapping histories and per-producer order per consumer under overlap held on everything generated", note="as C01", ref="DESIGN.md §5 C02"),
 "C03": dict(engine="E1+E2+E3", technique="property-based testing: try_send success iff model not full and not closed plus len/is_full/capacity observers on sequential histories (E1); sound occupancy bound (completed sends minus what started receives can hold <= capacity) on async histories (E2) and under generated schedules (E3)",
   text="capacity respected on every generated history / schedule; blocking and async sends never reported success beyond capacity", note="as C01; the bounded-mpsc credit grey zone (space the consumer has not published yet) is accepted as waiting, see DESIGN §9", ref="DESIGN.md §5 C03"),
 "C04": dict(engine="E1+E2+E3 (+ broadcast and topic models, E3-topic)", technique="property-based testing: generated clone/close/drop/convert orders with every operation form on every handle state against the disconnect model (E1 for p2p, broadcast and topic), pending futures across disconnects (E2), drops racing in-flight operations under generated schedules (E3)",
   text="drain-then-Disconnected, Closed-with-hand-back, clone independence, self-closed handles rejecting, idempotent close held on everything generated", note="as C01; cloning an already closed handle is treated as outside the specified domain (DESIGN §9)", ref="DESIGN.md §5 C04"),
 "C05": dict(engine="E3 (+E3-topic)", technique="property-based testing over (program, schedule) pairs: terminating-by-specification producer/consumer programs run under generated schedules with a controlled scheduler; a deadlock verdict (every unfinished thread blocked) is precise, not a timeout",
   text="no generated schedule of any generated terminating program left a thread parked forever; step-budget exhaustion is counted as inconclusive", note="sequentially consistent schedules only; 2-4 threads; timeouts are virtual (a timed park yields once, then the timeout has elapsed); spurious unparks and spurious compare_exchange_weak failures are part of the generated schedules; every atomic access is followed by a second scheduling point (hook), oneshot and topic mailboxes are routed through the controlled scheduler too (hooks H1b/H1c)", ref="DESIGN.md §5 C05"),
 "C06": dict(engine="E2 (+ topic receive tasks) + E3 cancel families", technique="property-based testing: generated spawn/poll/wake/cancel/re-poll-with-new-waker histories on a harness-owned single-threaded executor with an operational stall oracle (forced poll after every delivered wake was polled) and conservation across cancellations (E2); generated thread programs in which futures are polled to Pending and abandoned while threads of the other handle form are parked or draining, under generated schedules with a deadlock verdict (E3)",
   text="every pending async operation that could complete had been woken, and cancellation lost/duplicated nothing, on every generated history (one open known finding for rendezvous channels)", note="E2 is single-threaded; a parked Stream is never abandoned by the harness; closing a handle with its own future pending is not generated; E3 part: sequentially consistent schedules of 2-4 threads; see DESIGN §9, §10.7", ref="DESIGN.md §5 C06"),
 "C07": dict(engine="E1-broadcast+E2+E3", technique="property-based testing: generated single-sender / multi-receiver histories against a send-log + per-receiver-cursor model; generated schedules for the blocked-sender / dropped-receiver interplay",
   text="every receiver saw exactly the suffix of the send log from its creation point, backpressure matched the slowest live receiver, and no schedule deadlocked, on everything generated", note="sequential model for exact outcomes; E3 checks conservation/order/deadlock and that no slot is overwritten or destroyed while a receiver is still copying its value out (payload Clone is a scheduling point)", ref="DESIGN.md §5 C07"),
 "C08": dict(engine="E1-topic + E4-topic (real threads) + E3-topic", technique="property-based testing: generated subscribe/unsubscribe/clone/close/publish histories against a model of subscription sets and bounded drop-newest mailboxes (E1); real-thread rounds with subscription churn and with receivers racing to subscribe to a never-used topic (E4); generated publisher/receiver thread programs under generated schedules with an interval oracle (Sub/Unsub/Maybe segments per receiver and topic on a logical clock: nothing invented or duplicated, no foreign topic, publish order, no omission while definitely subscribed with provable mailbox room, Disconnected only after every sender began to go away and observed once they are gone) (E3)",
   text="routing by subscription, drop-newest-only-when-full and the disconnect rule held on every generated sequential history, on every real-thread round and under every generated schedule of every generated publisher/receiver program", note="E3: sequentially consistent schedules of 2-5 threads; papaya's subscription map is not instrumented (no preemption inside it: the E4 rounds cover the first-subscribe race statistically); 'publishing never blocks' is checked as 'returns' (a publish that could not return would be reported as a deadlock), not as a latency bound", ref="DESIGN.md §5 C08"),
 "C09": dict(engine="E1+E2+E3", technique="property-based testing: payloads with observable Drop registered in a per-case registry; generated teardown orders incl. buffered items, wrapped rings, recycled chunks/slabs, pending and cancelled futures, drops racing operations under generated schedules; oracle = every instance dropped exactly once",
   text="no leak and no double drop on every generated history / schedule", note="as C01; double drops are detected by a poisoned-instance marker, use-after-free only where it changes behaviour (valgrind/ASan are not part of the quick tier)", ref="DESIGN.md §5 C09"),
 "C10": dict(engine="E2-locks+E3-locks", technique="property-based testing: generated single-threaded histories of async/try acquisitions, releases, cancellations before/after wake, re-polls with new wakers and reader streams (writer-starvation probe) on a harness-owned executor (E2-locks); generated lock/try/async/cancel thread programs over HybridMutex and HybridRwLock under generated schedules with occupancy counters inside the protected value and a deadlock verdict from the controlled scheduler (E3-locks)",
   text="mutual exclusion held and every acquirer terminated under every generated schedule, including after cancelled (possibly already woken) lock futures", note="sequentially consistent schedules; writer starvation is checked by a deterministic probe (a writer queued behind one reader must get in within 3 generations of overlapping async readers) and as eventual acquisition under schedules, not as a fairness bound under an adversarial scheduler; try_* non-blocking is checked as 'returns, and does not refuse a free lock'", ref="DESIGN.md §5 C10"),
 "C18": dict(engine="iocx E1+E4+E4x+E5", technique="property-based testing: generated registration/resolution histories against a (kind, generation) model keyed on the exact (type, name) over a name universe with confusable names (empty, case / whitespace / NUL / unicode-normalisation variants, very long names) on global, instance and local containers; generated barrier-aligned thread programs; re-registration programs (writers re-register a key that stays registered while readers resolve it, rounds sequenced by atomics, generation-interval oracle); cross-thread cycle decided in a child process",
   text="singleton-once / transient-fresh / key isolation / latest-wins / cycle-panics held on every generated history and thread program (one open known finding: cross-thread dependency cycle blocks instead of panicking)", note="real-thread cases sample this machine's scheduler (statistical replays); hang verdicts need positive /proc evidence, otherwise inconclusive", ref="DESIGN.md §5 C18"),
}

# properties whose checks are still being built
PENDING = {
 "C11": "cache check crate (harness/cachex) still under construction in this round",
 "C12": "cache check crate (harness/cachex) still under construction in this round",
 "C13": "cache check crate (harness/cachex) still under construction in this round",
 "C14": "cache check crate (harness/cachex) still under construction in this round",
 "C15": "cache check crate (harness/cachex) still under construction in this round",
 "C16": "cache check crate (harness/cachex) still under construction in this round",
 "C17": "cache check crate (harness/cachex) still under construction in this round",
 "C19": "logging check crate (harness/logx) still under construction in this round",
 "C20": "logging check crate (harness/logx) still under construction in this round",
}

def hook_commits():
    out = subprocess.check_output(["git", "-C", "/repo", "log", "--format=%h %s"], text=True).splitlines()
    return [l.split()[0] for l in out if l.split(" ", 1)[1].startswith("hook:")]

def main():
    import importlib.util, os
    extra = "/verif/harness/manifest_extra.json"
    checks_tbl = dict(CHECKS)
    pending = dict(PENDING)
    if os.path.exists(extra):
        ex = json.load(open(extra))
        for k, v in ex.get("checks", {}).items():
            checks_tbl[k] = v
            pending.pop(k, None)
        for k, v in ex.get("pending", {}).items():
            pending[k] = v
    checks = []
    for pid in sorted(checks_tbl):
        c = checks_tbl[pid]
        checks.append({
            "property_id": pid,
            "quick_cmd": f"./vf check {pid} quick",
            "thorough_cmd": f"./vf check {pid} thorough",
            "evidence_file": f"/verif/evidence/{pid}.json",
            "replay_cmd_template": "./vf replay {path}",
            "engine": c["engine"],
            "level_claimed": {"category": "exploration", "text": c["text"], "design_ref": c["ref"]},
            "level_note": c["note"],
            "technique": c["technique"],
        })
    m = {
        "version": 1,
        "setup_cmd": "./vf setup",
        "hooks": {
            "guard": "excsn_fibre_verif",
            "enable": "RUSTFLAGS='--cfg excsn_fibre_verif' (cache / logging hooks) and additionally '--cfg excsn_fibre_verif_shuttle' for the controlled-scheduler channel backend; set per build by ./vf (harness/checks.tsv column 3)",
            "baseline_off_cmd": "/verif/baseline.sh",
            "source_commits": hook_commits(),
            "add_only": True,
        },
        "engines": [
            {"name": "E1", "path": "harness/chan/src/e1.rs (+ bcast.rs, topic.rs)", "serves_properties": ["C01", "C02", "C03", "C04", "C07", "C08", "C09"], "kind_free_text": E1},
            {"name": "E2", "path": "harness/chan/src/e2.rs", "serves_properties": ["C01", "C02", "C03", "C04", "C06", "C09"], "kind_free_text": E2},
            {"name": "E3", "path": "harness/sched", "serves_properties": ["C01", "C02", "C03", "C04", "C05", "C07", "C09", "C10"], "kind_free_text": E3},
            {"name": "iocx", "path": "harness/iocx", "serves_properties": ["C18"], "kind_free_text": "sequential model-based histories + real-thread programs (proptest)"},
            {"name": "cachex", "path": "harness/cachex", "serves_properties": ["C11", "C12", "C13", "C14", "C15", "C16", "C17"], "kind_free_text": "deterministic model-based cache histories with a virtual clock, policy contract sequences, loader waves, real-thread programs (proptest)"},
            {"name": "logx", "path": "harness/logx", "serves_properties": ["C19", "C20"], "kind_free_text": "encoder round trips, roller histories, in-process routing differential, child-process end-to-end scripts (proptest; cargo-fuzz in thorough)"},
            {"name": "E5", "path": "harness/fuzz", "serves_properties": ["C01", "C06", "C09"], "kind_free_text": "cargo-fuzz / libFuzzer + ASan over the E2 interpreter (thorough tier)"},
        ],
        "checks": checks,
        "not_applicable": [{"property_id": k, "reason": v} for k, v in sorted(pending.items()) if k not in checks_tbl],
        "notes": "Known findings: /verif/known_findings.json (+ fragments in /verif/known_findings.d/). Exit 2 = inconclusive / infrastructure, never a violation.",
    }
    json.dump(m, open("/verif/MANIFEST.json", "w"), indent=1)

if __name__ == "__main__":
    main()
