//! C07 — broadcast spmc against a (send log, per-receiver cursor) model.  Sequential histories
//! (E1 style): every step has one correct outcome.  Async handles are polled once with a
//! counting waker; a pending future is dropped (cancellation must be harmless).

use crate::adapt::*;
use crate::e1::poll_once;
use crate::payload::*;
use fibre::error::*;
use proptest::prelude::*;
use serde::{Deserialize, Serialize};
use std::sync::Arc;
use std::time::Duration;
use vcore::{idx, CaseReport, Failure};

#[derive(Clone, Debug, Serialize, Deserialize, PartialEq)]
pub enum Op {
  TrySend,
  Send,
  TrySendBatch(u16, bool),
  SendBatch(u16, bool),
  TryRecv(u16),
  Recv(u16),
  RecvTimeout(u16, bool),
  TryRecvBatch(u16, u16, bool),
  RecvBatch(u16, u16, bool),
  Next(u16),
  CloneRx(u16),
  CloseRx(u16),
  DropRx(u16),
  ConvRx(u16),
  ConvTx,
  CloseTx,
  DropTx,
  /// k rounds of: fill what fits, every receiver drains
  Pump(u16),
}

#[derive(Clone, Debug, Serialize, Deserialize)]
pub struct Scenario {
  pub async_start: bool,
  pub cap: usize,
  pub ops: Vec<Op>,
}

pub fn scenario_strategy(max_ops: usize) -> BoxedStrategy<Scenario> {
  let h = any::<u16>();
  let n = prop_oneof![3 => 0u16..4, 2 => 2u16..7, 1 => Just(12u16)];
  let op = prop_oneof![
    8 => Just(Op::TrySend),
    4 => Just(Op::Send),
    4 => (n.clone(), any::<bool>()).prop_map(|(a, b)| Op::TrySendBatch(a, b)),
    2 => (n.clone(), any::<bool>()).prop_map(|(a, b)| Op::SendBatch(a, b)),
    8 => h.prop_map(Op::TryRecv),
    4 => h.prop_map(Op::Recv),
    2 => (h, any::<bool>()).prop_map(|(a, b)| Op::RecvTimeout(a, b)),
    4 => (h, n.clone(), any::<bool>()).prop_map(|(a, b, c)| Op::TryRecvBatch(a, b, c)),
    2 => (h, n.clone(), any::<bool>()).prop_map(|(a, b, c)| Op::RecvBatch(a, b, c)),
    2 => h.prop_map(Op::Next),
    4 => h.prop_map(Op::CloneRx),
    2 => h.prop_map(Op::CloseRx),
    2 => h.prop_map(Op::DropRx),
    2 => h.prop_map(Op::ConvRx),
    1 => Just(Op::ConvTx),
    1 => Just(Op::CloseTx),
    1 => Just(Op::DropTx),
    1 => (1u16..40).prop_map(Op::Pump),
  ];
  let caps = prop_oneof![3 => Just(1usize), 3 => Just(2usize), 2 => Just(3usize), 1 => Just(4usize), 1 => Just(5usize), 1 => Just(8usize)];
  (any::<bool>(), caps, proptest::collection::vec(op, 1..max_ops)).prop_map(|(async_start, cap, ops)| Scenario { async_start, cap, ops }).boxed()
}

struct RxM {
  cursor: usize,
  closed: bool,
  got: Vec<u32>,
  start: usize,
}

struct Run<'a> {
  s: &'a Scenario,
  tx: &'a mut Vec<Box<dyn Tx>>,
  rx: &'a mut Vec<Box<dyn Rx>>,
  reg: Arc<Registry>,
  log: Vec<u32>,
  txm_closed: bool,
  rxm: Vec<RxM>,
  next_id: u32,
  rep: CaseReport,
  laps: bool,
  cursors_differ: bool,
}

type R = Result<(), Failure>;
macro_rules! fail {
  ($prop:expr, $sig:expr, $($arg:tt)*) => {
    return Err(Failure::new($prop, $sig, format!($($arg)*)))
  };
}
fn sig(a: bool, form: &str, clause: &str) -> String {
  format!("E1/spmc_broadcast/{}/{}/{}", if a { "async" } else { "sync" }, form, clause)
}

impl<'a> Run<'a> {
  fn head(&self) -> usize {
    self.log.len()
  }
  fn live_rx(&self) -> impl Iterator<Item = &RxM> {
    self.rxm.iter().filter(|r| !r.closed)
  }
  fn tx_gone(&self) -> bool {
    self.tx.is_empty() || self.txm_closed
  }
  /// free slots as the sender must see them; None if no live receiver (send must fail Closed)
  fn free(&self) -> Option<usize> {
    let min = self.live_rx().map(|r| r.cursor).min()?;
    Some(self.s.cap - (self.head() - min))
  }
  fn fresh(&mut self) -> Pay {
    let id = self.next_id;
    self.next_id += 1;
    Tracked::new(id, &self.reg)
  }

  fn do_send(&mut self, blocking: bool) -> R {
    if self.tx.is_empty() {
      return Ok(());
    }
    let caps = self.tx[0].caps();
    let a = caps.futures;
    let free = self.free();
    let closed = self.txm_closed || free.is_none();
    let full = free == Some(0);
    let v = self.fresh();
    let id = v.id;
    enum O {
      Ok,
      Full(u32),
      Closed(Option<u32>),
      Pending,
    }
    let (form, o) = if blocking && caps.blocking && !full {
      ("send", match self.tx[0].send(v) {
        Ok(()) => O::Ok,
        Err(_) => O::Closed(None),
      })
    } else if blocking && caps.futures {
      ("send_fut", match poll_once(self.tx[0].send_fut(v)) {
        Some(Ok(())) => O::Ok,
        Some(Err(_)) => O::Closed(None),
        None => O::Pending,
      })
    } else {
      ("try_send", match self.tx[0].try_send(v) {
        Ok(()) => O::Ok,
        Err(TrySendError::Full(b)) => O::Full(b.id),
        Err(TrySendError::Closed(b)) => O::Closed(Some(b.id)),
        Err(TrySendError::Sent(b)) => O::Closed(Some(b.id)),
      })
    };
    match o {
      O::Ok => {
        if closed {
          fail!("C04", sig(a, form, "accepted_on_closed"), "send succeeded although {}", if self.txm_closed { "the sender handle is closed" } else { "no receiver is alive" });
        }
        // C07: "The sender is held back by the slowest live receiver, so an unread value is never overwritten"
        if full {
          fail!("C07", sig(a, form, "accepted_when_full"), "send succeeded although the slowest live receiver is {} behind (capacity {})", self.s.cap, self.s.cap);
        }
        self.log.push(id);
        Ok(())
      }
      O::Full(b) => {
        if b != id {
          fail!("C01", sig(a, form, "handback_identity"), "Full handed back #{b} instead of #{id}");
        }
        if closed {
          fail!("C04", sig(a, form, "full_instead_of_closed"), "Full on a closed channel/handle");
        }
        if !full {
          fail!("C07", sig(a, form, "false_full"), "Full although the slowest live receiver is only {} behind (capacity {})", self.s.cap - free.unwrap(), self.s.cap);
        }
        Ok(())
      }
      O::Closed(b) => {
        if let Some(b) = b {
          if b != id {
            fail!("C01", sig(a, form, "handback_identity"), "Closed handed back #{b} instead of #{id}");
          }
        }
        if !closed {
          fail!("C04", sig(a, form, "closed_but_open"), "send failed Closed with {} live receiver(s) and an open sender", self.live_rx().count());
        }
        Ok(())
      }
      O::Pending => {
        if closed {
          fail!("C04", sig(a, form, "pending_on_closed"), "send future Pending on a closed channel/handle");
        }
        if !full {
          fail!("C06", sig(a, form, "pending_with_space"), "send future Pending although the slowest live receiver is only {} behind (capacity {})", self.s.cap - free.unwrap(), self.s.cap);
        }
        Ok(())
      }
    }
  }

  fn do_send_batch(&mut self, n: usize, blocking: bool, in_place: bool) -> R {
    if self.tx.is_empty() {
      return Ok(());
    }
    let caps = self.tx[0].caps();
    let a = caps.futures;
    let free = self.free();
    let closed = self.txm_closed || free.is_none();
    let fits = free.map(|f| n <= f).unwrap_or(false);
    let items: Vec<Pay> = (0..n).map(|_| self.fresh()).collect();
    let ids = crate::payload::ids(&items);
    // (sent, unsent, pending)
    let (form, sent, unsent, pending): (&str, usize, Vec<u32>, bool) = if blocking && caps.blocking && (fits || n == 0) {
      if in_place {
        let mut v = items;
        let r = self.tx[0].send_batch_mut(&mut v);
        let left = crate::payload::ids(&v);
        let _ = r;
        ("send_batch_mut", n - left.len().min(n), left, false)
      } else {
        match self.tx[0].send_batch(items) {
          Ok(k) => ("send_batch", k, vec![], false),
          Err(e) => ("send_batch", e.sent, crate::payload::ids(&e.unsent), false),
        }
      }
    } else if blocking && caps.futures {
      if in_place {
        let mut v = items;
        let r = poll_once(self.tx[0].send_batch_mut_fut(&mut v));
        let left = crate::payload::ids(&v);
        ("send_batch_mut_fut", n - left.len().min(n), left, r.is_none())
      } else {
        // by-value future: a cancelled one drops the unsent tail; only poll it when it must complete
        if !(fits || closed || n == 0) {
          let mut v = items;
          let r = self.tx[0].try_send_batch_mut(&mut v);
          let left = crate::payload::ids(&v);
          let _ = r;
          ("try_send_batch_mut", n - left.len().min(n), left, false)
        } else {
          match poll_once(self.tx[0].send_batch_fut(items)) {
            Some(Ok(k)) => ("send_batch_fut", k, vec![], false),
            Some(Err(e)) => ("send_batch_fut", e.sent, crate::payload::ids(&e.unsent), false),
            None => {
              fail!("C06", sig(a, "send_batch_fut", "pending_with_space"), "batch future Pending although all {n} items fit / channel closed");
            }
          }
        }
      }
    } else if in_place {
      let mut v = items;
      let r = self.tx[0].try_send_batch_mut(&mut v);
      let left = crate::payload::ids(&v);
      let _ = r;
      ("try_send_batch_mut", n - left.len().min(n), left, false)
    } else {
      match self.tx[0].try_send_batch(items) {
        Ok(k) => ("try_send_batch", k, vec![], false),
        Err(e) => ("try_send_batch", e.sent, crate::payload::ids(&e.unsent), false),
      }
    };
    if sent + unsent.len() != n || unsent != ids[sent.min(n)..] {
      fail!("C01", sig(a, form, "batch_accounting"), "sent {} + unsent {:?} does not partition the input {:?} in order", sent, unsent, ids);
    }
    if closed {
      if sent > 0 {
        fail!("C04", sig(a, form, "accepted_on_closed"), "batch sent {sent} items on a closed channel/handle");
      }
      return Ok(());
    }
    let f = free.unwrap();
    if sent > f {
      fail!("C07", sig(a, form, "accepted_when_full"), "batch sent {sent} items with only {f} free slots w.r.t. the slowest live receiver");
    }
    if sent != n.min(f) {
      fail!("C07", sig(a, form, "false_full"), "batch sent {sent} items but {} fit", n.min(f));
    }
    let _ = pending;
    for id in &ids[..sent] {
      self.log.push(*id);
    }
    self.rep.class("batch_send");
    Ok(())
  }

  fn got(&mut self, a: bool, form: &str, r: usize, id: u32) -> R {
    let m = &self.rxm[r];
    if m.closed {
      fail!("C04", sig(a, form, "value_on_self_closed_handle"), "a self-closed receiver obtained #{id}");
    }
    // C07: "every receiver obtains every value sent after it was created (a clone starts at
    // its parent's current position) exactly once and in send order"
    match self.log.get(m.cursor) {
      Some(e) if *e == id => {
        self.rxm[r].cursor += 1;
        self.rxm[r].got.push(id);
        Ok(())
      }
      Some(e) => fail!("C07", sig(a, form, "wrong_value"), "receiver (created at position {}) obtained #{id} but the next value of its view is #{e} (position {})", m.start, m.cursor),
      None => fail!("C07", sig(a, form, "phantom"), "receiver obtained #{id} although it has drained its view ({} sent)", self.log.len()),
    }
  }

  fn not_got(&mut self, a: bool, form: &str, r: usize, disc: bool, timeout: bool) -> R {
    let m = &self.rxm[r];
    if m.closed {
      if !disc {
        fail!("C04", sig(a, form, "self_closed_not_rejected"), "a self-closed receiver did not reject the operation");
      }
      return Ok(());
    }
    if m.cursor < self.head() {
      if disc {
        fail!("C07", sig(a, form, "disconnected_before_drained"), "Disconnected with {} value(s) of its view unread", self.head() - m.cursor);
      }
      fail!("C07", sig(a, form, "empty_but_unread"), "{} with {} value(s) of its view unread", if timeout { "Timeout" } else { "Empty" }, self.head() - m.cursor);
    }
    // C07: "then Disconnected once the sender is gone and it has drained its view" — also C04's
    // disconnect protocol, reported as C04 under the C04 check
    let dprop = if crate::current_property() == "C04" { "C04" } else { "C07" };
    if disc && !self.tx_gone() {
      fail!(dprop, sig(a, form, "disconnected_with_live_sender"), "Disconnected while the sender is alive");
    }
    if !disc && self.tx_gone() {
      fail!(dprop, sig(a, form, "empty_after_sender_gone"), "{} although the sender is gone and the view is drained", if timeout { "Timeout" } else { "Empty" });
    }
    Ok(())
  }

  fn can_recv(&self, r: usize) -> bool {
    self.rxm[r].cursor < self.head() || self.tx_gone()
  }

  fn do_recv(&mut self, r: usize, kind: u8, zero: bool) -> R {
    // kind 0 try, 1 blocking/future, 2 timeout, 3 stream
    let caps = self.rx[r].caps();
    let a = caps.futures;
    match kind {
      1 if caps.blocking && self.can_recv(r) => match self.rx[r].recv() {
        Ok(v) => self.got(a, "recv", r, v.id),
        Err(_) => self.not_got(a, "recv", r, true, false),
      },
      1 if caps.futures => match poll_once(self.rx[r].recv_fut()) {
        Some(Ok(v)) => self.got(a, "recv_fut", r, v.id),
        Some(Err(_)) => self.not_got(a, "recv_fut", r, true, false),
        None => {
          if self.rxm[r].closed {
            fail!("C04", sig(a, "recv_fut", "self_closed_not_rejected"), "recv future of a self-closed receiver is Pending");
          }
          if self.can_recv(r) {
            fail!("C06", sig(a, "recv_fut", "pending_but_ready"), "recv future Pending with {} unread / sender gone: {}", self.head() - self.rxm[r].cursor, self.tx_gone());
          }
          Ok(())
        }
      },
      3 if caps.stream => match poll_once(self.rx[r].next_fut()) {
        Some(Some(v)) => self.got(a, "stream_next", r, v.id),
        Some(None) => self.not_got(a, "stream_next", r, true, false),
        None => {
          if self.rxm[r].closed {
            fail!("C04", sig(a, "stream_next", "self_closed_not_rejected"), "stream of a self-closed receiver is Pending");
          }
          if self.can_recv(r) {
            fail!("C06", sig(a, "stream_next", "pending_but_ready"), "stream Pending with {} unread / sender gone: {}", self.head() - self.rxm[r].cursor, self.tx_gone());
          }
          Ok(())
        }
      },
      2 if caps.timeout => {
        let d = if zero { Duration::ZERO } else { Duration::from_millis(1) };
        match self.rx[r].recv_timeout(d) {
          Ok(v) => self.got(a, "recv_timeout", r, v.id),
          Err(RecvErrorTimeout::Disconnected) => self.not_got(a, "recv_timeout", r, true, false),
          Err(RecvErrorTimeout::Timeout) => {
            if self.rxm[r].closed {
              fail!("C04", sig(a, "recv_timeout", "self_closed_not_rejected"), "a self-closed receiver waited and reported Timeout");
            }
            self.not_got(a, "recv_timeout", r, false, true)
          }
        }
      }
      _ => match self.rx[r].try_recv() {
        Ok(v) => self.got(a, "try_recv", r, v.id),
        Err(TryRecvError::Empty) => self.not_got(a, "try_recv", r, false, false),
        Err(TryRecvError::Disconnected) => self.not_got(a, "try_recv", r, true, false),
      },
    }
  }

  fn do_recv_batch(&mut self, r: usize, max: usize, blocking: bool, in_place: bool) -> R {
    let caps = self.rx[r].caps();
    let a = caps.futures;
    let unread = self.head() - self.rxm[r].cursor;
    let mut out: Vec<Pay> = Vec::new();
    // Ok(ids) | Err(disc) | Pending
    let (form, res): (&str, Result<Vec<u32>, Option<bool>>) = if blocking && caps.blocking && (max == 0 || self.can_recv(r)) {
      if in_place {
        ("recv_batch_mut", self.rx[r].recv_batch_mut(&mut out, max).map(|_| crate::payload::ids(&out)).map_err(|_| Some(true)))
      } else {
        ("recv_batch", self.rx[r].recv_batch(max).map(|v| crate::payload::ids(&v)).map_err(|_| Some(true)))
      }
    } else if blocking && caps.futures {
      if in_place {
        ("recv_batch_mut_fut", match poll_once(self.rx[r].recv_batch_mut_fut(&mut out, max)) {
          Some(r) => r.map(|_| crate::payload::ids(&out)).map_err(|_| Some(true)),
          None => Err(None),
        })
      } else {
        ("recv_batch_fut", match poll_once(self.rx[r].recv_batch_fut(max)) {
          Some(r) => r.map(|v| crate::payload::ids(&v)).map_err(|_| Some(true)),
          None => Err(None),
        })
      }
    } else if in_place {
      ("try_recv_batch_mut", self.rx[r].try_recv_batch_mut(&mut out, max).map(|_| crate::payload::ids(&out)).map_err(|e| Some(e == TryRecvError::Disconnected)))
    } else {
      ("try_recv_batch", self.rx[r].try_recv_batch(max).map(|v| crate::payload::ids(&v)).map_err(|e| Some(e == TryRecvError::Disconnected)))
    };
    drop(out);
    self.rep.class("batch_recv");
    match res {
      Ok(ids) => {
        if max == 0 {
          if !ids.is_empty() {
            fail!("C01", sig(a, form, "batch_exceeds_max"), "max 0 returned items");
          }
          return Ok(());
        }
        if ids.len() > max || ids.is_empty() {
          fail!("C01", sig(a, form, "batch_size"), "{} items for max {max}", ids.len());
        }
        for id in &ids {
          self.got(a, form, r, *id)?;
        }
        if ids.len() != max.min(unread) {
          fail!("C07", sig(a, form, "batch_short"), "returned {} of {} unread (max {max})", ids.len(), unread);
        }
        Ok(())
      }
      Err(Some(disc)) => {
        if max == 0 {
          return Ok(());
        }
        self.not_got(a, form, r, disc, false)
      }
      Err(None) => {
        if self.rxm[r].closed {
          fail!("C04", sig(a, form, "self_closed_not_rejected"), "batch recv future of a self-closed receiver is Pending");
        }
        if max == 0 || self.can_recv(r) {
          fail!("C06", sig(a, form, "pending_but_ready"), "batch recv future Pending with {unread} unread");
        }
        Ok(())
      }
    }
  }

  fn observe(&mut self) -> R {
    let head = self.head();
    for (i, r) in self.rx.iter().enumerate() {
      let m = &self.rxm[i];
      if m.closed {
        continue;
      }
      let a = r.caps().futures;
      if let Some(l) = r.len() {
        if l != head - m.cursor {
          fail!("C07", sig(a, "rx.len", "len_mismatch"), "receiver len() {} but {} values of its view are unread", l, head - m.cursor);
        }
        if l > self.s.cap {
          fail!("C03", sig(a, "rx.len", "len_exceeds_capacity"), "len() {} > capacity {}", l, self.s.cap);
        }
      }
      if let Some(c) = r.capacity() {
        if c != self.s.cap {
          fail!("C03", sig(a, "rx.capacity", "capacity_mismatch"), "capacity() {} != {}", c, self.s.cap);
        }
      }
    }
    if let (Some(t), Some(free)) = (self.tx.first(), self.free()) {
      if !self.txm_closed {
        let a = t.caps().futures;
        let used = self.s.cap - free;
        if let Some(l) = t.len() {
          if l != used {
            fail!("C07", sig(a, "tx.len", "len_mismatch"), "sender len() {} but the slowest live receiver is {} behind", l, used);
          }
        }
        if let Some(f) = t.is_full() {
          if f != (free == 0) {
            fail!("C07", sig(a, "tx.is_full", "is_full_mismatch"), "sender is_full() {} with {} free", f, free);
          }
        }
      }
    }
    let cs: Vec<usize> = self.live_rx().map(|r| r.cursor).collect();
    if cs.len() >= 2 && cs.iter().min() != cs.iter().max() {
      self.cursors_differ = true;
    }
    if head > self.s.cap {
      self.laps = true;
    }
    Ok(())
  }

  fn step(&mut self, op: &Op) -> R {
    let nrx = self.rx.len();
    match op {
      Op::TrySend => self.do_send(false),
      Op::Send => self.do_send(true),
      Op::TrySendBatch(n, ip) => self.do_send_batch(*n as usize, false, *ip),
      Op::SendBatch(n, ip) => self.do_send_batch(*n as usize, true, *ip),
      Op::TryRecv(i) if nrx > 0 => self.do_recv(idx(*i, nrx), 0, false),
      Op::Recv(i) if nrx > 0 => self.do_recv(idx(*i, nrx), 1, false),
      Op::RecvTimeout(i, z) if nrx > 0 => self.do_recv(idx(*i, nrx), 2, *z),
      Op::Next(i) if nrx > 0 => self.do_recv(idx(*i, nrx), 3, false),
      Op::TryRecvBatch(i, n, ip) if nrx > 0 => self.do_recv_batch(idx(*i, nrx), *n as usize, false, *ip),
      Op::RecvBatch(i, n, ip) if nrx > 0 => self.do_recv_batch(idx(*i, nrx), *n as usize, true, *ip),
      Op::CloneRx(i) if nrx > 0 && nrx < 4 => {
        let r = idx(*i, nrx);
        if self.rxm[r].closed {
          return Ok(());
        }
        if let Some(c) = self.rx[r].try_clone() {
          self.rx.push(c);
          let cur = self.rxm[r].cursor;
          self.rxm.push(RxM { cursor: cur, closed: false, got: vec![], start: cur });
          self.rep.class("clone_rx");
        }
        Ok(())
      }
      Op::CloseRx(i) if nrx > 0 => {
        let r = idx(*i, nrx);
        let a = self.rx[r].caps().futures;
        let was = self.rxm[r].closed;
        match (was, self.rx[r].close().is_ok()) {
          (false, true) => {
            self.rxm[r].closed = true;
            self.rep.class("close_rx");
            Ok(())
          }
          (true, false) => Ok(()),
          (false, false) => fail!("C04", sig(a, "close_rx", "first_close_failed"), "first close() returned CloseError"),
          (true, true) => fail!("C04", sig(a, "close_rx", "second_close_ok"), "second close() returned Ok"),
        }
      }
      Op::DropRx(i) if nrx > 0 => {
        let r = idx(*i, nrx);
        drop(self.rx.remove(r));
        self.rxm.remove(r);
        self.rep.class("drop_rx");
        Ok(())
      }
      Op::ConvRx(i) if nrx > 0 => {
        let r = idx(*i, nrx);
        let b = self.rx.remove(r);
        let n = match b.convert() {
          Ok(n) => n,
          Err(o) => o,
        };
        self.rx.insert(r, n);
        Ok(())
      }
      Op::ConvTx if !self.tx.is_empty() => {
        let b = self.tx.remove(0);
        let n = match b.convert() {
          Ok(n) => n,
          Err(o) => o,
        };
        self.tx.push(n);
        Ok(())
      }
      Op::CloseTx if !self.tx.is_empty() => {
        let a = self.tx[0].caps().futures;
        let was = self.txm_closed;
        match (was, self.tx[0].close().is_ok()) {
          (false, true) => {
            self.txm_closed = true;
            Ok(())
          }
          (true, false) => Ok(()),
          (false, false) => fail!("C04", sig(a, "close_tx", "first_close_failed"), "first close() returned CloseError"),
          (true, true) => fail!("C04", sig(a, "close_tx", "second_close_ok"), "second close() returned Ok"),
        }
      }
      Op::DropTx if !self.tx.is_empty() => {
        drop(self.tx.remove(0));
        Ok(())
      }
      Op::Pump(k) => {
        for round in 0..*k {
          if self.tx.is_empty() || self.txm_closed || self.free().is_none() {
            break;
          }
          let f = self.free().unwrap();
          if f > 0 {
            if round % 2 == 0 {
              self.do_send_batch(f, false, round % 4 == 0)?;
            } else {
              for _ in 0..f {
                self.do_send(false)?;
              }
            }
          }
          for r in 0..self.rx.len() {
            while !self.rxm[r].closed && self.rxm[r].cursor < self.head() {
              if round % 3 == 0 {
                self.do_recv_batch(r, 3, false, round % 2 == 0)?;
              } else {
                self.do_recv(r, 0, false)?;
              }
            }
          }
        }
        Ok(())
      }
      _ => Ok(()),
    }
  }
}

pub fn execute(s: &Scenario) -> Result<CaseReport, Failure> {
  use std::mem::ManuallyDrop;
  use std::panic::{catch_unwind, AssertUnwindSafe};
  let reg = Registry::new();
  let mut tx: ManuallyDrop<Vec<Box<dyn Tx>>> = ManuallyDrop::new(Vec::new());
  let mut rx: ManuallyDrop<Vec<Box<dyn Rx>>> = ManuallyDrop::new(Vec::new());
  let pfail = |stage: &str, p: Box<dyn std::any::Any + Send>| {
    let msg = crate::panic_msg(&p);
    Failure::new(if stage == "teardown" { crate::panic_prop("C09", &["C04", "C07", "C09"]) } else { crate::panic_prop("C07", &["C04", "C07", "C09"]) }, format!("E1/spmc_broadcast/panic_{}/{}", stage, crate::panic_site(&msg)), format!("panic inside the channel during {stage}: {msg}"))
  };
  let r = catch_unwind(AssertUnwindSafe(|| {
    let (t, r) = make(Flavour::Broadcast, s.async_start, s.cap);
    tx.push(t);
    rx.push(r);
    let mut run = Run { s, tx: &mut tx, rx: &mut rx, reg: reg.clone(), log: vec![], txm_closed: false, rxm: vec![RxM { cursor: 0, closed: false, got: vec![], start: 0 }], next_id: 0, rep: CaseReport::new(), laps: false, cursors_differ: false };
    run.rep.class(if s.async_start { "start:async" } else { "start:sync" });
    let trace = std::env::var("VERIF_TRACE").is_ok();
    for (i, op) in s.ops.iter().enumerate() {
      if trace {
        eprintln!("step {i} {op:?} head={} cursors={:?} tx_closed={}", run.head(), run.rxm.iter().map(|r| (r.cursor, r.closed)).collect::<Vec<_>>(), run.txm_closed);
      }
      run.step(op).map_err(|mut f| {
        f.message = format!("step {i} {op:?}: {}", f.message);
        f
      })?;
      run.observe().map_err(|mut f| {
        f.message = format!("after step {i} {op:?}: {}", f.message);
        f
      })?;
      let dd = reg.double_drops();
      if !dd.is_empty() {
        return Err(Failure::new("C09", "E1/spmc_broadcast/double_drop", format!("after step {i} {op:?}: value(s) {:?} dropped more often than created/cloned", dd)));
      }
    }
    let mut rep = std::mem::take(&mut run.rep);
    rep.nontrivial = run.laps && run.cursors_differ;
    if run.laps {
      rep.class("lapped");
    }
    if run.cursors_differ {
      rep.class("cursors_differ");
    }
    Ok(rep)
  }));
  let rep = match r {
    Ok(Ok(x)) => x,
    Ok(Err(f)) => return Err(f),
    Err(p) => return Err(pfail("op", p)),
  };
  let mut txv = ManuallyDrop::into_inner(tx);
  let mut rxv = ManuallyDrop::into_inner(rx);
  let mut result: Result<(), Failure> = Ok(());
  let senders_first = s.ops.len() % 2 == 0;
  for round in 0..2 {
    if (round == 0) == senders_first {
      while let Some(h) = txv.pop() {
        if result.is_err() {
          std::mem::forget(h);
        } else if let Err(p) = catch_unwind(AssertUnwindSafe(move || drop(h))) {
          result = Err(pfail("teardown", p));
        }
      }
    } else {
      while let Some(h) = rxv.pop() {
        if result.is_err() {
          std::mem::forget(h);
        } else if let Err(p) = catch_unwind(AssertUnwindSafe(move || drop(h))) {
          result = Err(pfail("teardown", p));
        }
      }
    }
  }
  result?;
  if !reg.double_drops().is_empty() {
    return Err(Failure::new("C09", "E1/spmc_broadcast/double_drop", format!("teardown: value(s) {:?} dropped more often than created/cloned", reg.double_drops())));
  }
  let live = reg.live();
  if !live.is_empty() {
    return Err(Failure::new("C09", "E1/spmc_broadcast/leak", format!("{} value instance(s) never dropped after every handle is gone, e.g. {:?}", live.len(), &live[..live.len().min(5)])));
  }
  Ok(rep)
}
