//! chan — checks for the channel properties (C01–C10) on the plain (unhooked) build.
//!
//!   chan check <PROPERTY> <quick|thorough>
//!   chan replay <replay.json>

mod adapt;
mod bcast;
mod e1;
mod e2;
mod locks2;
mod payload;
mod topic;

use std::cell::RefCell;
use vcore::{Check, Ctx, EvidenceMeta, Failure, Replay};

thread_local! {
  static PROPERTY: RefCell<String> = RefCell::new(String::new());
}
static GLOBAL_PROPERTY: std::sync::OnceLock<String> = std::sync::OnceLock::new();
static OPEN_FINDINGS: std::sync::OnceLock<Vec<String>> = std::sync::OnceLock::new();

/// Is the known finding `id` open (listed, and its witness still failing on this tree)?
/// Interpreters use this to exclude its trigger by construction; when the witness stops
/// failing the exclusion switches itself off.
pub fn finding_open(id: &str) -> bool {
  OPEN_FINDINGS.get().map(|v| v.iter().any(|x| x == id)).unwrap_or(false)
}

pub fn current_property() -> String {
  GLOBAL_PROPERTY.get().cloned().unwrap_or_default()
}

/// A panic inside the library during a legal operation is not the behaviour any of the
/// behavioural properties allows for that operation, so it is reported under the property
/// being checked when that property covers the engine's operations, else under `default`.
pub fn panic_prop(default: &'static str, covered: &[&'static str]) -> &'static str {
  let cur = current_property();
  covered.iter().copied().find(|c| *c == cur).unwrap_or(default)
}

pub fn panic_msg(p: &Box<dyn std::any::Any + Send>) -> String {
  if let Some(s) = p.downcast_ref::<&str>() {
    s.to_string()
  } else if let Some(s) = p.downcast_ref::<String>() {
    s.clone()
  } else {
    "non-string panic".to_string()
  }
}

/// A short, stable tag for a panic message (used in signatures).
pub fn panic_site(msg: &str) -> String {
  let m: String = msg.chars().take(48).map(|c| if c.is_ascii_alphanumeric() { c } else { '_' }).collect();
  m
}

fn run_replay(r: &Replay) -> Option<Failure> {
  match r.engine.as_str() {
    "E1" => {
      let s: e1::Scenario = vcore::from_value(&r.scenario);
      e1::execute(&s).err()
    }
    "E2" => {
      let s: e2::Scenario = vcore::from_value(&r.scenario);
      e2::execute(&s).err()
    }
    "E2-locks" => {
      let s: locks2::Scenario = vcore::from_value(&r.scenario);
      locks2::execute(&s).err()
    }
    "E1-topic" => {
      let s: topic::Scenario = vcore::from_value(&r.scenario);
      topic::execute(&s).err()
    }
    "E4-topic-fresh" => {
      let s: topic::FreshScenario = vcore::from_value(&r.scenario);
      (0..5).find_map(|_| topic::execute_fresh(&s).err())
    }
    "E4-topic" => {
      // real threads: the replay is statistical (repeated)
      let s: topic::StressScenario = vcore::from_value(&r.scenario);
      (0..5).find_map(|_| topic::execute_stress(&s).err())
    }
    "E1-broadcast" => {
      let s: bcast::Scenario = vcore::from_value(&r.scenario);
      bcast::execute(&s).err()
    }
    // replays of engines served by another binary are not ours to run
    _ => None,
  }
}

fn check_e1(check: &mut Check, flavours: Vec<adapt::Flavour>) {
  let ctx = check.ctx.clone();
  let w = e1::weights_for(&std::env::var("VERIF_WEIGHTS").unwrap_or_else(|_| ctx.property.clone()));
  let cases = std::env::var("VERIF_CASES").ok().and_then(|s| s.parse().ok()).unwrap_or(ctx.tier.pick(40_000u64, 2_000_000u64));
  let max_ops = ctx.tier.pick(60usize, 120usize);
  vcore::set_current_engine("E1");
  let out = vcore::drive(&ctx, &check.findings, 1, cases, move || e1::scenario_strategy(flavours.clone(), w, max_ops), |s| e1::execute(s));
  check.absorb("E1", out);
}

fn check_e2(check: &mut Check, flavours: Vec<adapt::Flavour>) {
  check_e2_scaled(check, flavours, 1)
}

fn check_e2_scaled(check: &mut Check, flavours: Vec<adapt::Flavour>, scale: u64) {
  let ctx = check.ctx.clone();
  let cases = std::env::var("VERIF_CASES2").ok().and_then(|s| s.parse().ok()).unwrap_or(ctx.tier.pick(30_000u64, 1_500_000u64) / scale);
  let max_ops = ctx.tier.pick(50usize, 90usize);
  let lw = if ctx.property == "C04" || ctx.property == "C09" { 2 } else { 1 };
  let flavours: Vec<adapt::Flavour> = match std::env::var("VERIF_FLAVOUR") {
    Ok(f) => flavours.into_iter().filter(|x| x.name() == f).collect(),
    Err(_) => flavours,
  };
  vcore::set_current_engine("E2");
  let out = vcore::drive(&ctx, &check.findings, 2, cases, move || e2::scenario_strategy(flavours.clone(), lw, max_ops), |s| e2::execute(s));
  check.absorb("E2", out);
}

fn check_topic(check: &mut Check, scale: u64) {
  let ctx = check.ctx.clone();
  let cases = std::env::var("VERIF_CASES4").ok().and_then(|s| s.parse().ok()).unwrap_or(ctx.tier.pick(30_000u64, 1_500_000u64) / scale);
  let max_ops = ctx.tier.pick(50usize, 90usize);
  vcore::set_current_engine("E1-topic");
  let out = vcore::drive(&ctx, &check.findings, 4, cases, move || topic::scenario_strategy(max_ops), |s| topic::execute(s));
  check.absorb("E1-topic", out);
}

fn check_bcast(check: &mut Check, scale: u64) {
  let ctx = check.ctx.clone();
  let cases = std::env::var("VERIF_CASES3").ok().and_then(|s| s.parse().ok()).unwrap_or(ctx.tier.pick(30_000u64, 1_500_000u64) / scale);
  let max_ops = ctx.tier.pick(60usize, 100usize);
  vcore::set_current_engine("E1-broadcast");
  let out = vcore::drive(&ctx, &check.findings, 3, cases, move || bcast::scenario_strategy(max_ops), |s| bcast::execute(s));
  check.absorb("E1-broadcast", out);
}

fn main() {
  let args: Vec<String> = std::env::args().collect();
  vcore::install_abort_guard(std::env::var("VERIF_DEBUG").is_err());
  match args.get(1).map(|s| s.as_str()) {
    Some("replay") => {
      let r = vcore::read_replay(&args[2]);
      let _ = GLOBAL_PROPERTY.set(r.property.clone());
      match run_replay(&r) {
        Some(f) => {
          println!("replay still fails: [{}] {} :: {}", f.property, f.signature, f.message);
          std::process::exit(1)
        }
        None => {
          println!("replay passes");
          std::process::exit(0)
        }
      }
    }
    Some("run-e1") => {
      // raw scenario file (e.g. one saved by the watchdog); VERIF_TRACE=1 prints every step
      let txt = std::fs::read_to_string(&args[2]).expect("read scenario");
      let sc: e1::Scenario = serde_json::from_str(&txt).expect("decode scenario");
      let _ = GLOBAL_PROPERTY.set(args.get(3).cloned().unwrap_or_else(|| "C01".into()));
      match e1::execute(&sc) {
        Ok(_) => println!("scenario passes"),
        Err(f) => println!("scenario fails: [{}] {} :: {}", f.property, f.signature, f.message),
      }
    }
    Some("run-e2") => {
      let txt = std::fs::read_to_string(&args[2]).expect("read scenario");
      let sc: e2::Scenario = serde_json::from_str(&txt).expect("decode scenario");
      let _ = GLOBAL_PROPERTY.set(args.get(3).cloned().unwrap_or_else(|| "C06".into()));
      match e2::execute(&sc) {
        Ok(_) => println!("scenario passes"),
        Err(f) => println!("scenario fails: [{}] {} :: {}", f.property, f.signature, f.message),
      }
    }
    Some("check") => {
      let prop = args[2].clone();
      let tier = args.get(3).cloned().unwrap_or_else(|| "quick".into());
      let _ = GLOBAL_PROPERTY.set(prop.clone());
      let ctx = Ctx::from_args(&prop, &tier);
      let mut check = Check::new(ctx);
      check.run_witnesses(&|r| if r.engine.starts_with("E3") { Some(vcore::Failure::new(&r.property, vcore::FOREIGN_ENGINE, "witness of another engine")) } else { run_replay(r) });
      check.run_regressions(&|r| run_replay(r));
      let _ = OPEN_FINDINGS.set(check.findings.findings.iter().filter(|f| f.status == "open").map(|f| f.id.clone()).collect());
      let (rule, assumptions): (String, Vec<String>) = match prop.as_str() {
        "C01" | "C02" | "C03" | "C04" | "C09" => {
          if std::env::var("VERIF_ONLY").map(|v| v != "E2").unwrap_or(true) {
            check_e1(&mut check, adapt::P2P.to_vec());
          }
          if std::env::var("VERIF_ONLY").map(|v| v != "E1").unwrap_or(true) {
            let mut fl = adapt::P2P.to_vec();
            if prop == "C03" {
              // the broadcast ring is a bounded channel too (C03 anchors spmc/ring_buffer.rs)
              fl.push(adapt::Flavour::Broadcast);
            }
            check_e2(&mut check, fl);
          }
          if (prop == "C04" || prop == "C09") && std::env::var("VERIF_ONLY").is_err() {
            check_bcast(&mut check, 3);
            check_topic(&mut check, 3);
          }
          (rule_for(&prop), vec!["E1: sequential histories (no overlapping operations); E2: single-threaded async histories (overlap through pending futures only)".into()])
        }
        "C10" => {
          let ctx = check.ctx.clone();
          let cases = std::env::var("VERIF_CASES5").ok().and_then(|s| s.parse().ok()).unwrap_or(ctx.tier.pick(40_000u64, 2_000_000u64));
          let max_ops = ctx.tier.pick(40usize, 80usize);
          vcore::set_current_engine("E2-locks");
          let out = vcore::drive(&ctx, &check.findings, 5, cases, move || locks2::scenario_strategy(max_ops), |s| locks2::execute(s));
          check.absorb("E2-locks", out);
          ("E2-locks: generated single-threaded histories of async / try acquisitions, releases, cancellations (before / after wake), re-polls with new wakers and reader streams on HybridMutex and HybridRwLock; non-trivial = an acquisition was attempted while a guard was held; distinct = hash of the scenario".into(), vec!["single-threaded executor owned by the harness".into()])
        }
        "C08" => {
          check_topic(&mut check, 1);
          {
            let ctx = check.ctx.clone();
            let cases = ctx.tier.pick(48u64, 2_000u64);
            vcore::set_current_engine("E4-topic");
            let out = vcore::drive(&ctx, &check.findings, 6, cases, topic::stress_strategy, |s| topic::execute_stress(s));
            check.absorb("E4-topic", out);
            let cases = ctx.tier.pick(32u64, 1_500u64);
            vcore::set_current_engine("E4-topic-fresh");
            let out = vcore::drive(&ctx, &check.findings, 7, cases, topic::fresh_strategy, |s| topic::execute_fresh(s));
            check.absorb("E4-topic-fresh", out);
          }
          ("proptest-generated histories over 3 topics, up to 3 sender handles and 3 receivers (subscribe/unsubscribe/clone/close/drop/convert, sync and async forms) against a model of subscription sets and bounded drop-newest mailboxes; non-trivial = a subscription changed between two publishes, or a mailbox overflowed, or a sender clone went away while another stayed; distinct = hash of the scenario".into(), vec!["sequential histories (publishing never overlaps a subscription change)".into()])
        }
        "C07" => {
          check_bcast(&mut check, 1);
          check_e2_scaled(&mut check, vec![adapt::Flavour::Broadcast], 3);
          ("proptest-generated histories of one sender and up to 4 receivers (clone/close/drop/convert, single and batch forms) against a send-log + per-receiver-cursor model; non-trivial = at least one full lap of the ring and two live receivers with different cursors; distinct = hash of the scenario".into(), vec!["sequential histories (no overlapping operations)".into()])
        }
        "C06" => {
          let mut fl = adapt::P2P.to_vec();
          fl.push(adapt::Flavour::Broadcast);
          check_e2(&mut check, fl);
          check_topic(&mut check, 2);
          ("E2 generated poll/wake/cancel histories; non-trivial = two tasks pending on one side and one of them cancelled, or a waker replaced, or a sync operation completed an async waiter; distinct = hash of the scenario".into(), vec!["single-threaded executor owned by the harness; wakes are counted per task".into()])
        }
        _ => {
          eprintln!("property {prop} is not served by this binary");
          std::process::exit(2)
        }
      };
      if std::env::var("VERIF_SURVEY").is_ok() {
        let mut by_sig: std::collections::BTreeMap<String, (u64, String)> = Default::default();
        for (k, v) in &check.stats.excluded {
          if let Some(rest) = k.strip_prefix("SURVEY ") {
            let (sig, msg) = rest.split_once(" :: ").unwrap_or((rest, ""));
            let e = by_sig.entry(sig.to_string()).or_insert((0, msg.to_string()));
            e.0 += v;
          }
        }
        for (k, (n, m)) in by_sig {
          println!("{n:6}  {k}\n          e.g. {m}");
        }
        std::process::exit(0);
      }
      check.finish(EvidenceMeta {
        level: "exploration",
        rule,
        engine: "E1 sequential model-based histories + E2 deterministic async poll/wake/cancel histories (proptest)".into(),
        assumptions,
        extra: Default::default(),
      });
    }
    _ => {
      eprintln!("usage: chan check <PROPERTY> <quick|thorough> | chan replay <file>");
      std::process::exit(2)
    }
  }
}

fn rule_for(p: &str) -> String {
  match p {
    "C01" => "proptest-generated operation histories per flavour; non-trivial = at least one send failed and one succeeded, or a batch was partially sent; distinct = hash of the scenario".into(),
    "C02" => "non-trivial = history crossed a ring wrap / chunk or slab recycle (pump) or used a batch form; distinct = hash of the scenario".into(),
    "C03" => "non-trivial = some send was refused (Full/Closed) or had to wait; distinct = hash of the scenario".into(),
    "C04" => "non-trivial = history closes/drops a non-last clone and the last one of a side, or converts/clones a self-closed handle; distinct = hash of the scenario".into(),
    "C09" => "non-trivial = channel torn down with values still buffered; distinct = hash of the scenario".into(),
    _ => "distinct = hash of the scenario".into(),
  }
}
