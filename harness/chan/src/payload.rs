//! Payload with observable Drop.  Every instance (original or clone) is registered in a
//! per-case registry that outlives the channel, so leaks and double drops are visible.

use std::sync::{Arc, Mutex};

const ALIVE: u32 = 0xA11CE5ED;
const DEAD: u32 = 0xDEADDEAD;

#[derive(Default, Debug)]
pub struct Registry {
  inner: Mutex<RegInner>,
}

#[derive(Default, Debug)]
struct RegInner {
  /// per id: (instances created, instances dropped)
  counts: std::collections::BTreeMap<u32, (u32, u32)>,
  double_drops: Vec<u32>,
  /// ids whose memory changed (overwritten or dropped) while a clone of them was being taken
  torn: Vec<u32>,
}

impl Registry {
  pub fn new() -> Arc<Registry> {
    Arc::new(Registry::default())
  }
  fn created(&self, id: u32) {
    let mut g = self.inner.lock().unwrap();
    g.counts.entry(id).or_insert((0, 0)).0 += 1;
  }
  fn dropped(&self, id: u32, was_dead: bool) {
    let mut g = self.inner.lock().unwrap();
    let c = g.counts.entry(id).or_insert((0, 0));
    c.1 += 1;
    let over = c.1 > c.0;
    if was_dead || over {
      g.double_drops.push(id);
    }
  }
  /// ids dropped more often than created (or whose memory was dropped twice)
  pub fn double_drops(&self) -> Vec<u32> {
    self.inner.lock().unwrap().double_drops.clone()
  }
  fn torn_clone(&self, id: u32) {
    self.inner.lock().unwrap().torn.push(id);
  }
  /// ids that were overwritten or destroyed while a reader was cloning them
  pub fn torn(&self) -> Vec<u32> {
    self.inner.lock().unwrap().torn.clone()
  }
  /// ids with live (undropped) instances
  pub fn live(&self) -> Vec<u32> {
    let g = self.inner.lock().unwrap();
    g.counts.iter().filter(|(_, c)| c.0 > c.1).map(|(i, _)| *i).collect()
  }
  pub fn live_count(&self, id: u32) -> i64 {
    let g = self.inner.lock().unwrap();
    g.counts.get(&id).map(|c| c.0 as i64 - c.1 as i64).unwrap_or(0)
  }
  pub fn created_total(&self) -> u64 {
    self.inner.lock().unwrap().counts.values().map(|c| c.0 as u64).sum()
  }
}

pub struct Tracked {
  pub id: u32,
  magic: u32,
  reg: Arc<Registry>,
}

pub type Pay = Tracked;

impl Tracked {
  pub fn new(id: u32, reg: &Arc<Registry>) -> Tracked {
    reg.created(id);
    Tracked { id, magic: ALIVE, reg: reg.clone() }
  }
}

#[cfg(excsn_fibre_verif_shuttle)]
thread_local! {
  /// set by the E3 executors while a controlled-scheduler execution is running on this thread
  pub static CLONE_IS_SCHED_POINT: std::cell::Cell<bool> = const { std::cell::Cell::new(false) };
}

impl Clone for Tracked {
  fn clone(&self) -> Tracked {
    let id = self.id;
    let reg = self.reg.clone();
    // Under the controlled scheduler copying a payload takes time: the other threads may run
    // between the first and the last read of the source.  A channel that lets the source be
    // overwritten or destroyed meanwhile ("an unread value is never overwritten") is caught here.
    #[cfg(excsn_fibre_verif_shuttle)]
    if CLONE_IS_SCHED_POINT.with(|c| c.get()) {
      shuttle::thread::yield_now();
      // (volatile: the compiler may otherwise assume that memory behind `&self` cannot change)
      let (id2, magic2) = unsafe { (std::ptr::read_volatile(&self.id), std::ptr::read_volatile(&self.magic)) };
      if id2 != id || magic2 != ALIVE {
        reg.torn_clone(id);
      }
    }
    reg.created(id);
    Tracked { id, magic: ALIVE, reg }
  }
}

impl Drop for Tracked {
  fn drop(&mut self) {
    let was_dead = self.magic != ALIVE;
    self.magic = DEAD;
    self.reg.dropped(self.id, was_dead);
  }
}

impl std::fmt::Debug for Tracked {
  fn fmt(&self, f: &mut std::fmt::Formatter<'_>) -> std::fmt::Result {
    write!(f, "#{}", self.id)
  }
}

impl PartialEq for Tracked {
  fn eq(&self, o: &Tracked) -> bool {
    self.id == o.id
  }
}
impl Eq for Tracked {}

pub fn ids(v: &[Tracked]) -> Vec<u32> {
  v.iter().map(|t| t.id).collect()
}
