//! C08 — topic pub/sub against a model of subscription sets and bounded drop-newest mailboxes.
//! Sequential histories; async receivers are polled once (pending futures are dropped).

use crate::e1::poll_once;
use crate::payload::*;
use fibre::error::*;
use fibre::spmc::topic::{self, AsyncTopicReceiver, AsyncTopicSender, TopicReceiver, TopicSender};
use futures_core::Stream;
use proptest::prelude::*;
use serde::{Deserialize, Serialize};
use std::collections::{BTreeSet, VecDeque};
use std::pin::Pin;
use std::sync::Arc;
use std::time::Duration;
use vcore::{idx, CaseReport, Failure};

#[derive(Clone, Debug, Serialize, Deserialize, PartialEq)]
pub enum Op {
  Send(u16, u8),
  CloneTx(u16),
  CloseTx(u16),
  DropTx(u16),
  ConvTx(u16),
  Subscribe(u16, u8),
  Unsubscribe(u16, u8),
  TryRecv(u16),
  Recv(u16),
  RecvTimeout(u16, bool),
  Next(u16),
  CloneRx(u16),
  CloseRx(u16),
  DropRx(u16),
  ConvRx(u16),
  /// async receivers: start `recv()` as a task with its own waker (a task already pending on
  /// that receiver is dropped first — a cancellation)
  SpawnRecv(u16),
  /// poll the receiver's task again (`true`: with a brand-new waker)
  PollTask(u16, bool),
  DropTask(u16),
}

#[derive(Clone, Debug, Serialize, Deserialize)]
pub struct Scenario {
  pub async_start: bool,
  pub cap: usize,
  pub ops: Vec<Op>,
}

pub fn scenario_strategy(max_ops: usize) -> BoxedStrategy<Scenario> {
  let h = any::<u16>();
  let t = 0u8..3;
  let op = prop_oneof![
    10 => (h, t.clone()).prop_map(|(a, b)| Op::Send(a, b)),
    2 => h.prop_map(Op::CloneTx),
    1 => h.prop_map(Op::CloseTx),
    2 => h.prop_map(Op::DropTx),
    1 => h.prop_map(Op::ConvTx),
    5 => (h, t.clone()).prop_map(|(a, b)| Op::Subscribe(a, b)),
    3 => (h, t.clone()).prop_map(|(a, b)| Op::Unsubscribe(a, b)),
    8 => h.prop_map(Op::TryRecv),
    4 => h.prop_map(Op::Recv),
    2 => (h, any::<bool>()).prop_map(|(a, b)| Op::RecvTimeout(a, b)),
    2 => h.prop_map(Op::Next),
    3 => h.prop_map(Op::CloneRx),
    1 => h.prop_map(Op::CloseRx),
    2 => h.prop_map(Op::DropRx),
    1 => h.prop_map(Op::ConvRx),
    4 => h.prop_map(Op::SpawnRecv),
    2 => (h, any::<bool>()).prop_map(|(a, b)| Op::PollTask(a, b)),
    2 => h.prop_map(Op::DropTask),
  ];
  let caps = prop_oneof![3 => Just(1usize), 3 => Just(2usize), 2 => Just(3usize), 1 => Just(8usize)];
  (any::<bool>(), caps, proptest::collection::vec(op, 1..max_ops)).prop_map(|(async_start, cap, ops)| Scenario { async_start, cap, ops }).boxed()
}

enum TxH {
  S(TopicSender<u8, Pay>),
  A(AsyncTopicSender<u8, Pay>),
}
enum RxH {
  S(TopicReceiver<u8, Pay>),
  A(AsyncTopicReceiver<u8, Pay>),
}

/// a pending `recv()` future of an async receiver, with its own waker
struct RTask {
  fut: Pin<Box<dyn std::future::Future<Output = Result<(u8, Pay), RecvError>>>>,
  flag: Arc<TFlag>,
}
struct TFlag(std::sync::atomic::AtomicBool);
impl std::task::Wake for TFlag {
  fn wake(self: Arc<Self>) {
    self.0.store(true, std::sync::atomic::Ordering::SeqCst);
  }
}

struct RxM {
  subs: BTreeSet<u8>,
  mailbox: VecDeque<(u8, u32)>,
  closed: bool,
}

struct Run<'a> {
  s: &'a Scenario,
  tx: &'a mut Vec<TxH>,
  rx: &'a mut Vec<Box<RxH>>,
  tasks: &'a mut Vec<Option<RTask>>,
  txm: Vec<bool>, // closed flags
  rxm: Vec<RxM>,
  reg: Arc<Registry>,
  next_id: u32,
  rep: CaseReport,
  nt_sub_changed_between_sends: bool,
  nt_overflow: bool,
  nt_sender_clone_dropped: bool,
  sends: u32,
  sub_changes_after_send: bool,
}

type R = Result<(), Failure>;
macro_rules! fail {
  ($prop:expr, $sig:expr, $($arg:tt)*) => {
    return Err(Failure::new($prop, $sig, format!($($arg)*)))
  };
}
fn sig(a: bool, form: &str, clause: &str) -> String {
  format!("E1/topic/{}/{}/{}", if a { "async" } else { "sync" }, form, clause)
}

impl<'a> Run<'a> {
  fn tx_alive(&self) -> bool {
    self.txm.iter().any(|c| !*c)
  }
  fn rx_alive(&self) -> bool {
    self.rxm.iter().any(|r| !r.closed)
  }

  fn do_send(&mut self, h: usize, t: u8) -> R {
    let id = self.next_id;
    self.next_id += 1;
    let v = Tracked::new(id, &self.reg);
    let (a, r) = match &self.tx[h] {
      TxH::S(s) => (false, s.send(t, v)),
      TxH::A(s) => (true, s.send(t, v)),
    };
    let closed = self.txm[h] || !self.rx_alive();
    match r {
      Ok(()) => {
        if closed {
          fail!("C04", sig(a, "send", if self.txm[h] { "accepted_on_self_closed_handle" } else { "accepted_after_receivers_gone" }), "send returned Ok on a closed sender handle / with no live receiver");
        }
        // C08: "obtains exactly the messages published to topics it is subscribed to at
        // publish time ... the only permitted omission is the newest message for a receiver
        // whose mailbox is full"
        for r in self.rxm.iter_mut() {
          if !r.closed && r.subs.contains(&t) {
            if r.mailbox.len() < self.s.cap {
              r.mailbox.push_back((t, id));
            } else {
              self.nt_overflow = true;
            }
          }
        }
        if self.sub_changes_after_send {
          self.nt_sub_changed_between_sends = true;
        }
        self.sends += 1;
        self.sub_changes_after_send = false;
        Ok(())
      }
      Err(e) => {
        if e != SendError::Closed {
          fail!("C01", sig(a, "send", "undocumented_result"), "{e:?}");
        }
        if !closed {
          fail!("C04", sig(a, "send", "closed_but_open"), "send failed Closed with {} live receiver(s) on an open sender handle", self.rxm.iter().filter(|r| !r.closed).count());
        }
        Ok(())
      }
    }
  }

  fn got(&mut self, a: bool, form: &str, r: usize, t: u8, id: u32) -> R {
    if self.rxm[r].closed {
      fail!("C04", sig(a, form, "value_on_self_closed_handle"), "a self-closed receiver obtained ({t}, #{id})");
    }
    match self.rxm[r].mailbox.front().copied() {
      Some((mt, mid)) if mt == t && mid == id => {
        self.rxm[r].mailbox.pop_front();
        Ok(())
      }
      Some((mt, mid)) => {
        let in_box = self.rxm[r].mailbox.iter().any(|x| x.1 == id);
        if in_box {
          fail!("C08", sig(a, form, "order"), "obtained ({t}, #{id}) but the oldest message of its mailbox is ({mt}, #{mid})");
        }
        fail!("C08", sig(a, form, "foreign_or_stale_message"), "obtained ({t}, #{id}) which is not among the messages published to its subscriptions (mailbox front ({mt}, #{mid}))");
      }
      None => fail!("C08", sig(a, form, "phantom"), "obtained ({t}, #{id}) although nothing is owed to this receiver (subscriptions {:?})", self.rxm[r].subs),
    }
  }

  fn not_got(&mut self, a: bool, form: &str, r: usize, disc: bool) -> R {
    if self.rxm[r].closed {
      if !disc {
        fail!("C04", sig(a, form, "self_closed_not_rejected"), "a self-closed receiver did not reject the operation");
      }
      return Ok(());
    }
    if let Some((t, id)) = self.rxm[r].mailbox.front() {
      if disc {
        fail!("C08", sig(a, form, "disconnected_before_drained"), "Disconnected with {} message(s) in the mailbox", self.rxm[r].mailbox.len());
      }
      fail!("C08", sig(a, form, "missing_message"), "reported empty although ({t}, #{id}) was published to a subscribed topic and the mailbox had room");
    }
    // C08: "A receiver observes Disconnected only after every sender handle is gone and it
    // has drained its mailbox, and it does observe it then, whatever its subscriptions."
    // The same sentences are C04's disconnect protocol ("including spmc broadcast and topic"),
    // so under the C04 check they are reported as C04.
    let dprop = if crate::current_property() == "C04" { "C04" } else { "C08" };
    let tx_alive = self.tx_alive();
    if disc && tx_alive {
      fail!(dprop, sig(a, form, "disconnected_with_live_sender"), "Disconnected while {} sender handle(s) are alive", self.txm.iter().filter(|c| !**c).count());
    }
    if !disc && !tx_alive {
      let c = if self.rxm[r].subs.is_empty() { "no_disconnect_without_subscription" } else { "no_disconnect_after_senders_gone" };
      fail!(dprop, sig(a, form, c), "reported empty although every sender handle is gone and the mailbox is drained (subscriptions {:?})", self.rxm[r].subs);
    }
    Ok(())
  }

  fn can_recv(&self, r: usize) -> bool {
    !self.rxm[r].mailbox.is_empty() || !self.tx_alive()
  }

  fn do_recv(&mut self, r: usize, kind: u8, zero: bool) -> R {
    // kind: 0 try, 1 blocking / future, 2 timeout, 3 stream
    enum O {
      Got(u8, u32),
      Empty,
      Disc,
      Pending,
    }
    let can = self.can_recv(r);
    let has_msg = !self.rxm[r].mailbox.is_empty();
    let self_closed = self.rxm[r].closed;
    let (a, form, o): (bool, &str, O) = match (&mut *self.rx[r], kind) {
      // blocking recv only where a message is owed (if the disconnect were lost — which the
      // timed and try forms detect — a blocking recv would park this history forever)
      (RxH::S(h), 1) if has_msg && !self_closed => (false, "recv", match h.recv() {
        Ok((t, v)) => O::Got(t, v.id),
        Err(_) => O::Disc,
      }),
      (RxH::S(h), 2) => {
        let d = if zero { Duration::ZERO } else { Duration::from_millis(1) };
        (false, "recv_timeout", match h.recv_timeout(d) {
          Ok((t, v)) => O::Got(t, v.id),
          Err(RecvErrorTimeout::Disconnected) => O::Disc,
          Err(RecvErrorTimeout::Timeout) => O::Empty,
        })
      }
      (RxH::S(h), _) => (false, "try_recv", match h.try_recv() {
        Ok((t, v)) => O::Got(t, v.id),
        Err(TryRecvError::Empty) => O::Empty,
        Err(TryRecvError::Disconnected) => O::Disc,
      }),
      (RxH::A(h), 1) => (true, "recv_fut", match poll_once(Box::pin(h.recv())) {
        Some(Ok((t, v))) => O::Got(t, v.id),
        Some(Err(_)) => O::Disc,
        None => O::Pending,
      }),
      (RxH::A(h), 3) => {
        let f = std::future::poll_fn(|cx| Pin::new(&mut *h).poll_next(cx));
        (true, "stream_next", match poll_once(Box::pin(f)) {
          Some(Some((t, v))) => O::Got(t, v.id),
          Some(None) => O::Disc,
          None => O::Pending,
        })
      }
      (RxH::A(h), _) => (true, "try_recv", match h.try_recv() {
        Ok((t, v)) => O::Got(t, v.id),
        Err(TryRecvError::Empty) => O::Empty,
        Err(TryRecvError::Disconnected) => O::Disc,
      }),
    };
    match o {
      O::Got(t, id) => self.got(a, form, r, t, id),
      O::Empty => self.not_got(a, form, r, false),
      O::Disc => self.not_got(a, form, r, true),
      O::Pending => {
        if self_closed {
          fail!("C04", sig(a, form, "self_closed_not_rejected"), "future of a self-closed receiver is Pending");
        }
        if can {
          fail!("C06", sig(a, form, "pending_but_ready"), "future Pending with {} in the mailbox / senders alive: {}", self.rxm[r].mailbox.len(), self.tx_alive());
        }
        Ok(())
      }
    }
  }

  fn drop_task(&mut self, r: usize) {
    if let Some(t) = self.tasks[r].take() {
      drop(t);
      self.rep.class("task_cancelled");
    }
  }

  fn poll_task(&mut self, r: usize, new_waker: bool) -> R {
    let Some(t) = self.tasks[r].as_mut() else { return Ok(()) };
    if new_waker {
      t.flag = Arc::new(TFlag(std::sync::atomic::AtomicBool::new(false)));
      self.rep.class("task_waker_replaced");
    }
    t.flag.0.store(false, std::sync::atomic::Ordering::SeqCst);
    let waker = std::task::Waker::from(t.flag.clone());
    let mut cx = std::task::Context::from_waker(&waker);
    match t.fut.as_mut().poll(&mut cx) {
      std::task::Poll::Pending => Ok(()),
      std::task::Poll::Ready(res) => {
        self.tasks[r] = None;
        match res {
          Ok((t, v)) => self.got(true, "recv_task", r, t, v.id),
          Err(_) => self.not_got(true, "recv_task", r, true),
        }
      }
    }
  }

  /// C06 for the topic mailbox: deliver every wake; a task that is still pending, was not
  /// woken, and whose receive could complete per the model (a message is owed, or every
  /// sender is gone) is a waiter whose waker was not invoked.
  fn settle_tasks(&mut self) -> R {
    for r in 0..self.tasks.len() {
      let woken = self.tasks[r].as_ref().map(|t| t.flag.0.load(std::sync::atomic::Ordering::SeqCst)).unwrap_or(false);
      if woken {
        self.poll_task(r, false)?;
      }
    }
    for r in 0..self.tasks.len() {
      if self.tasks[r].is_some() && !self.rxm[r].closed && self.can_recv(r) {
        fail!("C06", sig(true, "recv_task", "not_woken"), "a recv task of receiver {r} is pending and its waker was not invoked although {} message(s) are in its mailbox / senders alive: {}", self.rxm[r].mailbox.len(), self.tx_alive());
      }
    }
    Ok(())
  }

  fn step(&mut self, op: &Op) -> R {
    let ntx = self.tx.len();
    let nrx = self.rx.len();
    match op {
      Op::Send(i, t) if ntx > 0 => self.do_send(idx(*i, ntx), *t),
      Op::CloneTx(i) if ntx > 0 && ntx < 3 => {
        let h = idx(*i, ntx);
        if self.txm[h] {
          return Ok(());
        }
        // AsyncTopicSender is not Clone; only sync sender handles are cloned
        let c = match &self.tx[h] {
          TxH::S(s) => TxH::S(s.clone()),
          TxH::A(_) => return Ok(()),
        };
        self.tx.push(c);
        self.txm.push(false);
        self.rep.class("clone_tx");
        Ok(())
      }
      Op::CloseTx(i) if ntx > 0 => {
        let h = idx(*i, ntx);
        let (a, r) = match &self.tx[h] {
          TxH::S(s) => (false, s.close()),
          TxH::A(s) => (true, s.close()),
        };
        match (self.txm[h], r.is_ok()) {
          (false, true) => {
            self.txm[h] = true;
            if self.tx_alive() {
              self.nt_sender_clone_dropped = true;
            }
            Ok(())
          }
          (true, false) => Ok(()),
          (false, false) => fail!("C04", sig(a, "close_tx", "first_close_failed"), "first close() returned CloseError"),
          (true, true) => fail!("C04", sig(a, "close_tx", "second_close_ok"), "second close() returned Ok"),
        }
      }
      Op::DropTx(i) if ntx > 0 => {
        let h = idx(*i, ntx);
        let was_open = !self.txm[h];
        drop(self.tx.remove(h));
        self.txm.remove(h);
        if was_open && self.tx_alive() {
          self.nt_sender_clone_dropped = true;
        }
        Ok(())
      }
      Op::ConvTx(i) if ntx > 0 => {
        let h = idx(*i, ntx);
        let n = match self.tx.remove(h) {
          TxH::S(s) => TxH::A(s.to_async()),
          TxH::A(s) => TxH::S(s.to_sync()),
        };
        self.tx.insert(h, n);
        Ok(())
      }
      Op::Subscribe(i, t) if nrx > 0 => {
        let r = idx(*i, nrx);
        if self.rxm[r].closed {
          return Ok(());
        }
        match &*self.rx[r] {
          RxH::S(h) => h.subscribe(*t),
          RxH::A(h) => h.subscribe(*t),
        }
        // subscribing after every sender is gone has nothing to attach to
        self.rxm[r].subs.insert(*t);
        self.sub_changes_after_send = self.sends > 0;
        Ok(())
      }
      Op::Unsubscribe(i, t) if nrx > 0 => {
        let r = idx(*i, nrx);
        if self.rxm[r].closed {
          return Ok(());
        }
        match &*self.rx[r] {
          RxH::S(h) => h.unsubscribe(t),
          RxH::A(h) => h.unsubscribe(t),
        }
        self.rxm[r].subs.remove(t);
        self.sub_changes_after_send = self.sends > 0;
        Ok(())
      }
      Op::TryRecv(i) | Op::Recv(i) | Op::RecvTimeout(i, _) | Op::Next(i) if nrx > 0 => {
        let r = idx(*i, nrx);
        // one receive operation at a time per receiver (its mailbox has a single consumer)
        self.drop_task(r);
        match op {
          Op::TryRecv(_) => self.do_recv(r, 0, false),
          Op::Recv(_) => self.do_recv(r, 1, false),
          Op::RecvTimeout(_, z) => self.do_recv(r, 2, *z),
          _ => self.do_recv(r, 3, false),
        }
      }
      Op::CloneRx(i) if nrx > 0 && nrx < 3 => {
        let r = idx(*i, nrx);
        if self.rxm[r].closed {
          // what a clone of a closed receiver is, is not specified
          return Ok(());
        }
        let c = match &*self.rx[r] {
          RxH::S(h) => RxH::S(h.clone()),
          RxH::A(h) => RxH::A(h.clone()),
        };
        self.rx.push(Box::new(c));
        self.tasks.push(None);
        // "a clone" of a topic receiver is a new receiver with its own empty mailbox and the
        // same subscriptions
        let subs = self.rxm[r].subs.clone();
        self.rxm.push(RxM { subs, mailbox: VecDeque::new(), closed: false });
        self.rep.class("clone_rx");
        Ok(())
      }
      Op::CloseRx(i) if nrx > 0 => {
        let r = idx(*i, nrx);
        self.drop_task(r);
        let (a, res) = match &*self.rx[r] {
          RxH::S(h) => (false, h.close()),
          RxH::A(h) => (true, h.close()),
        };
        match (self.rxm[r].closed, res.is_ok()) {
          (false, true) => {
            self.rxm[r].closed = true;
            Ok(())
          }
          (true, false) => Ok(()),
          (false, false) => fail!("C04", sig(a, "close_rx", "first_close_failed"), "first close() returned CloseError"),
          (true, true) => fail!("C04", sig(a, "close_rx", "second_close_ok"), "second close() returned Ok"),
        }
      }
      Op::DropRx(i) if nrx > 0 => {
        let r = idx(*i, nrx);
        self.drop_task(r);
        self.tasks.remove(r);
        drop(self.rx.remove(r));
        self.rxm.remove(r);
        Ok(())
      }
      Op::ConvRx(i) if nrx > 0 => {
        let r = idx(*i, nrx);
        self.drop_task(r);
        let n = match *self.rx.remove(r) {
          RxH::S(h) => RxH::A(h.to_async()),
          RxH::A(h) => RxH::S(h.to_sync()),
        };
        self.rx.insert(r, Box::new(n));
        Ok(())
      }
      Op::SpawnRecv(i) if nrx > 0 => {
        let r = idx(*i, nrx);
        if self.rxm[r].closed {
          return Ok(());
        }
        self.drop_task(r);
        let RxH::A(h) = &*self.rx[r] else { return Ok(()) };
        // SAFETY (harness only): the receiver is boxed (stable address) and its task is always
        // dropped before the receiver is dropped, converted or closed
        let h: &'static AsyncTopicReceiver<u8, Pay> = unsafe { std::mem::transmute(h) };
        let fut = Box::pin(h.recv());
        self.tasks[r] = Some(RTask { fut, flag: Arc::new(TFlag(std::sync::atomic::AtomicBool::new(false))) });
        self.rep.class("task_spawned");
        self.poll_task(r, false)
      }
      Op::PollTask(i, nw) if nrx > 0 => self.poll_task(idx(*i, nrx), *nw),
      Op::DropTask(i) if nrx > 0 => {
        self.drop_task(idx(*i, nrx));
        Ok(())
      }
      _ => Ok(()),
    }
  }
}

pub fn execute(s: &Scenario) -> Result<CaseReport, Failure> {
  use std::mem::ManuallyDrop;
  use std::panic::{catch_unwind, AssertUnwindSafe};
  let reg = Registry::new();
  let mut tx: ManuallyDrop<Vec<TxH>> = ManuallyDrop::new(Vec::new());
  let mut rx: ManuallyDrop<Vec<Box<RxH>>> = ManuallyDrop::new(Vec::new());
  let mut tasks: ManuallyDrop<Vec<Option<RTask>>> = ManuallyDrop::new(vec![None]);
  let r = catch_unwind(AssertUnwindSafe(|| {
    if s.async_start {
      let (t, r) = topic::channel_async::<u8, Pay>(s.cap);
      tx.push(TxH::A(t));
      rx.push(Box::new(RxH::A(r)));
    } else {
      let (t, r) = topic::channel::<u8, Pay>(s.cap);
      tx.push(TxH::S(t));
      rx.push(Box::new(RxH::S(r)));
    }
    let mut run = Run {
      s,
      tx: &mut tx,
      rx: &mut rx,
      tasks: &mut tasks,
      txm: vec![false],
      rxm: vec![RxM { subs: BTreeSet::new(), mailbox: VecDeque::new(), closed: false }],
      reg: reg.clone(),
      next_id: 0,
      rep: CaseReport::new(),
      nt_sub_changed_between_sends: false,
      nt_overflow: false,
      nt_sender_clone_dropped: false,
      sends: 0,
      sub_changes_after_send: false,
    };
    let trace = std::env::var("VERIF_TRACE").is_ok();
    for (i, op) in s.ops.iter().enumerate() {
      if trace {
        eprintln!("step {i} {op:?} tx={:?} rx={:?}", run.txm, run.rxm.iter().map(|r| (r.subs.clone(), r.mailbox.len(), r.closed)).collect::<Vec<_>>());
      }
      run.step(op).map_err(|mut f| {
        f.message = format!("step {i} {op:?}: {}", f.message);
        f
      })?;
      run.settle_tasks().map_err(|mut f| {
        f.message = format!("after step {i} {op:?}: {}", f.message);
        f
      })?;
      let dd = reg.double_drops();
      if !dd.is_empty() {
        return Err(Failure::new("C09", "E1/topic/double_drop", format!("after step {i} {op:?}: {:?} dropped more often than created/cloned", dd)));
      }
    }
    let mut rep = std::mem::take(&mut run.rep);
    rep.nontrivial = run.nt_sub_changed_between_sends || run.nt_overflow || run.nt_sender_clone_dropped;
    if run.nt_overflow {
      rep.class("mailbox_overflow");
    }
    if run.nt_sub_changed_between_sends {
      rep.class("subscription_changed_between_publishes");
    }
    if run.nt_sender_clone_dropped {
      rep.class("sender_clone_gone_while_another_alive");
    }
    Ok(rep)
  }));
  let rep = match r {
    Ok(Ok(x)) => x,
    Ok(Err(f)) => return Err(f),
    Err(p) => {
      let msg = crate::panic_msg(&p);
      return Err(Failure::new(crate::panic_prop("C08", &["C04", "C06", "C08", "C09"]), format!("E1/topic/panic_op/{}", crate::panic_site(&msg)), format!("panic inside the topic channel: {msg}")));
    }
  };
  drop(ManuallyDrop::into_inner(tasks));
  let txv = ManuallyDrop::into_inner(tx);
  let rxv = ManuallyDrop::into_inner(rx);
  let senders_first = s.ops.len() % 2 == 0;
  let td = catch_unwind(AssertUnwindSafe(move || {
    if senders_first {
      drop(txv);
      drop(rxv);
    } else {
      drop(rxv);
      drop(txv);
    }
  }));
  if let Err(p) = td {
    let msg = crate::panic_msg(&p);
    return Err(Failure::new(crate::panic_prop("C09", &["C04", "C08", "C09"]), format!("E1/topic/panic_teardown/{}", crate::panic_site(&msg)), format!("panic while dropping the handles: {msg}")));
  }
  if !reg.double_drops().is_empty() {
    return Err(Failure::new("C09", "E1/topic/double_drop", format!("teardown: {:?} dropped more often than created/cloned", reg.double_drops())));
  }
  let live = reg.live();
  if !live.is_empty() {
    return Err(Failure::new("C09", "E1/topic/leak", format!("{} value instance(s) never dropped after every handle is gone, e.g. {:?}", live.len(), &live[..live.len().min(5)])));
  }
  Ok(rep)
}

// ---------------------------------------------------------------------------------------------
// E4 for the topic channel: publishing and one receiver's subscribe/unsubscribe in program
// order on one thread, racing *other* receivers' subscription churn on real threads.
//
// C08: "A topic receiver obtains exactly the messages published to topics it is subscribed to
// at publish time".  Receiver R subscribes, the same thread then publishes, so R is certainly
// subscribed at publish time whatever the other threads do: with room in its mailbox the
// message must be there.  (Real scheduler: the interleaving is sampled, the verdict is sound.)
// ---------------------------------------------------------------------------------------------

#[derive(Clone, Debug, Serialize, Deserialize)]
pub struct StressScenario {
  pub churners: u8,
  pub rounds: u32,
  pub topic: u8,
  /// churners also clone/drop receivers instead of only (un)subscribing
  pub churn_by_drop: bool,
}

pub fn stress_strategy() -> BoxedStrategy<StressScenario> {
  (1u8..=3, 2_000u32..12_000, 0u8..3, any::<bool>()).prop_map(|(churners, rounds, topic, churn_by_drop)| StressScenario { churners, rounds, topic, churn_by_drop }).boxed()
}

pub fn execute_stress(s: &StressScenario) -> Result<CaseReport, Failure> {
  use std::sync::atomic::{AtomicBool, Ordering};
  let reg = Registry::new();
  let (tx, rx) = topic::channel::<u8, Pay>(4);
  let stop = Arc::new(AtomicBool::new(false));
  let mut churn = Vec::new();
  for _ in 0..s.churners {
    let r2 = rx.clone();
    let stop = stop.clone();
    let t = s.topic;
    let by_drop = s.churn_by_drop;
    churn.push(std::thread::spawn(move || {
      let mut n = 0u64;
      while !stop.load(Ordering::Relaxed) {
        if by_drop {
          let r3 = r2.clone();
          r3.subscribe(t);
          drop(r3);
        } else {
          r2.subscribe(t);
          r2.unsubscribe(&t);
        }
        n += 1;
        if n % 64 == 0 {
          std::thread::yield_now();
        }
      }
      while r2.try_recv().is_ok() {}
    }));
  }
  let mut failure = None;
  for i in 0..s.rounds {
    rx.subscribe(s.topic);
    let v = Tracked::new(i, &reg);
    if tx.send(s.topic, v).is_err() {
      failure = Some(Failure::new("C08", "E4/topic/send/closed_but_open", format!("round {i}: send failed although receivers are alive")));
      break;
    }
    match rx.try_recv() {
      Ok((t, v)) if t == s.topic && v.id == i => {}
      other => {
        failure = Some(Failure::new(
          "C08",
          "E4/topic/try_recv/missing_message_under_subscription_churn",
          format!("round {i}: receiver subscribed to topic {} before the publish on the same thread, mailbox had room, but try_recv returned {:?} (other receivers were (un)subscribing concurrently)", s.topic, other.map(|(t, v)| (t, v.id))),
        ));
        break;
      }
    }
    rx.unsubscribe(&s.topic);
  }
  stop.store(true, Ordering::Relaxed);
  for c in churn {
    let _ = c.join();
  }
  if let Some(f) = failure {
    std::mem::forget(tx);
    std::mem::forget(rx);
    return Err(f);
  }
  drop(tx);
  drop(rx);
  let mut rep = CaseReport::new();
  rep.nontrivial = true;
  rep.class("topic_subscription_churn_threads");
  Ok(rep)
}

// ------------------------------------------------------------------------------------------
// E4-topic, second family: several receivers race to subscribe to a topic nobody has used
// before (the dispatcher creates the topic's subscriber list on first use), then one message is
// published and every receiver must obtain it.  Rounds are sequenced by atomics, so the
// outcome of each round is determined: every subscribe() returned before the publish began.

#[derive(Clone, Debug, Serialize, Deserialize)]
pub struct FreshScenario {
  pub receivers: u8,
  pub rounds: u32,
  /// receivers use the async handle form
  pub async_rx: bool,
  /// unsubscribe again at the end of each round
  pub unsubscribe: bool,
}

pub fn fresh_strategy() -> BoxedStrategy<FreshScenario> {
  (2u8..=4, 300u32..1500, any::<bool>(), any::<bool>()).prop_map(|(receivers, rounds, async_rx, unsubscribe)| FreshScenario { receivers, rounds, async_rx, unsubscribe }).boxed()
}

pub fn execute_fresh(s: &FreshScenario) -> Result<CaseReport, Failure> {
  use std::sync::atomic::{AtomicBool, AtomicU32, AtomicU64, Ordering};
  use std::sync::Mutex;
  let (tx, rx0) = topic::channel::<u32, u64>(8);
  let gate = Arc::new(AtomicU32::new(0)); // round r may start when gate == r + 1
  let ready = Arc::new(AtomicU64::new(0));
  let published = Arc::new(AtomicU32::new(0));
  let consumed = Arc::new(AtomicU64::new(0));
  let abort = Arc::new(AtomicBool::new(false));
  let failure: Arc<Mutex<Option<Failure>>> = Arc::new(Mutex::new(None));
  let n = s.receivers as u64;
  let spin = |cond: &dyn Fn() -> bool, abort: &AtomicBool| {
    let mut k = 0u32;
    while !cond() {
      if abort.load(Ordering::Relaxed) {
        return false;
      }
      k += 1;
      if k % 256 == 0 {
        std::thread::yield_now();
      } else {
        std::hint::spin_loop();
      }
    }
    true
  };
  let mut joins = Vec::new();
  for i in 0..s.receivers {
    let rx = rx0.clone();
    let (gate, ready, published, consumed, abort, failure) = (gate.clone(), ready.clone(), published.clone(), consumed.clone(), abort.clone(), failure.clone());
    let sc = s.clone();
    joins.push(std::thread::spawn(move || {
      enum R {
        S(topic::TopicReceiver<u32, u64>),
        A(topic::AsyncTopicReceiver<u32, u64>),
      }
      let rx = if sc.async_rx { R::A(rx.to_async()) } else { R::S(rx) };
      for r in 0..sc.rounds {
        if !spin(&|| gate.load(Ordering::Acquire) > r, &abort) {
          break;
        }
        match &rx {
          R::S(x) => x.subscribe(r),
          R::A(x) => x.subscribe(r),
        }
        ready.fetch_add(1, Ordering::AcqRel);
        if !spin(&|| published.load(Ordering::Acquire) > r, &abort) {
          break;
        }
        let got = match &rx {
          R::S(x) => x.try_recv(),
          R::A(x) => x.try_recv(),
        };
        // C08: "A topic receiver obtains exactly the messages published to topics it is
        // subscribed to at publish time ... the only permitted omission is the newest message
        // for a receiver whose mailbox is full" (capacity 8, at most one message buffered)
        match got {
          Ok((t, v)) if t == r && v == r as u64 => {}
          other => {
            let mut g = failure.lock().unwrap();
            if g.is_none() {
              *g = Some(Failure::new(
                "C08",
                "E4/topic/try_recv/missing_message_after_racing_first_subscribe",
                format!("round {r}: receiver {i} had subscribed to the fresh topic {r} before the publish began ({} receivers subscribing to it concurrently), its mailbox was empty, but try_recv returned {:?}", sc.receivers, other),
              ));
            }
            abort.store(true, Ordering::Relaxed);
            break;
          }
        }
        if sc.unsubscribe {
          match &rx {
            R::S(x) => x.unsubscribe(&r),
            R::A(x) => x.unsubscribe(&r),
          }
        }
        consumed.fetch_add(1, Ordering::AcqRel);
      }
      if abort.load(Ordering::Relaxed) {
        match rx {
          R::S(x) => std::mem::forget(x),
          R::A(x) => std::mem::forget(x),
        }
      }
    }));
  }
  for r in 0..s.rounds {
    gate.store(r + 1, Ordering::Release);
    if !spin(&|| ready.load(Ordering::Acquire) >= n * (r as u64 + 1), &abort) {
      break;
    }
    if tx.send(r, r as u64).is_err() {
      let mut g = failure.lock().unwrap();
      if g.is_none() {
        *g = Some(Failure::new("C08", "E4/topic/send/closed_but_open", format!("round {r}: send failed although receivers are alive")));
      }
      abort.store(true, Ordering::Relaxed);
      break;
    }
    published.store(r + 1, Ordering::Release);
    if !spin(&|| consumed.load(Ordering::Acquire) >= n * (r as u64 + 1), &abort) {
      break;
    }
  }
  for j in joins {
    let _ = j.join();
  }
  if let Some(f) = failure.lock().unwrap().take() {
    std::mem::forget(tx);
    std::mem::forget(rx0);
    return Err(f);
  }
  drop(tx);
  drop(rx0);
  let mut rep = CaseReport::new();
  rep.nontrivial = true;
  rep.executions = s.rounds as u64;
  rep.class("topic_fresh_topic_subscribe_race_threads");
  Ok(rep)
}
