//! E2 — deterministic async histories: a hand-written single-threaded executor owned by the
//! interpreter.  Tasks are pinned futures created from generated ops, each with its own counting
//! waker; the history decides who is polled, who is cancelled (before or after being woken),
//! when wakers are replaced, and interleaves every non-blocking operation and handle
//! clone/close/drop/convert.
//!
//! Oracles (none of them a timing guess — everything is one thread):
//!  * stall (C06a): after `Settle` no task holds an undelivered wake; a forced poll of a
//!    still-pending task that returns Ready proves the operation was able to complete and its
//!    waker had not been invoked.
//!  * conservation (C01/C06b): no duplicate, no phantom; at the end a drainer receives until
//!    Disconnected and must have obtained every value whose send reported Ok.
//!  * interval order (C02), occupancy bound (C03), disconnect shape (C04), drop accounting (C09).

use crate::adapt::*;
use crate::e1::CountWaker;
use crate::payload::*;
use fibre::error::*;
use proptest::prelude::*;
use serde::{Deserialize, Serialize};
use std::collections::{BTreeMap, BTreeSet};
use std::future::Future;
use std::pin::Pin;
use std::sync::atomic::Ordering;
use std::sync::Arc;
use std::task::{Context, Poll, Waker};
use vcore::{idx, CaseReport, Failure};

#[derive(Clone, Debug, Serialize, Deserialize, PartialEq)]
pub enum Op {
  SpawnSend(u16),
  SpawnSendBatch(u16, u16),
  SpawnSendBatchMut(u16, u16),
  SpawnRecv(u16),
  SpawnRecvBatch(u16, u16),
  SpawnRecvBatchMut(u16, u16),
  SpawnNext(u16),
  /// forced (spurious) poll of task t
  Poll(u16),
  /// poll every task that was woken since its last poll (one round)
  PollWoken,
  /// PollWoken until no task is woken
  Settle,
  /// poll task t with a brand-new waker
  PollNewWaker(u16),
  /// drop task t (any state)
  Cancel(u16),
  /// drop a task that has been woken but not polled since (if any)
  CancelWoken(u16),
  TrySend(u16),
  TryRecv(u16),
  TrySendBatch(u16, u16),
  TryRecvBatch(u16, u16),
  TrySendBatchMut(u16, u16),
  TryRecvBatchMut(u16, u16),
  CloseTx(u16),
  /// close() while futures of that very handle are pending (legal: both take &self); the tasks
  /// stay, exempt from the stall oracle; conservation still binds them
  CloseTxInFlight(u16),
  CloseRxInFlight(u16),
  DropTx(u16),
  CloneTx(u16),
  ConvTx(u16),
  CloseRx(u16),
  DropRx(u16),
  CloneRx(u16),
  ConvRx(u16),
  /// Settle, then the stall oracle
  Checkpoint,
}

#[derive(Clone, Debug, Serialize, Deserialize)]
pub struct Scenario {
  pub flavour: Flavour,
  pub async_start: bool,
  pub cap: usize,
  pub ops: Vec<Op>,
}

fn small_n() -> impl Strategy<Value = u16> {
  prop_oneof![3 => 0u16..4, 2 => 2u16..6, 1 => Just(9u16)]
}

pub fn op_strategy(f: Flavour, lifecycle_w: u32) -> BoxedStrategy<Op> {
  let h = any::<u16>();
  let b = if f.has_batch() { 3 } else { 0 };
  let opts: Vec<(u32, BoxedStrategy<Op>)> = vec![
    (8, h.prop_map(Op::SpawnSend).boxed()),
    (b, (h, small_n()).prop_map(|(a, n)| Op::SpawnSendBatch(a, n)).boxed()),
    (b, (h, small_n()).prop_map(|(a, n)| Op::SpawnSendBatchMut(a, n)).boxed()),
    (8, h.prop_map(Op::SpawnRecv).boxed()),
    (b, (h, small_n()).prop_map(|(a, n)| Op::SpawnRecvBatch(a, n)).boxed()),
    (b, (h, small_n()).prop_map(|(a, n)| Op::SpawnRecvBatchMut(a, n)).boxed()),
    (3, h.prop_map(Op::SpawnNext).boxed()),
    (3, h.prop_map(Op::Poll).boxed()),
    (6, Just(Op::PollWoken).boxed()),
    (3, Just(Op::Settle).boxed()),
    (2, h.prop_map(Op::PollNewWaker).boxed()),
    (4, h.prop_map(Op::Cancel).boxed()),
    (4, h.prop_map(Op::CancelWoken).boxed()),
    (5, h.prop_map(Op::TrySend).boxed()),
    (5, h.prop_map(Op::TryRecv).boxed()),
    (b / 2, (h, small_n()).prop_map(|(a, n)| Op::TrySendBatch(a, n)).boxed()),
    (b / 2, (h, small_n()).prop_map(|(a, n)| Op::TryRecvBatch(a, n)).boxed()),
    (b / 2, (h, small_n()).prop_map(|(a, n)| Op::TrySendBatchMut(a, n)).boxed()),
    (b / 2, (h, small_n()).prop_map(|(a, n)| Op::TryRecvBatchMut(a, n)).boxed()),
    (lifecycle_w, h.prop_map(Op::CloseTx).boxed()),
    (1, h.prop_map(Op::CloseTxInFlight).boxed()),
    (1, h.prop_map(Op::CloseRxInFlight).boxed()),
    (lifecycle_w, h.prop_map(Op::DropTx).boxed()),
    (lifecycle_w * 2, h.prop_map(Op::CloneTx).boxed()),
    (lifecycle_w, h.prop_map(Op::ConvTx).boxed()),
    (lifecycle_w, h.prop_map(Op::CloseRx).boxed()),
    (lifecycle_w, h.prop_map(Op::DropRx).boxed()),
    (lifecycle_w * 2, h.prop_map(Op::CloneRx).boxed()),
    (lifecycle_w, h.prop_map(Op::ConvRx).boxed()),
    (4, Just(Op::Checkpoint).boxed()),
  ];
  proptest::strategy::Union::new_weighted(opts.into_iter().filter(|(w, _)| *w > 0).collect()).boxed()
}

pub fn scenario_strategy(flavours: Vec<Flavour>, lifecycle_w: u32, max_ops: usize) -> BoxedStrategy<Scenario> {
  let caps = prop_oneof![4 => Just(1usize), 3 => Just(2usize), 3 => Just(3usize), 1 => Just(4usize), 2 => Just(5usize), 1 => Just(16usize)];
  let uniform = (proptest::sample::select(flavours.clone()), proptest::bool::weighted(0.85), caps)
    .prop_flat_map(move |(f, a, cap)| proptest::collection::vec(op_strategy(f, lifecycle_w), 1..max_ops).prop_map(move |ops| Scenario { flavour: f, async_start: a, cap, ops }))
    .boxed();
  prop_oneof![3 => uniform, 1 => phased_strategy(flavours)].boxed()
}

/// Phase-structured histories: the multi-step shapes that matter for the wake / cancel /
/// disconnect protocols (several waiters of mixed forms parked on one side, a few operations
/// of the other side, teardown of that other side, cancellations and handle drops among the
/// waiters in a generated order, then polls) are rare under uniformly random ops; this family
/// builds them by construction.  Same alphabet, same interpreter, same oracles.
fn phased_strategy(flavours: Vec<Flavour>) -> BoxedStrategy<Scenario> {
  let h = any::<u16>();
  (proptest::sample::select(flavours), any::<bool>(), prop_oneof![3 => Just(1usize), 2 => Just(2usize), 1 => Just(3usize)])
    .prop_flat_map(move |(f, recv_side, cap)| {
      let batch = f.has_batch();
      // one parked waiter per entry: (clone a handle first?, form 0..4, n)
      let waiter = (any::<bool>(), 0u8..4, 1u16..4);
      // a few ops of the other side
      let other = (0u8..4, h, 1u16..4);
      // what happens among the waiters afterwards
      let after = prop_oneof![
        3 => h.prop_map(Op::CancelWoken),
        3 => h.prop_map(Op::Cancel),
        2 => h.prop_map(if recv_side { Op::DropRx } else { Op::DropTx }),
        1 => h.prop_map(if recv_side { Op::CloseRx } else { Op::CloseTx }),
        1 => h.prop_map(if recv_side { Op::CloseRxInFlight } else { Op::CloseTxInFlight }),
        1 => h.prop_map(if recv_side { Op::ConvRx } else { Op::ConvTx }),
        3 => h.prop_map(Op::Poll),
        2 => Just(Op::PollWoken),
        1 => h.prop_map(Op::PollNewWaker),
      ];
      (
        proptest::collection::vec(waiter, 1..4),
        proptest::collection::vec(other, 0..4),
        // teardown of the other side: 0 = none, 1 = drop every handle, 2 = close every handle
        0u8..3,
        proptest::collection::vec(after, 0..5),
        any::<bool>(),
      )
        .prop_map(move |(waiters, others, teardown, afters, prefill)| {
          let mut ops = Vec::new();
          if !recv_side && prefill {
            // senders can only park on a full channel
            for _ in 0..cap {
              ops.push(Op::TrySend(0));
            }
          }
          for (i, (clone_first, form, n)) in waiters.iter().enumerate() {
            if *clone_first && i > 0 {
              ops.push(if recv_side { Op::CloneRx(0) } else { Op::CloneTx(0) });
            }
            let hsel = u16::MAX; // the newest handle
            let form = if batch { *form } else { 0 };
            ops.push(match (recv_side, form) {
              (true, 1) => Op::SpawnRecvBatch(hsel, *n),
              (true, 2) => Op::SpawnRecvBatchMut(hsel, *n),
              (true, 3) => Op::SpawnNext(hsel),
              (true, _) => Op::SpawnRecv(hsel),
              (false, 1) => Op::SpawnSendBatch(hsel, *n),
              (false, 2) => Op::SpawnSendBatchMut(hsel, *n),
              (false, _) => Op::SpawnSend(hsel),
            });
          }
          for (kind, a, n) in others.iter() {
            ops.push(match (recv_side, *kind) {
              (true, 0) => Op::TrySend(*a),
              (true, 1) => Op::SpawnSend(*a),
              (true, 2) if batch => Op::TrySendBatch(*a, *n),
              (true, _) => Op::TrySend(*a),
              (false, 0) => Op::TryRecv(*a),
              (false, 1) => Op::SpawnRecv(*a),
              (false, 2) if batch => Op::TryRecvBatch(*a, *n),
              (false, _) => Op::TryRecv(*a),
            });
          }
          match teardown {
            1 => {
              for _ in 0..3 {
                ops.push(if recv_side { Op::DropTx(0) } else { Op::DropRx(0) });
              }
            }
            2 => {
              for k in 0..3u16 {
                ops.push(if recv_side { Op::CloseTx(k.wrapping_mul(21845)) } else { Op::CloseRx(k.wrapping_mul(21845)) });
              }
            }
            _ => {}
          }
          ops.extend(afters.into_iter());
          ops.push(Op::Checkpoint);
          Scenario { flavour: f, async_start: true, cap, ops }
        })
    })
    .boxed()
}

// ---------------------------------------------------------------------------------------------

enum Out {
  Send(Result<(), SendError>),
  SendBatch(Result<usize, SendBatchError<Pay>>),
  SendBatchMut(Result<usize, SendError>),
  Recv(Result<Pay, RecvError>),
  RecvBatch(Result<Vec<Pay>, RecvError>),
  RecvBatchMut(Result<usize, RecvError>),
  Next(Option<Pay>),
}

#[derive(Clone, Debug)]
enum Kind {
  Send(u32),
  SendBatch(Vec<u32>),
  SendBatchMut(Vec<u32>),
  Recv,
  RecvBatch(usize),
  RecvBatchMut(usize),
  Next,
}

struct Task {
  // NB field order: the future is dropped before the buffers it borrows
  fut: Option<Pin<Box<dyn Future<Output = Out>>>>,
  vec: Option<Box<Vec<Pay>>>,
  waker: Arc<CountWaker>,
  seen: usize,
  kind: Kind,
  is_tx: bool,
  hid: u32,
  start: u64,
  /// no live receiver / this handle closed when the task started (for the disconnect clauses)
  closed_at_start: bool,
}

impl Task {
  fn woken(&self) -> bool {
    self.waker.0.load(Ordering::SeqCst) != self.seen
  }
}

struct H<T: ?Sized> {
  h: Box<T>,
  hid: u32,
  closed: bool,
}

#[derive(Clone, Copy, Debug)]
struct SendRec {
  hid: u32,
  start: u64,
  /// step at which the send was known complete (Ok); u64::MAX while unknown
  done: u64,
  ok: bool,
  /// the send reported failure (Closed / Full / Sent): "the value is never delivered"
  failed: bool,
}

struct Run<'a> {
  s: &'a Scenario,
  tx: &'a mut Vec<H<dyn Tx>>,
  rx: &'a mut Vec<H<dyn Rx>>,
  tasks: &'a mut Vec<Task>,
  reg: Arc<Registry>,
  next_id: u32,
  next_hid: u32,
  now: u64,
  sends: BTreeMap<u32, SendRec>,
  received: BTreeSet<u32>,
  /// per receiver handle: receives (recv_start, recv_done, id)
  rlog: BTreeMap<u32, Vec<(u64, u64, u32)>>,
  rep: CaseReport,
  nt_cancel_registered: bool,
  nt_two_pending: bool,
  nt_waker_replaced: bool,
  nt_sync_completed_async: bool,
  /// sticky: a task that had been woken was cancelled / completed with an error / had its own handle closed while pending
  ev_cancel_woken: bool,
  ev_woken_err: bool,
  ev_own_close_pending: bool,
  /// sticky: two send (resp. receive) tasks were pending at the same time
  ev_two_tx: bool,
  ev_two_rx: bool,
  cap: Option<usize>,
}

type R = Result<(), Failure>;

macro_rules! fail {
  ($prop:expr, $sig:expr, $($arg:tt)*) => {
    return Err(Failure::new($prop, $sig, format!($($arg)*)))
  };
}

fn sig(s: &Scenario, form: &str, clause: &str) -> String {
  format!("E2/{}/{}/{}", s.flavour.name(), form, clause)
}

unsafe fn extend<'a, T: ?Sized>(r: &'a T) -> &'static T {
  std::mem::transmute::<&'a T, &'static T>(r)
}
unsafe fn extend_mut<'a, T: ?Sized>(r: &'a mut T) -> &'static mut T {
  std::mem::transmute::<&'a mut T, &'static mut T>(r)
}

impl<'a> Run<'a> {
  fn fresh(&mut self) -> Pay {
    let id = self.next_id;
    self.next_id += 1;
    Tracked::new(id, &self.reg)
  }
  fn rx_alive(&self) -> bool {
    self.rx.iter().any(|h| !h.closed)
  }
  fn tx_alive(&self) -> bool {
    self.tx.iter().any(|h| !h.closed)
  }
  fn tasks_of(&self, is_tx: bool, hid: u32) -> Vec<usize> {
    (0..self.tasks.len()).filter(|i| self.tasks[*i].is_tx == is_tx && self.tasks[*i].hid == hid).collect()
  }
  fn cancel_tasks_of(&mut self, is_tx: bool, hid: u32) -> R {
    loop {
      let v = self.tasks_of(is_tx, hid);
      let Some(i) = v.first().copied() else { return Ok(()) };
      self.cancel(i)?;
    }
  }

  // ---- bookkeeping of completed operations --------------------------------------------------

  fn note_send_start(&mut self, id: u32, hid: u32) {
    self.sends.insert(id, SendRec { hid, start: self.now, done: u64::MAX, ok: false, failed: false });
  }
  fn note_send_ok(&mut self, id: u32) {
    let now = self.now;
    if let Some(r) = self.sends.get_mut(&id) {
      r.ok = true;
      r.done = now;
    }
  }

  fn note_send_failed(&mut self, id: u32) {
    if let Some(r) = self.sends.get_mut(&id) {
      r.failed = true;
    }
  }

  fn note_recv(&mut self, form: &str, rhid: u32, rstart: u64, id: u32) -> R {
    if id == u32::MAX - 1 {
      fail!("C01", sig(self.s, form, "sentinel_returned"), "a receive returned a pre-existing element of the output vector");
    }
    if !self.sends.contains_key(&id) {
      fail!("C01", sig(self.s, form, "phantom"), "received #{id} which was never handed to a send");
    }
    // C01: "An operation that reports failure (Full, Closed, Sent ...) has no effect on the
    // channel: the value is never delivered"
    if self.sends[&id].failed {
      fail!("C01", sig(self.s, form, "failed_send_delivered"), "received #{id} although its send had reported failure");
    }
    if self.s.flavour == Flavour::Broadcast {
      // C07: every receiver obtains every value at most once and in send order (the single
      // sender sends sequentially, so ids increase along its send order)
      let log = self.rlog.entry(rhid).or_default();
      if let Some((_, _, last)) = log.last() {
        if id <= *last {
          fail!("C07", sig(self.s, form, "per_receiver_order"), "receiver obtained #{id} after #{last}");
        }
      }
      let now = self.now;
      log.push((rstart, now, id));
      self.received.insert(id);
      return Ok(());
    }
    if !self.received.insert(id) {
      fail!("C01", sig(self.s, form, "duplicate"), "#{id} received twice");
    }
    // C02 — "Values sent through one sender handle are received in the order they were sent
    // ... each consumer's received subsequence of any one producer is in send order".
    // Interval form (sound under overlap): x was sent strictly before y (x's send completed
    // before y's started), yet this consumer obtained y in a receive that completed before the
    // receive that obtained x started.
    let srec = self.sends[&id];
    let now = self.now;
    let log = self.rlog.entry(rhid).or_default();
    for (_ys, ydone, y) in log.iter() {
      if *ydone < rstart {
        let yrec = self.sends[y];
        if yrec.hid == srec.hid && srec.done < yrec.start {
          fail!("C02", sig(self.s, form, "per_producer_order"), "consumer obtained #{y} and later #{id}, but #{id} was sent (completed at step {}) before #{y} was started (step {}) by the same sender handle", srec.done, yrec.start);
        }
      }
    }
    log.push((rstart, now, id));
    Ok(())
  }

  /// C03 — "never holds more than N sent-but-unreceived values".  Values can also sit with
  /// receive operations that are already in progress (pending recv tasks), so the sound bound
  /// is capacity + what pending receives can hold.
  fn check_occupancy(&mut self, form: &str) -> R {
    let Some(cap) = self.cap else { return Ok(()) };
    let ok_unreceived = self.sends.iter().filter(|(id, r)| r.ok && !self.received.contains(id)).count();
    let mut slack = 0usize;
    for t in self.tasks.iter() {
      match &t.kind {
        Kind::Recv | Kind::Next => slack += 1,
        Kind::RecvBatch(m) | Kind::RecvBatchMut(m) => slack += *m,
        _ => {}
      }
    }
    if ok_unreceived > cap + slack {
      fail!("C03", sig(self.s, form, "occupancy_exceeds_capacity"), "{} values whose send reported Ok are unreceived; capacity {} + {} held by pending receives", ok_unreceived, cap, slack);
    }
    Ok(())
  }

  // ---- task machinery -----------------------------------------------------------------------

  fn poll_task(&mut self, i: usize, new_waker: bool) -> R {
    self.now += 1;
    if new_waker {
      self.tasks[i].waker = Arc::new(CountWaker(Default::default()));
      self.tasks[i].seen = 0;
      self.nt_waker_replaced = true;
      self.rep.class("waker_replaced");
    }
    let t = &mut self.tasks[i];
    t.seen = t.waker.0.load(Ordering::SeqCst);
    let waker = Waker::from(t.waker.clone());
    let mut cx = Context::from_waker(&waker);
    let r = t.fut.as_mut().unwrap().as_mut().poll(&mut cx);
    match r {
      Poll::Pending => Ok(()),
      Poll::Ready(out) => {
        let t = self.tasks.remove(i);
        let is_err = match &out {
          Out::Send(r) => r.is_err(),
          Out::SendBatch(r) => r.is_err(),
          Out::SendBatchMut(r) => r.is_err(),
          Out::Recv(r) => r.is_err(),
          Out::RecvBatch(r) => r.is_err(),
          Out::RecvBatchMut(r) => r.is_err(),
          Out::Next(r) => r.is_none(),
        };
        if is_err && t.seen > 0 {
          self.ev_woken_err = true;
        }
        self.complete(t, out)
      }
    }
  }

  fn complete(&mut self, mut t: Task, out: Out) -> R {
    t.fut = None; // release borrows of vec / handle
    if std::env::var("VERIF_TRACE").is_ok() {
      let o = match &out {
        Out::Send(r) => format!("{r:?}"),
        Out::SendBatch(r) => format!("{:?}", r.as_ref().map_err(|e| (e.sent, e.unsent.len()))),
        Out::SendBatchMut(r) => format!("{r:?}"),
        Out::Recv(r) => format!("{r:?}"),
        Out::RecvBatch(r) => format!("{r:?}"),
        Out::RecvBatchMut(r) => format!("{r:?}"),
        Out::Next(r) => format!("{r:?}"),
      };
      eprintln!("    task {:?} (handle {}) completed: {o}", t.kind, t.hid);
    }
    let live_rx = self.rx_alive();
    match (t.kind.clone(), out) {
      (Kind::Send(id), Out::Send(r)) => match r {
        Ok(()) => {
          if t.closed_at_start {
            fail!("C04", sig(self.s, "send_fut", "accepted_on_closed"), "send future started on a closed channel/handle resolved Ok (#{id})");
          }
          self.note_send_ok(id);
          self.check_occupancy("send_fut")
        }
        Err(e) => {
          if e != SendError::Closed {
            fail!("C01", sig(self.s, "send_fut", "undocumented_result"), "{e:?}");
          }
          let self_closed = self.tx.iter().find(|h| h.hid == t.hid).map(|h| h.closed).unwrap_or(true);
          if live_rx && !self_closed && !t.closed_at_start {
            fail!("C04", sig(self.s, "send_fut", "closed_but_open"), "send future failed Closed while a receiver handle is alive and the sender handle is open");
          }
          if self.received.contains(&id) {
            fail!("C01", sig(self.s, "send_fut", "failed_send_delivered"), "send future of #{id} reported Closed although a receiver had already obtained the value");
          }
          self.note_send_failed(id);
          Ok(())
        }
      },
      (Kind::SendBatch(ids), Out::SendBatch(r)) => {
        let (sent, unsent): (usize, Vec<u32>) = match r {
          Ok(k) => (k, vec![]),
          Err(e) => (e.sent, crate::payload::ids(&e.unsent)),
        };
        self.finish_batch_send("send_batch_fut", &ids, sent, Some(&unsent), t.closed_at_start)
      }
      (Kind::SendBatchMut(ids), Out::SendBatchMut(r)) => {
        let left = crate::payload::ids(t.vec.as_ref().unwrap());
        let sent = ids.len() - left.len().min(ids.len());
        if let Ok(k) = r {
          if k != sent {
            fail!("C01", sig(self.s, "send_batch_mut_fut", "batch_accounting"), "resolved Ok({k}) but {} items left the caller's vector", sent);
          }
        }
        self.finish_batch_send("send_batch_mut_fut", &ids, sent, Some(&left), t.closed_at_start)
      }
      (Kind::Recv, Out::Recv(r)) => match r {
        Ok(v) => self.note_recv("recv_fut", t.hid, t.start, v.id),
        Err(RecvError::Disconnected) => self.check_disconnected("recv_fut", t.hid),
      },
      (Kind::Next, Out::Next(r)) => match r {
        Some(v) => self.note_recv("stream_next", t.hid, t.start, v.id),
        None => self.check_disconnected("stream_next", t.hid),
      },
      (Kind::RecvBatch(max), Out::RecvBatch(r)) => match r {
        Ok(v) => {
          if v.len() > max || (v.is_empty() && max > 0) {
            fail!("C01", sig(self.s, "recv_batch_fut", "batch_size"), "resolved with {} items for max {}", v.len(), max);
          }
          for p in v.iter() {
            self.note_recv("recv_batch_fut", t.hid, t.start, p.id)?;
          }
          Ok(())
        }
        Err(RecvError::Disconnected) => self.check_disconnected("recv_batch_fut", t.hid),
      },
      (Kind::RecvBatchMut(max), Out::RecvBatchMut(r)) => {
        let got = crate::payload::ids(t.vec.as_ref().unwrap());
        match r {
          Ok(k) => {
            if got.len() != k || k > max || (k == 0 && max > 0) {
              fail!("C01", sig(self.s, "recv_batch_mut_fut", "batch_size"), "resolved Ok({k}), appended {}, max {}", got.len(), max);
            }
            for id in got {
              self.note_recv("recv_batch_mut_fut", t.hid, t.start, id)?;
            }
            Ok(())
          }
          Err(RecvError::Disconnected) => {
            if !got.is_empty() {
              fail!("C01", sig(self.s, "recv_batch_mut_fut", "failed_recv_consumed"), "failed in-place batch receive appended {} items", got.len());
            }
            self.check_disconnected("recv_batch_mut_fut", t.hid)
          }
        }
      }
      _ => unreachable!("task kind / output mismatch"),
    }
  }

  fn finish_batch_send(&mut self, form: &str, ids: &[u32], sent: usize, unsent: Option<&[u32]>, closed_at_start: bool) -> R {
    if let Some(u) = unsent {
      if sent + u.len() != ids.len() {
        fail!("C01", sig(self.s, form, "batch_accounting"), "sent {} + unsent {} != input {}", sent, u.len(), ids.len());
      }
      if u != &ids[sent.min(ids.len())..] {
        fail!("C01", sig(self.s, form, "batch_unsent_order"), "unsent {:?} is not the input suffix {:?}", u, &ids[sent.min(ids.len())..]);
      }
    }
    if closed_at_start && sent > 0 {
      fail!("C04", sig(self.s, form, "accepted_on_closed"), "batch started on a closed channel/handle sent {sent} items");
    }
    for id in &ids[..sent.min(ids.len())] {
      self.note_send_ok(*id);
    }
    self.check_occupancy(form)
  }

  /// A receive reported Disconnected.  C04: "After the last sender is dropped or closed,
  /// receivers still obtain every value already sent and only then observe Disconnected".
  fn check_disconnected(&mut self, form: &str, rhid: u32) -> R {
    let self_closed = self.rx.iter().find(|h| h.hid == rhid).map(|h| h.closed).unwrap_or(true);
    if self_closed {
      return Ok(());
    }
    if self.s.flavour == Flavour::Oneshot && self.sends.iter().any(|(id, r)| r.ok && self.received.contains(id)) {
      return Ok(()); // value already taken
    }
    if self.s.flavour == Flavour::Broadcast {
      if self.tx_alive() {
        fail!("C07", sig(self.s, form, "disconnected_with_live_sender"), "a broadcast receiver reported Disconnected while the sender is alive");
      }
      return Ok(());
    }
    if self.tx_alive() {
      fail!("C04", sig(self.s, form, "disconnected_with_live_sender"), "reported Disconnected while {} sender handle(s) are alive", self.tx.iter().filter(|h| !h.closed).count());
    }
    // values whose send reported Ok and which nobody received: they may only be sitting with
    // *other* receive operations in progress
    let unreceived = self.sends.iter().filter(|(id, r)| r.ok && !self.received.contains(id)).count();
    let mut slack = 0usize;
    for t in self.tasks.iter() {
      match &t.kind {
        Kind::Recv | Kind::Next => slack += 1,
        Kind::RecvBatch(m) | Kind::RecvBatchMut(m) => slack += *m,
        _ => {}
      }
    }
    if unreceived > slack {
      // the same fact breaks C01: "each value whose send reports success is returned by exactly one
      // successful receive provided some receiver keeps receiving until it observes Disconnected"
      // — this receiver did, and the value is still unreceived; under the C01 check it is reported as C01
      let dp = if crate::current_property() == "C01" { "C01" } else { "C04" };
      fail!(dp, sig(self.s, form, "disconnected_before_drained"), "reported Disconnected while {} value(s) whose send reported Ok are unreceived ({} could be held by other pending receives)", unreceived, slack);
    }
    Ok(())
  }

  fn cancel(&mut self, i: usize) -> R {
    self.now += 1;
    let t = self.tasks.remove(i);
    let was_woken = t.woken();
    self.rep.class(if was_woken { "cancel_woken_task" } else { "cancel_pending_task" });
    if was_woken {
      self.ev_cancel_woken = true;
    }
    self.nt_cancel_registered = true;
    let is_recv_kind = matches!(t.kind, Kind::Recv | Kind::RecvBatch(_) | Kind::RecvBatchMut(_) | Kind::Next);
    // known finding F05 excluded by construction (while it is open): a receive that has
    // already been fulfilled on a rendezvous channel is polled instead of cancelled
    if is_recv_kind && was_woken && self.s.flavour.rendezvous() && crate::finding_open("F05-rendezvous-cancelled-fulfilled-recv-loses-value") {
      self.rep.class("excluded_by_construction:F05");
      self.tasks.insert(i, t);
      return self.poll_task(i, false);
    }
    let own: Vec<u32> = match &t.kind {
      Kind::Send(id) => vec![*id],
      Kind::SendBatch(ids) | Kind::SendBatchMut(ids) => ids.clone(),
      _ => vec![],
    };
    let live_before: BTreeSet<u32> = self.reg.live().into_iter().collect();
    let Task { fut, vec, kind, .. } = t;
    drop(fut);
    // C06 — "Dropping a pending future at any point does not lose or duplicate a message".
    // Any value that stops existing because a future was dropped, other than the cancelled
    // send's own not-yet-delivered payload, is a message lost by the cancellation.
    let live_after: BTreeSet<u32> = self.reg.live().into_iter().collect();
    let destroyed: Vec<u32> = live_before.difference(&live_after).copied().filter(|id| !own.contains(id) && *id != u32::MAX - 1).collect();
    if !destroyed.is_empty() && self.s.flavour != Flavour::Broadcast {
      let form = match kind {
        Kind::Send(_) => "send_fut",
        Kind::SendBatch(_) => "send_batch_fut",
        Kind::SendBatchMut(_) => "send_batch_mut_fut",
        Kind::Recv => "recv_fut",
        Kind::RecvBatch(_) => "recv_batch_fut",
        Kind::RecvBatchMut(_) => "recv_batch_mut_fut",
        Kind::Next => "stream_next",
      };
      let clause = if was_woken { "cancel_after_wake_destroys_value" } else { "cancel_destroys_value" };
      fail!("C06", sig(self.s, form, clause), "dropping a {} {form} future destroyed value(s) {:?} that had been entrusted to the channel (send reported Ok: {:?})", if was_woken { "woken (fulfilled)" } else { "pending" }, destroyed, destroyed.iter().map(|id| self.sends.get(id).map(|r| r.ok).unwrap_or(false)).collect::<Vec<_>>());
    }
    // by-value send forms: the value goes with the future (documented); it may or may not have
    // been delivered — both are fine, it must just not be duplicated or dropped twice.
    // in-place forms: the unsent tail stays in the caller's vector; the prefix that left it
    // counts as sent (it is in the channel).
    if let Kind::SendBatchMut(ids) = &kind {
      let left = crate::payload::ids(vec.as_ref().unwrap());
      let sent = ids.len() - left.len().min(ids.len());
      if left != ids[sent..] {
        fail!("C01", sig(self.s, "send_batch_mut_fut", "cancel_unsent_order"), "after cancellation the caller's vector {:?} is not a suffix of the input {:?}", left, ids);
      }
      for id in &ids[..sent] {
        self.note_send_ok(*id);
      }
    }
    if let Kind::RecvBatchMut(_) = &kind {
      // cancel-safe: "items are only appended in the poll that resolves the future"
      let got = crate::payload::ids(vec.as_ref().unwrap());
      if !got.is_empty() {
        fail!("C06", sig(self.s, "recv_batch_mut_fut", "cancel_appended"), "a cancelled in-place batch receive had appended {} item(s) that are now lost to the channel", got.len());
      }
    }
    drop(vec);
    Ok(())
  }

  fn spawn(&mut self, is_tx: bool, hi: usize, kind0: &Op) -> R {
    self.now += 1;
    let (hid, caps, closed) = if is_tx { (self.tx[hi].hid, self.tx[hi].h.caps(), self.tx[hi].closed) } else { (self.rx[hi].hid, self.rx[hi].h.caps(), self.rx[hi].closed) };
    if !is_tx && self.s.flavour == Flavour::Oneshot && !self.received.is_empty() {
      return Ok(()); // a oneshot is received from once; nothing is specified for later receives
    }
    if !caps.futures {
      // a sync handle: use the non-blocking form instead
      return match kind0 {
        Op::SpawnSend(_) => self.try_send(hi),
        Op::SpawnSendBatch(_, n) => self.try_send_batch(hi, *n as usize, false),
        Op::SpawnSendBatchMut(_, n) => self.try_send_batch(hi, *n as usize, true),
        Op::SpawnRecv(_) | Op::SpawnNext(_) => self.try_recv(hi),
        Op::SpawnRecvBatch(_, n) => self.try_recv_batch(hi, *n as usize, false),
        Op::SpawnRecvBatchMut(_, n) => self.try_recv_batch(hi, *n as usize, true),
        _ => Ok(()),
      };
    }
    // `&mut self` API, or the single-producer / single-consumer side of a flavour: one
    // operation at a time on that handle (the contract every caller of an spsc / mpsc /
    // oneshot end respects) — the previous future is cancelled first
    let single_side = if is_tx { !self.s.flavour.multi_tx() } else { !self.s.flavour.multi_rx() };
    // Stream::poll_next takes Pin<&mut Self>: a stream poll excludes every other borrow of
    // that receiver handle, and vice versa
    let wants_stream = matches!(kind0, Op::SpawnNext(_)) && caps.stream;
    let has_stream_task = !is_tx && self.tasks.iter().any(|t| !t.is_tx && t.hid == hid && matches!(t.kind, Kind::Next));
    // A parked Stream stays registered with the channel after the `next()` future is dropped
    // (there is nothing to drop); it is released by completing or by dropping/converting the
    // handle.  The harness therefore never abandons a pending stream poll: other operations on
    // that handle are skipped until it completes.
    if has_stream_task {
      return Ok(());
    }
    if caps.exclusive || single_side || wants_stream {
      self.cancel_tasks_of(is_tx, hid)?;
    } else if self.tasks_of(is_tx, hid).len() >= 4 {
      return Ok(());
    }
    // known finding F06 excluded by construction (while open): no second async sender is
    // parked on a bounded mpsc channel (the second spawn becomes the non-blocking form)
    if is_tx && self.s.flavour == Flavour::MpscBounded && self.tasks.iter().any(|t| t.is_tx) && crate::finding_open("F06-mpsc-bounded-async-sender-drip") {
      self.rep.class("excluded_by_construction:F06");
      return match kind0 {
        Op::SpawnSendBatch(_, n) => self.try_send_batch(hi, *n as usize, false),
        Op::SpawnSendBatchMut(_, n) => self.try_send_batch(hi, *n as usize, true),
        _ => self.try_send(hi),
      };
    }
    let batch = caps.batch;
    let waker = Arc::new(CountWaker(Default::default()));
    let closed_at_start = if is_tx { closed || !self.rx_alive() } else { closed };
    let mut vecbox: Option<Box<Vec<Pay>>> = None;
    let (kind, fut): (Kind, Pin<Box<dyn Future<Output = Out>>>) = unsafe {
      match kind0 {
        Op::SpawnSend(_) => {
          let v = self.fresh();
          let id = v.id;
          self.note_send_start(id, hid);
          let h: &'static dyn Tx = extend(&*self.tx[hi].h);
          let f = h.send_fut(v);
          (Kind::Send(id), Box::pin(async move { Out::Send(f.await) }))
        }
        Op::SpawnSendBatch(_, n) if batch => {
          let items: Vec<Pay> = (0..*n).map(|_| self.fresh()).collect();
          let ids = crate::payload::ids(&items);
          for id in &ids {
            self.note_send_start(*id, hid);
          }
          let h: &'static dyn Tx = extend(&*self.tx[hi].h);
          let f = h.send_batch_fut(items);
          (Kind::SendBatch(ids), Box::pin(async move { Out::SendBatch(f.await) }))
        }
        Op::SpawnSendBatchMut(_, n) if batch => {
          let items: Vec<Pay> = (0..*n).map(|_| self.fresh()).collect();
          let ids = crate::payload::ids(&items);
          for id in &ids {
            self.note_send_start(*id, hid);
          }
          let mut b = Box::new(items);
          let vr: &'static mut Vec<Pay> = extend_mut(&mut *b);
          vecbox = Some(b);
          let h: &'static dyn Tx = extend(&*self.tx[hi].h);
          let f = h.send_batch_mut_fut(vr);
          (Kind::SendBatchMut(ids), Box::pin(async move { Out::SendBatchMut(f.await) }))
        }
        Op::SpawnSendBatch(..) | Op::SpawnSendBatchMut(..) => {
          let v = self.fresh();
          let id = v.id;
          self.note_send_start(id, hid);
          let h: &'static dyn Tx = extend(&*self.tx[hi].h);
          let f = h.send_fut(v);
          (Kind::Send(id), Box::pin(async move { Out::Send(f.await) }))
        }
        Op::SpawnRecvBatch(_, n) if batch => {
          let h: &'static dyn Rx = extend(&*self.rx[hi].h);
          let f = h.recv_batch_fut(*n as usize);
          (Kind::RecvBatch(*n as usize), Box::pin(async move { Out::RecvBatch(f.await) }))
        }
        Op::SpawnRecvBatchMut(_, n) if batch => {
          let mut b: Box<Vec<Pay>> = Box::new(Vec::new());
          let vr: &'static mut Vec<Pay> = extend_mut(&mut *b);
          vecbox = Some(b);
          let h: &'static dyn Rx = extend(&*self.rx[hi].h);
          let f = h.recv_batch_mut_fut(vr, *n as usize);
          (Kind::RecvBatchMut(*n as usize), Box::pin(async move { Out::RecvBatchMut(f.await) }))
        }
        Op::SpawnNext(_) if caps.stream => {
          let h: &'static dyn Rx = extend(&*self.rx[hi].h);
          let f = h.next_fut();
          (Kind::Next, Box::pin(async move { Out::Next(f.await) }))
        }
        _ => {
          let h: &'static dyn Rx = extend(&*self.rx[hi].h);
          let f = h.recv_fut();
          (Kind::Recv, Box::pin(async move { Out::Recv(f.await) }))
        }
      }
    };
    let same_side_pending = self.tasks.iter().filter(|t| t.is_tx == is_tx).count();
    if same_side_pending >= 1 {
      if is_tx {
        self.ev_two_tx = true
      } else {
        self.ev_two_rx = true
      }
      self.nt_two_pending = true;
      self.rep.class("two_pending_same_side");
    }
    self.tasks.push(Task { fut: Some(fut), vec: vecbox, waker, seen: 0, kind, is_tx, hid, start: self.now, closed_at_start });
    self.rep.class("spawn");
    let i = self.tasks.len() - 1;
    self.poll_task(i, false)
  }

  // ---- non-blocking operations ----------------------------------------------------------------

  fn exclusive_busy(&mut self, is_tx: bool, hi: usize) -> R {
    let (hid, caps) = if is_tx { (self.tx[hi].hid, self.tx[hi].h.caps()) } else { (self.rx[hi].hid, self.rx[hi].h.caps()) };
    let single_side = if is_tx { !self.s.flavour.multi_tx() } else { !self.s.flavour.multi_rx() };
    if caps.exclusive || single_side {
      self.cancel_tasks_of(is_tx, hid)?;
    }
    Ok(())
  }

  fn has_stream_task(&self, hi: usize) -> bool {
    let hid = self.rx[hi].hid;
    self.tasks.iter().any(|t| !t.is_tx && t.hid == hid && matches!(t.kind, Kind::Next))
  }

  fn woken_before(&self) -> usize {
    self.tasks.iter().filter(|t| t.woken()).count()
  }

  fn try_send(&mut self, hi: usize) -> R {
    self.exclusive_busy(true, hi)?;
    self.now += 1;
    let hid = self.tx[hi].hid;
    let closed = self.tx[hi].closed || !self.rx_alive();
    let consuming = self.tx[hi].h.caps().consuming;
    let v = self.fresh();
    let id = v.id;
    self.note_send_start(id, hid);
    let woke0 = self.woken_before();
    let r = self.tx[hi].h.try_send(v);
    if consuming {
      let h = self.tx.remove(hi);
      drop(h);
    }
    match r {
      Ok(()) => {
        if closed {
          fail!("C04", sig(self.s, "try_send", "accepted_on_closed"), "try_send returned Ok on a closed channel/handle (#{id})");
        }
        self.note_send_ok(id);
        if !self.tx.get(hi).map(|h| h.h.caps().futures).unwrap_or(false) && self.woken_before() > woke0 {
          self.nt_sync_completed_async = true;
        }
        self.check_occupancy("try_send")
      }
      Err(e) => {
        let (kind, back) = match e {
          TrySendError::Full(v) => ("Full", v),
          TrySendError::Closed(v) => ("Closed", v),
          TrySendError::Sent(v) => ("Sent", v),
        };
        if back.id != id {
          fail!("C01", sig(self.s, "try_send", "handback_identity"), "error handed back #{} instead of #{}", back.id, id);
        }
        if kind == "Closed" && !closed {
          fail!("C04", sig(self.s, "try_send", "closed_but_open"), "try_send failed Closed while a receiver handle is alive and the sender handle is open");
        }
        if kind == "Full" && closed {
          fail!("C04", sig(self.s, "try_send", "full_instead_of_closed"), "try_send reported Full on a closed channel/handle");
        }
        Ok(())
      }
    }
  }

  fn try_send_batch(&mut self, hi: usize, n: usize, in_place: bool) -> R {
    if !self.tx[hi].h.caps().batch {
      return self.try_send(hi);
    }
    self.exclusive_busy(true, hi)?;
    self.now += 1;
    let hid = self.tx[hi].hid;
    let closed = self.tx[hi].closed || !self.rx_alive();
    let items: Vec<Pay> = (0..n).map(|_| self.fresh()).collect();
    let ids = crate::payload::ids(&items);
    for id in &ids {
      self.note_send_start(*id, hid);
    }
    if in_place {
      let mut v = items;
      let r = self.tx[hi].h.try_send_batch_mut(&mut v);
      let left = crate::payload::ids(&v);
      drop(v);
      let sent = ids.len() - left.len().min(ids.len());
      if let Ok(k) = r {
        if k != sent {
          fail!("C01", sig(self.s, "try_send_batch_mut", "batch_accounting"), "Ok({k}) but {} items left the caller's vector", sent);
        }
      } else if sent != 0 {
        fail!("C01", sig(self.s, "try_send_batch_mut", "batch_accounting"), "Err(Closed) but {} items left the caller's vector", sent);
      }
      self.finish_batch_send("try_send_batch_mut", &ids, sent, Some(&left), closed)
    } else {
      let r = self.tx[hi].h.try_send_batch(items);
      let (sent, unsent) = match r {
        Ok(k) => (k, vec![]),
        Err(e) => (e.sent, crate::payload::ids(&e.unsent)),
      };
      self.finish_batch_send("try_send_batch", &ids, sent, Some(&unsent), closed)
    }
  }

  fn try_recv(&mut self, hi: usize) -> R {
    if self.s.flavour == Flavour::Oneshot && !self.received.is_empty() {
      return Ok(());
    }
    if self.has_stream_task(hi) {
      return Ok(());
    }
    self.exclusive_busy(false, hi)?;
    self.now += 1;
    let hid = self.rx[hi].hid;
    let start = self.now;
    match self.rx[hi].h.try_recv() {
      Ok(v) => {
        if self.rx[hi].closed {
          fail!("C04", sig(self.s, "try_recv", "value_on_self_closed_handle"), "a self-closed receiver obtained #{}", v.id);
        }
        self.note_recv("try_recv", hid, start, v.id)
      }
      Err(TryRecvError::Empty) => Ok(()),
      Err(TryRecvError::Disconnected) => self.check_disconnected("try_recv", hid),
    }
  }

  fn try_recv_batch(&mut self, hi: usize, max: usize, in_place: bool) -> R {
    if !self.rx[hi].h.caps().batch {
      return self.try_recv(hi);
    }
    if self.has_stream_task(hi) {
      return Ok(());
    }
    self.exclusive_busy(false, hi)?;
    self.now += 1;
    let hid = self.rx[hi].hid;
    let start = self.now;
    let r: Result<Vec<u32>, TryRecvError> = if in_place {
      let mut out: Vec<Pay> = Vec::new();
      let r = self.rx[hi].h.try_recv_batch_mut(&mut out, max);
      let got = crate::payload::ids(&out);
      match r {
        Ok(k) => {
          if k != got.len() {
            fail!("C01", sig(self.s, "try_recv_batch_mut", "append_count"), "returned {k} but appended {}", got.len());
          }
          Ok(got)
        }
        Err(e) => {
          if !got.is_empty() {
            fail!("C01", sig(self.s, "try_recv_batch_mut", "failed_recv_consumed"), "failed batch receive appended {}", got.len());
          }
          Err(e)
        }
      }
    } else {
      self.rx[hi].h.try_recv_batch(max).map(|v| crate::payload::ids(&v))
    };
    match r {
      Ok(got) => {
        if got.len() > max {
          fail!("C01", sig(self.s, "try_recv_batch", "batch_size"), "{} items for max {}", got.len(), max);
        }
        for id in got {
          self.note_recv("try_recv_batch", hid, start, id)?;
        }
        Ok(())
      }
      Err(TryRecvError::Empty) => Ok(()),
      Err(TryRecvError::Disconnected) => {
        if max == 0 {
          return Ok(());
        }
        self.check_disconnected("try_recv_batch", hid)
      }
    }
  }

  // ---- executor ops -------------------------------------------------------------------------

  fn poll_woken_round(&mut self) -> Result<bool, Failure> {
    // poll in task order those woken at the beginning of the round
    let hids: Vec<*const CountWaker> = self.tasks.iter().filter(|t| t.woken()).map(|t| Arc::as_ptr(&t.waker)).collect();
    let any = !hids.is_empty();
    for p in hids {
      if let Some(i) = self.tasks.iter().position(|t| Arc::as_ptr(&t.waker) == p) {
        self.poll_task(i, false)?;
      }
    }
    Ok(any)
  }

  fn settle(&mut self) -> R {
    let mut rounds = 0;
    while self.poll_woken_round()? {
      rounds += 1;
      if rounds > 10_000 {
        // a task that wakes itself forever: livelock of the futures, not a harness matter
        fail!("C06", sig(self.s, "executor", "self_wake_livelock"), "tasks keep waking without ever completing (10000 rounds)");
      }
    }
    Ok(())
  }

  /// C06 — "Whenever an async send, recv, batch operation or Stream poll returned Pending and
  /// the operation later becomes able to complete (or the channel disconnects), its waker is
  /// invoked, so an executor that polls only woken tasks never stalls while progress is
  /// possible."  After Settle nobody holds an undelivered wake; a forced poll that returns
  /// Ready is an operation that was able to complete whose waker had not been invoked.
  fn checkpoint(&mut self) -> R {
    self.settle()?;
    self.rep.class("checkpoint");
    let ptrs: Vec<*const CountWaker> = self.tasks.iter().map(|t| Arc::as_ptr(&t.waker)).collect();
    for p in ptrs {
      let Some(i) = self.tasks.iter().position(|t| Arc::as_ptr(&t.waker) == p) else { continue };
      if self.tasks[i].woken() {
        // woken by something this checkpoint did: an ordinary wake, deliver it
        self.poll_task(i, false)?;
        continue;
      }
      let kind = self.tasks[i].kind.clone();
      let before = self.tasks.len();
      // a task whose *own* handle was closed while it was pending is not owed a wake by the
      // property ("becomes able to complete (or the channel disconnects)" is about the
      // channel, not about the caller closing the handle it is awaiting on)
      let (t_is_tx, t_hid) = (self.tasks[i].is_tx, self.tasks[i].hid);
      let own_closed = if t_is_tx { self.tx.iter().any(|h| h.hid == t_hid && h.closed) } else { self.rx.iter().any(|h| h.hid == t_hid && h.closed) };
      self.poll_task(i, false)?;
      if self.tasks.len() < before && !own_closed {
        let k = match kind {
          Kind::Send(_) => "send_fut",
          Kind::SendBatch(_) => "send_batch_fut",
          Kind::SendBatchMut(_) => "send_batch_mut_fut",
          Kind::Recv => "recv_fut",
          Kind::RecvBatch(_) => "recv_batch_fut",
          Kind::RecvBatchMut(_) => "recv_batch_mut_fut",
          Kind::Next => "stream_next",
        };
        let mut cause = Vec::new();
        if self.ev_cancel_woken {
          cause.push("after_cancel_of_woken_task");
        }
        if self.ev_woken_err {
          cause.push("after_woken_task_failed");
        }
        if self.ev_own_close_pending {
          cause.push("after_close_of_handle_with_pending_future");
        }
        let stalled_is_tx = matches!(kind, Kind::Send(_) | Kind::SendBatch(_) | Kind::SendBatchMut(_));
        if stalled_is_tx && self.ev_two_tx {
          cause.push("two_send_tasks_were_pending");
        }
        if !stalled_is_tx && self.ev_two_rx {
          cause.push("two_recv_tasks_were_pending");
        }
        let clause = if cause.is_empty() { "stalled_not_woken".to_string() } else { format!("stalled_not_woken[{}]", cause.join("+")) };
        fail!("C06", sig(self.s, k, &clause), "after every delivered wake was polled, a pending {k} task completed on a forced poll: it was able to complete but its waker had not been invoked ({} other task(s) pending)", self.tasks.len());
      }
    }
    self.settle()?;
    self.observable_stall()
  }

  /// Second, model-based form of the stall clause for flavours whose pending futures do not
  /// re-try on a forced poll (bounded mpmc send futures only refresh their waker): with every
  /// delivered wake polled, a send task may only still be pending if the channel is full, and
  /// a receive task only if it is empty — as reported by the channel's own `len()`, whose
  /// meaning E1 pins down.  Not applied where space / items can legitimately be invisible
  /// (bounded-mpsc credit window, rendezvous pairing is checked separately).
  fn observable_stall(&mut self) -> R {
    let f = self.s.flavour;
    if f == Flavour::Broadcast {
      for t in self.tasks.iter() {
        if t.is_tx {
          continue;
        }
        if let Some(h) = self.rx.iter().find(|h| h.hid == t.hid && !h.closed) {
          if let Some(l) = h.h.len() {
            if l > 0 {
              fail!("C06", sig(self.s, "recv_task", "stalled_with_items"), "a broadcast receive task is pending with no undelivered wake although {l} value(s) of its view are unread");
            }
          }
        }
      }
      return Ok(());
    }
    if !matches!(f, Flavour::SpscBounded | Flavour::MpmcBounded | Flavour::MpmcUnbounded | Flavour::MpscUnbounded) {
      if f.rendezvous() {
        let pending_tx = self.tasks.iter().any(|t| t.is_tx && !self.tx.iter().any(|h| h.hid == t.hid && h.closed));
        let pending_rx = self.tasks.iter().any(|t| !t.is_tx && !self.rx.iter().any(|h| h.hid == t.hid && h.closed));
        if pending_tx && pending_rx && self.rx_alive() && self.tx_alive() {
          fail!("C06", sig(self.s, "executor", "stalled_pair_not_matched"), "a send task and a receive task are both pending on a rendezvous channel with no undelivered wake: they should have been paired");
        }
      }
      return Ok(());
    }
    let len = self.rx.iter().filter_map(|h| h.h.len()).next().or_else(|| self.tx.iter().filter_map(|h| h.h.len()).next());
    let Some(len) = len else { return Ok(()) };
    for t in self.tasks.iter() {
      let own_closed = if t.is_tx { self.tx.iter().any(|h| h.hid == t.hid && h.closed) } else { self.rx.iter().any(|h| h.hid == t.hid && h.closed) };
      if own_closed {
        continue;
      }
      if t.is_tx {
        if let Some(cap) = self.cap {
          if len < cap && self.rx_alive() {
            let batch_wants = match &t.kind {
              Kind::SendBatch(ids) | Kind::SendBatchMut(ids) => ids.len(),
              _ => 1,
            };
            let _ = batch_wants;
            fail!("C06", sig(self.s, "send_task", "stalled_with_space"), "a send task is pending with no undelivered wake although only {len} of {cap} slots are used and a receiver is alive");
          }
        }
      } else if len > 0 {
        fail!("C06", sig(self.s, "recv_task", "stalled_with_items"), "a receive task is pending with no undelivered wake although {len} value(s) are buffered");
      }
    }
    Ok(())
  }

  fn step(&mut self, op: &Op) -> R {
    let ntx = self.tx.len();
    let nrx = self.rx.len();
    let nt = self.tasks.len();
    match op {
      Op::SpawnSend(i) | Op::SpawnSendBatch(i, _) | Op::SpawnSendBatchMut(i, _) if ntx > 0 => self.spawn(true, idx(*i, ntx), op),
      Op::SpawnRecv(i) | Op::SpawnRecvBatch(i, _) | Op::SpawnRecvBatchMut(i, _) | Op::SpawnNext(i) if nrx > 0 => self.spawn(false, idx(*i, nrx), op),
      Op::Poll(t) if nt > 0 => {
        self.rep.class("forced_poll");
        self.poll_task(idx(*t, nt), false)
      }
      Op::PollNewWaker(t) if nt > 0 => self.poll_task(idx(*t, nt), true),
      Op::PollWoken => self.poll_woken_round().map(|_| ()),
      Op::Settle => self.settle(),
      Op::Cancel(t) if nt > 0 => {
        let i = idx(*t, nt);
        if matches!(self.tasks[i].kind, Kind::Next) {
          return Ok(());
        }
        self.cancel(i)
      }
      Op::CancelWoken(t) => {
        let w: Vec<usize> = (0..nt).filter(|i| self.tasks[*i].woken() && !matches!(self.tasks[*i].kind, Kind::Next)).collect();
        if w.is_empty() {
          return Ok(());
        }
        self.cancel(w[idx(*t, w.len())])
      }
      Op::TrySend(i) if ntx > 0 => self.try_send(idx(*i, ntx)),
      Op::TryRecv(i) if nrx > 0 => self.try_recv(idx(*i, nrx)),
      Op::TrySendBatch(i, n) if ntx > 0 => self.try_send_batch(idx(*i, ntx), *n as usize, false),
      Op::TrySendBatchMut(i, n) if ntx > 0 => self.try_send_batch(idx(*i, ntx), *n as usize, true),
      Op::TryRecvBatch(i, n) if nrx > 0 => self.try_recv_batch(idx(*i, nrx), *n as usize, false),
      Op::TryRecvBatchMut(i, n) if nrx > 0 => self.try_recv_batch(idx(*i, nrx), *n as usize, true),
      Op::CloseTx(i) | Op::CloseTxInFlight(i) if ntx > 0 => {
        let h = idx(*i, ntx);
        self.now += 1;
        // CloseTx: the handle is closed by its owner when no operation of that handle is in
        // flight.  CloseTxInFlight: its pending futures stay; whether they are woken is
        // unspecified (they are exempt from the stall oracle), but what they report must still be
        // true: Ok => delivered exactly once, Closed => never delivered (C01)
        if matches!(op, Op::CloseTx(_)) {
          let hid = self.tx[h].hid;
          self.cancel_tasks_of(true, hid)?;
        } else {
          self.rep.class("close_with_own_future_in_flight");
        }
        let was = self.tx[h].closed;
        if !self.tasks_of(true, self.tx[h].hid).is_empty() {
          self.ev_own_close_pending = true;
        }
        let r = self.tx[h].h.close();
        self.rep.class("close");
        match (was, r.is_ok()) {
          (false, true) => {
            self.tx[h].closed = true;
            Ok(())
          }
          (true, false) => Ok(()),
          (false, false) => fail!("C04", sig(self.s, "close_tx", "first_close_failed"), "first close() returned CloseError"),
          (true, true) => fail!("C04", sig(self.s, "close_tx", "second_close_ok"), "second close() returned Ok"),
        }
      }
      Op::CloseRx(i) | Op::CloseRxInFlight(i) if nrx > 0 => {
        let h = idx(*i, nrx);
        self.now += 1;
        if matches!(op, Op::CloseRx(_)) {
          let hid = self.rx[h].hid;
          // a parked stream stays registered (see spawn); closing the handle it belongs to
          // is legal once the `next()` future is gone — the stream task is kept and exempt
          // from the stall oracle (own handle closed)
          if !self.has_stream_task(h) {
            self.cancel_tasks_of(false, hid)?;
          }
        } else {
          self.rep.class("close_with_own_future_in_flight");
        }
        let was = self.rx[h].closed;
        if !self.tasks_of(false, self.rx[h].hid).is_empty() {
          self.ev_own_close_pending = true;
        }
        let r = self.rx[h].h.close();
        self.rep.class("close");
        match (was, r.is_ok()) {
          (false, true) => {
            self.rx[h].closed = true;
            Ok(())
          }
          (true, false) => Ok(()),
          (false, false) => fail!("C04", sig(self.s, "close_rx", "first_close_failed"), "first close() returned CloseError"),
          (true, true) => fail!("C04", sig(self.s, "close_rx", "second_close_ok"), "second close() returned Ok"),
        }
      }
      Op::DropTx(i) if ntx > 0 => {
        let h = idx(*i, ntx);
        let hid = self.tx[h].hid;
        self.cancel_tasks_of(true, hid)?;
        self.now += 1;
        drop(self.tx.remove(h));
        self.rep.class("drop_handle");
        Ok(())
      }
      Op::DropRx(i) if nrx > 0 => {
        let h = idx(*i, nrx);
        let hid = self.rx[h].hid;
        self.cancel_tasks_of(false, hid)?;
        self.now += 1;
        drop(self.rx.remove(h));
        self.rep.class("drop_handle");
        Ok(())
      }
      Op::CloneTx(i) if ntx > 0 && ntx < 3 => {
        let h = idx(*i, ntx);
        if self.tx[h].closed {
          return Ok(());
        }
        if let Some(c) = self.tx[h].h.try_clone() {
          let hid = self.next_hid;
          self.next_hid += 1;
          self.tx.push(H { h: c, hid, closed: false });
          self.rep.class("clone");
        }
        Ok(())
      }
      Op::CloneRx(i) if nrx > 0 && nrx < 3 => {
        let h = idx(*i, nrx);
        if self.rx[h].closed {
          return Ok(());
        }
        if let Some(c) = self.rx[h].h.try_clone() {
          let hid = self.next_hid;
          self.next_hid += 1;
          self.rx.push(H { h: c, hid, closed: false });
          self.rep.class("clone");
        }
        Ok(())
      }
      Op::ConvTx(i) if ntx > 0 => {
        let h = idx(*i, ntx);
        let hid = self.tx[h].hid;
        self.cancel_tasks_of(true, hid)?;
        self.now += 1;
        let H { h: b, hid, closed } = self.tx.remove(h);
        let n = match b.convert() {
          Ok(n) => {
            self.rep.class("convert");
            n
          }
          Err(o) => o,
        };
        self.tx.insert(h, H { h: n, hid, closed });
        Ok(())
      }
      Op::ConvRx(i) if nrx > 0 => {
        let h = idx(*i, nrx);
        let hid = self.rx[h].hid;
        self.cancel_tasks_of(false, hid)?;
        self.now += 1;
        let H { h: b, hid, closed } = self.rx.remove(h);
        let n = match b.convert() {
          Ok(n) => {
            self.rep.class("convert");
            n
          }
          Err(o) => o,
        };
        self.rx.insert(h, H { h: n, hid, closed });
        Ok(())
      }
      Op::Checkpoint => self.checkpoint(),
      _ => Ok(()),
    }
  }

  /// End of the history: the premise of C01 ("provided some receiver keeps receiving until it
  /// observes Disconnected") is established by the harness itself: cancel what is pending,
  /// drop every sender, and let one open receiver drain.
  fn finale(&mut self) -> R {
    self.checkpoint()?;
    // cancel all tasks (in order), then drop senders
    while !self.tasks.is_empty() {
      self.cancel(0)?;
    }
    while !self.tx.is_empty() {
      self.now += 1;
      drop(self.tx.remove(0));
    }
    let Some(di) = (0..self.rx.len()).find(|i| !self.rx[*i].closed) else {
      return Ok(()); // no drainer: the premise does not hold, nothing to assert
    };
    self.rep.class("drained_at_end");
    let hid = self.rx[di].hid;
    let mut n = 0;
    loop {
      self.now += 1;
      let start = self.now;
      n += 1;
      if n > 100_000 {
        fail!("C01", sig(self.s, "drain", "endless"), "drain did not terminate");
      }
      match self.rx[di].h.try_recv() {
        Ok(v) => self.note_recv("drain", hid, start, v.id)?,
        Err(TryRecvError::Disconnected) => break,
        Err(TryRecvError::Empty) => {
          if self.s.flavour == Flavour::Oneshot && self.sends.iter().any(|(id, r)| r.ok && self.received.contains(id)) {
            break;
          }
          fail!("C04", sig(self.s, "drain", "empty_after_senders_gone"), "try_recv reports Empty although every sender handle is gone");
        }
      }
    }
    if self.s.flavour == Flavour::Broadcast {
      return Ok(());
    }
    // C01: "each value whose send reports success is returned by exactly one successful receive"
    let lost: Vec<u32> = self.sends.iter().filter(|(id, r)| r.ok && !self.received.contains(id)).map(|(id, _)| *id).collect();
    if !lost.is_empty() {
      let kinds: BTreeSet<&str> = self.rep.classes.iter().map(|s| s.as_str()).filter(|c| c.starts_with("cancel")).collect();
      let prop = if kinds.is_empty() { "C01" } else { "C06" };
      fail!(prop, sig(self.s, "drain", if kinds.is_empty() { "lost_value" } else { "lost_value_after_cancellation" }), "{} value(s) whose send reported Ok were never received although a receiver drained to Disconnected: {:?}", lost.len(), &lost[..lost.len().min(6)]);
    }
    Ok(())
  }
}

pub fn execute(s: &Scenario) -> Result<CaseReport, Failure> {
  use std::mem::ManuallyDrop;
  use std::panic::{catch_unwind, AssertUnwindSafe};
  let reg = Registry::new();
  let mut tx: ManuallyDrop<Vec<H<dyn Tx>>> = ManuallyDrop::new(Vec::new());
  let mut rx: ManuallyDrop<Vec<H<dyn Rx>>> = ManuallyDrop::new(Vec::new());
  let mut tasks: ManuallyDrop<Vec<Task>> = ManuallyDrop::new(Vec::new());
  let pfail = |stage: &str, p: Box<dyn std::any::Any + Send>| {
    let msg = crate::panic_msg(&p);
    Failure::new(if stage == "teardown" { crate::panic_prop("C09", &["C04", "C09"]) } else { crate::panic_prop("C06", &["C01", "C02", "C03", "C04", "C06", "C07", "C09"]) }, format!("E2/{}/panic_{}/{}", s.flavour.name(), stage, crate::panic_site(&msg)), format!("panic inside the channel during {stage}: {msg}"))
  };
  let r = catch_unwind(AssertUnwindSafe(|| run_ops(s, &reg, &mut tx, &mut rx, &mut tasks)));
  let rep = match r {
    Ok(Ok(x)) => x,
    Ok(Err(f)) => return Err(f),
    Err(p) => return Err(pfail("op", p)),
  };
  // teardown of what is left (tasks are gone, senders are gone)
  let tasks = ManuallyDrop::into_inner(tasks);
  let mut txv = ManuallyDrop::into_inner(tx);
  let mut rxv = ManuallyDrop::into_inner(rx);
  let mut result: Result<(), Failure> = Ok(());
  if let Err(p) = catch_unwind(AssertUnwindSafe(move || drop(tasks))) {
    result = Err(pfail("teardown", p));
  }
  while let Some(h) = txv.pop() {
    if result.is_err() {
      std::mem::forget(h);
    } else if let Err(p) = catch_unwind(AssertUnwindSafe(move || drop(h))) {
      result = Err(pfail("teardown", p));
    }
  }
  while let Some(h) = rxv.pop() {
    if result.is_err() {
      std::mem::forget(h);
    } else if let Err(p) = catch_unwind(AssertUnwindSafe(move || drop(h))) {
      result = Err(pfail("teardown", p));
    }
  }
  result?;
  let dd = reg.double_drops();
  if !dd.is_empty() {
    return Err(Failure::new("C09", format!("E2/{}/double_drop", s.flavour.name()), format!("value(s) {:?} dropped more than once", dd)));
  }
  let live = reg.live();
  if !live.is_empty() {
    return Err(Failure::new("C09", format!("E2/{}/leak", s.flavour.name()), format!("{} value(s) never dropped after every handle and future is gone, e.g. {:?}", live.len(), &live[..live.len().min(5)])));
  }
  Ok(rep)
}

fn run_ops(s: &Scenario, reg: &Arc<Registry>, tx: &mut Vec<H<dyn Tx>>, rx: &mut Vec<H<dyn Rx>>, tasks: &mut Vec<Task>) -> Result<CaseReport, Failure> {
  let (t, r) = make(s.flavour, s.async_start, s.cap);
  tx.push(H { h: t, hid: 0, closed: false });
  rx.push(H { h: r, hid: 1, closed: false });
  let cap = if s.flavour.rendezvous() {
    Some(0)
  } else if s.flavour.unbounded() || s.flavour == Flavour::Broadcast {
    None
  } else if s.flavour == Flavour::Oneshot {
    Some(1)
  } else {
    Some(s.cap)
  };
  let mut run = Run {
    s,
    tx,
    rx,
    tasks,
    reg: reg.clone(),
    next_id: 0,
    next_hid: 2,
    now: 0,
    sends: BTreeMap::new(),
    received: BTreeSet::new(),
    rlog: BTreeMap::new(),
    rep: CaseReport::new(),
    nt_cancel_registered: false,
    nt_two_pending: false,
    nt_waker_replaced: false,
    nt_sync_completed_async: false,
    ev_cancel_woken: false,
    ev_woken_err: false,
    ev_own_close_pending: false,
    ev_two_tx: false,
    ev_two_rx: false,
    cap,
  };
  run.rep.class(format!("flavour:{}", s.flavour.name()));
  let trace = std::env::var("VERIF_TRACE").is_ok();
  for (i, op) in s.ops.iter().enumerate() {
    if trace {
      eprintln!("step {i} {op:?} tasks={:?} tx={:?} rx={:?}", run.tasks.iter().map(|t| (format!("{:?}", t.kind), t.woken())).collect::<Vec<_>>(), run.tx.iter().map(|h| (h.hid, h.closed)).collect::<Vec<_>>(), run.rx.iter().map(|h| (h.hid, h.closed)).collect::<Vec<_>>());
    }
    run.step(op).map_err(|mut f| {
      f.message = format!("step {i} {op:?}: {}", f.message);
      f
    })?;
    let dd = reg.double_drops();
    if !dd.is_empty() {
      return Err(Failure::new("C09", format!("E2/{}/double_drop", s.flavour.name()), format!("after step {i} {op:?}: value(s) {:?} dropped more than once", dd)));
    }
    // C03: "len() never exceeds capacity()" — observed on every live handle after every step
    if s.flavour.bounded() {
      let mut obs: Vec<(Option<usize>, Option<usize>)> = run.tx.iter().map(|h| (h.h.len(), h.h.capacity())).collect();
      obs.extend(run.rx.iter().map(|h| (h.h.len(), h.h.capacity())));
      for (l, c) in obs {
        if let (Some(l), Some(c)) = (l, c) {
          if l > c {
            return Err(Failure::new("C03", format!("E2/{}/len/len_exceeds_capacity", s.flavour.name()), format!("after step {i} {op:?}: len() {l} > capacity() {c}")));
          }
        }
      }
    }
  }
  run.finale().map_err(|mut f| {
    f.message = format!("finale: {}", f.message);
    f
  })?;
  let prop = crate::current_property();
  let mut rep = std::mem::take(&mut run.rep);
  let any_cancel = rep.classes.iter().any(|c| c.starts_with("cancel"));
  rep.nontrivial = match prop.as_str() {
    "C06" => (run.nt_two_pending && run.nt_cancel_registered) || run.nt_waker_replaced || run.nt_sync_completed_async,
    "C01" => any_cancel,
    "C09" => any_cancel,
    _ => run.nt_two_pending,
  };
  Ok(rep)
}
