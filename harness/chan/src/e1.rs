//! E1 — sequential stateful model-based testing of the point-to-point channels.
//!
//! A scenario is (flavour, start mode, capacity, ops).  Every op is applied to the real
//! channel and to a FIFO reference model and the two are compared after every step.  Because
//! the history is sequential every step has exactly one correct outcome (except the few
//! documented allowances), so the oracle is equality with the model.
//!
//! Blocking forms are only issued where the model proves they return without parking; futures
//! are polled once with a counting waker and dropped if still pending (a cancellation, which
//! must be harmless).

use crate::adapt::*;
use crate::payload::*;
use fibre::error::*;
use proptest::prelude::*;
use serde::{Deserialize, Serialize};
use std::collections::VecDeque;
use std::sync::Arc;
use std::task::{Context, Poll, Wake, Waker};
use std::time::Duration;
use vcore::{idx, CaseReport, Failure};

#[derive(Clone, Debug, Serialize, Deserialize, PartialEq)]
pub enum Op {
  TrySend(u16),
  /// blocking `send` on a sync handle / `send().await` polled once on an async handle
  Send(u16),
  TrySendBatch(u16, u16),
  SendBatch(u16, u16),
  TrySendBatchMut(u16, u16),
  SendBatchMut(u16, u16),
  CloseTx(u16),
  DropTx(u16),
  CloneTx(u16),
  ConvTx(u16),
  TryRecv(u16),
  Recv(u16),
  /// recv_timeout(0) or recv_timeout(1 ms)
  RecvTimeout(u16, bool),
  TryRecvBatch(u16, u16),
  RecvBatch(u16, u16),
  TryRecvBatchMut(u16, u16),
  RecvBatchMut(u16, u16),
  /// Stream::poll_next once
  Next(u16),
  CloseRx(u16),
  DropRx(u16),
  CloneRx(u16),
  ConvRx(u16),
  /// send k / receive k in lock-step chunks that fit the channel (forces wrap / recycling)
  Pump(u16),
}

#[derive(Clone, Debug, Serialize, Deserialize)]
pub struct Scenario {
  pub flavour: Flavour,
  pub async_start: bool,
  pub cap: usize,
  pub ops: Vec<Op>,
}

// ---------------------------------------------------------------------------------------------
// generation
// ---------------------------------------------------------------------------------------------

#[derive(Clone, Copy, Debug)]
pub struct Weights {
  pub send: u32,
  pub recv: u32,
  pub batch: u32,
  pub lifecycle: u32,
  pub pump: u32,
}

pub fn weights_for(property: &str) -> Weights {
  match property {
    "C02" => Weights { send: 6, recv: 5, batch: 8, lifecycle: 1, pump: 3 },
    "C03" => Weights { send: 9, recv: 4, batch: 6, lifecycle: 1, pump: 1 },
    "C04" => Weights { send: 5, recv: 5, batch: 4, lifecycle: 7, pump: 0 },
    "C09" => Weights { send: 8, recv: 3, batch: 6, lifecycle: 4, pump: 2 },
    _ => Weights { send: 6, recv: 6, batch: 6, lifecycle: 3, pump: 1 },
  }
}

fn batch_n(cap: usize) -> impl Strategy<Value = u16> {
  let c = cap.min(70) as u16;
  prop_oneof![
    4 => 0u16..4,
    3 => Just(c.saturating_sub(1)),
    3 => Just(c),
    3 => Just(c + 1),
    2 => Just(c * 2),
    1 => Just(130u16),
    1 => Just(300u16),
  ]
}

pub fn op_strategy(f: Flavour, cap: usize, w: Weights) -> BoxedStrategy<Op> {
  let h = any::<u16>();
  let batch_w = if f.has_batch() { w.batch } else { 0 };
  let pump_w = if f.has_batch() { w.pump } else { 0 };
  let half = |x: u32| if x == 0 { 0 } else { x / 2 + 1 };
  let opts: Vec<(u32, BoxedStrategy<Op>)> = vec![
    (w.send * 2, h.prop_map(Op::TrySend).boxed()),
    (w.send, h.prop_map(Op::Send).boxed()),
    (batch_w, (h, batch_n(cap)).prop_map(|(a, n)| Op::TrySendBatch(a, n)).boxed()),
    (half(batch_w), (h, batch_n(cap)).prop_map(|(a, n)| Op::SendBatch(a, n)).boxed()),
    (batch_w, (h, batch_n(cap)).prop_map(|(a, n)| Op::TrySendBatchMut(a, n)).boxed()),
    (half(batch_w), (h, batch_n(cap)).prop_map(|(a, n)| Op::SendBatchMut(a, n)).boxed()),
    (w.recv * 2, h.prop_map(Op::TryRecv).boxed()),
    (w.recv, h.prop_map(Op::Recv).boxed()),
    (half(w.recv), (h, any::<bool>()).prop_map(|(a, z)| Op::RecvTimeout(a, z)).boxed()),
    (batch_w, (h, batch_n(cap)).prop_map(|(a, n)| Op::TryRecvBatch(a, n)).boxed()),
    (half(batch_w), (h, batch_n(cap)).prop_map(|(a, n)| Op::RecvBatch(a, n)).boxed()),
    (batch_w, (h, batch_n(cap)).prop_map(|(a, n)| Op::TryRecvBatchMut(a, n)).boxed()),
    (half(batch_w), (h, batch_n(cap)).prop_map(|(a, n)| Op::RecvBatchMut(a, n)).boxed()),
    (half(w.recv), h.prop_map(Op::Next).boxed()),
    (w.lifecycle, h.prop_map(Op::CloseTx).boxed()),
    (w.lifecycle, h.prop_map(Op::DropTx).boxed()),
    (w.lifecycle * 2, h.prop_map(Op::CloneTx).boxed()),
    (w.lifecycle, h.prop_map(Op::ConvTx).boxed()),
    (w.lifecycle, h.prop_map(Op::CloseRx).boxed()),
    (w.lifecycle, h.prop_map(Op::DropRx).boxed()),
    (w.lifecycle * 2, h.prop_map(Op::CloneRx).boxed()),
    (w.lifecycle, h.prop_map(Op::ConvRx).boxed()),
    (pump_w, prop_oneof![1u16..20, 100u16..700, Just(1500u16)].prop_map(Op::Pump).boxed()),
  ];
  proptest::strategy::Union::new_weighted(opts.into_iter().filter(|(w, _)| *w > 0).collect()).boxed()
}

pub fn scenario_strategy(flavours: Vec<Flavour>, w: Weights, max_ops: usize) -> BoxedStrategy<Scenario> {
  let caps = prop_oneof![
    3 => Just(1usize), 3 => Just(2usize), 3 => Just(3usize), 2 => Just(4usize), 2 => Just(5usize),
    2 => Just(7usize), 1 => Just(8usize), 1 => Just(16usize), 1 => Just(64usize), 1 => Just(65usize)
  ];
  (proptest::sample::select(flavours), any::<bool>(), caps)
    .prop_flat_map(move |(f, a, cap)| {
      proptest::collection::vec(op_strategy(f, cap, w), 1..max_ops).prop_map(move |ops| Scenario { flavour: f, async_start: a, cap, ops })
    })
    .boxed()
}

// ---------------------------------------------------------------------------------------------
// poll-once helper
// ---------------------------------------------------------------------------------------------

pub struct CountWaker(pub std::sync::atomic::AtomicUsize);
impl Wake for CountWaker {
  fn wake(self: Arc<Self>) {
    self.0.fetch_add(1, std::sync::atomic::Ordering::SeqCst);
  }
}

/// Poll a future once; a pending future is dropped (cancelled).
pub fn poll_once<O>(mut fut: BoxFut<'_, O>) -> Option<O> {
  let w = Arc::new(CountWaker(Default::default()));
  let waker = Waker::from(w);
  let mut cx = Context::from_waker(&waker);
  match fut.as_mut().poll(&mut cx) {
    Poll::Ready(o) => Some(o),
    Poll::Pending => None,
  }
}

// ---------------------------------------------------------------------------------------------
// model
// ---------------------------------------------------------------------------------------------

#[derive(Clone, Debug)]
struct HSt {
  closed: bool,
  /// this receiver handle has reported Disconnected
  saw_disc: bool,
}

struct Model {
  f: Flavour,
  /// None = unbounded; Some(0) = rendezvous
  cap: Option<usize>,
  q: VecDeque<u32>,
  tx: Vec<HSt>,
  rx: Vec<HSt>,
  /// oneshot: a send has succeeded at some point
  one_sent: bool,
  /// oneshot: the value has been taken
  one_taken: bool,
  /// bounded mpsc: items drained since the consumer last observed the queue empty
  /// (credits the consumer may not have published to blocking / async senders yet)
  unpublished: usize,
}

impl Model {
  fn tx_alive(&self) -> bool {
    self.tx.iter().any(|h| !h.closed)
  }
  fn rx_alive(&self) -> bool {
    self.rx.iter().any(|h| !h.closed)
  }
  fn free(&self) -> usize {
    match self.cap {
      None => usize::MAX / 2,
      Some(c) => c.saturating_sub(self.q.len()),
    }
  }
}

pub struct Ctxt<'a> {
  pub prop_hint: &'a str,
}

fn sig(s: &Scenario, is_async: bool, form: &str, clause: &str) -> String {
  format!("E1/{}/{}/{}/{}", s.flavour.name(), if is_async { "async" } else { "sync" }, form, clause)
}

struct Run<'a> {
  s: &'a Scenario,
  m: Model,
  tx: &'a mut Vec<Box<dyn Tx>>,
  rx: &'a mut Vec<Box<dyn Rx>>,
  reg: Arc<Registry>,
  next_id: u32,
  /// ids whose send was reported successful
  sent_ok: Vec<u32>,
  received: Vec<u32>,
  rep: CaseReport,
  send_failed: bool,
  send_ok: bool,
  partial_batch: bool,
  wraps: u64,
  lifecycle_nt: (bool, bool, bool),
}

type R = Result<(), Failure>;

macro_rules! fail {
  ($prop:expr, $sig:expr, $($arg:tt)*) => {
    return Err(Failure::new($prop, $sig, format!($($arg)*)))
  };
}

impl<'a> Run<'a> {
  fn fresh(&mut self) -> Pay {
    let id = self.next_id;
    self.next_id += 1;
    Tracked::new(id, &self.reg)
  }
  fn fresh_n(&mut self, n: usize) -> Vec<Pay> {
    (0..n).map(|_| self.fresh()).collect()
  }

  /// closed-ness as the send side must see it
  fn send_closed(&self, h: usize) -> bool {
    self.m.tx[h].closed || !self.m.rx_alive()
  }

  // ---- expected results of the send forms -------------------------------------------------

  fn do_try_send(&mut self, h: usize) -> R {
    let a = self.tx[h].caps().futures;
    let v = self.fresh();
    let id = v.id;
    let r = self.tx[h].try_send(v);
    let form = "try_send";
    if self.s.flavour == Flavour::Oneshot {
      // consumed
      let closed = self.send_closed(h);
      let already = self.m.one_sent;
      self.tx.remove(h);
      self.m.tx.remove(h);
      match r {
        Ok(()) => {
          if closed {
            fail!("C04", sig(self.s, a, form, "accepted_on_closed"), "oneshot send returned Ok although the receiver is gone / sender closed");
          }
          if already {
            fail!("C03", sig(self.s, a, form, "second_send_ok"), "a second oneshot send returned Ok");
          }
          self.m.one_sent = true;
          self.m.q.push_back(id);
          self.sent_ok.push(id);
          self.send_ok = true;
        }
        Err(e) => {
          let (kind, back) = match e {
            TrySendError::Full(v) => ("Full", v),
            TrySendError::Closed(v) => ("Closed", v),
            TrySendError::Sent(v) => ("Sent", v),
          };
          self.send_failed = true;
          if back.id != id {
            fail!("C01", sig(self.s, a, form, "handback_identity"), "error handed back #{} instead of #{}", back.id, id);
          }
          if !closed && !already {
            fail!("C03", sig(self.s, a, form, "refused_first_send"), "first oneshot send failed with {kind} although the receiver is alive");
          }
          if kind == "Full" {
            fail!("C01", sig(self.s, a, form, "undocumented_result"), "oneshot send returned Full");
          }
          if kind == "Sent" && !already {
            fail!("C04", sig(self.s, a, form, "wrong_error"), "oneshot send returned Sent but nothing was sent");
          }
          if kind == "Closed" && !closed {
            fail!("C04", sig(self.s, a, form, "wrong_error"), "oneshot send returned Closed but receiver alive and handle open");
          }
        }
      }
      return Ok(());
    }
    let closed = self.send_closed(h);
    let self_closed = self.m.tx[h].closed;
    let full = self.m.free() == 0;
    match r {
      Ok(()) => {
        if closed {
          let c = if self_closed { "accepted_on_self_closed_handle" } else { "accepted_after_receivers_gone" };
          fail!("C04", sig(self.s, a, form, c), "try_send returned Ok on a closed channel/handle (#{id})");
        }
        if full {
          fail!("C03", sig(self.s, a, form, "accepted_when_full"), "try_send returned Ok with {} buffered of capacity {:?}", self.m.q.len(), self.m.cap);
        }
        self.m.q.push_back(id);
        self.sent_ok.push(id);
        self.send_ok = true;
      }
      Err(e) => {
        self.send_failed = true;
        let (kind, back) = match e {
          TrySendError::Full(v) => ("Full", v),
          TrySendError::Closed(v) => ("Closed", v),
          TrySendError::Sent(v) => ("Sent", v),
        };
        if back.id != id {
          fail!("C01", sig(self.s, a, form, "handback_identity"), "error handed back #{} instead of #{}", back.id, id);
        }
        drop(back);
        match kind {
          "Closed" => {
            if !closed {
              fail!("C04", sig(self.s, a, form, "closed_but_open"), "try_send failed Closed while a receiver is alive and the handle is open");
            }
          }
          "Full" => {
            if closed {
              fail!("C04", sig(self.s, a, form, "full_instead_of_closed"), "try_send reported Full on a closed channel/handle");
            }
            if !full {
              fail!("C03", sig(self.s, a, form, "false_full"), "try_send reported Full with {} buffered of capacity {:?}", self.m.q.len(), self.m.cap);
            }
          }
          _ => fail!("C01", sig(self.s, a, form, "undocumented_result"), "try_send returned Sent on a non-oneshot channel"),
        }
      }
    }
    Ok(())
  }

  /// blocking send / send future polled once
  fn do_send(&mut self, h: usize) -> R {
    let caps = self.tx[h].caps();
    if self.s.flavour == Flavour::Oneshot {
      return self.do_try_send(h);
    }
    let closed = self.send_closed(h);
    let self_closed = self.m.tx[h].closed;
    let full = self.m.free() == 0;
    // grey zone of the bounded mpsc: space the consumer has not published yet
    let grey = self.s.flavour == Flavour::MpscBounded && !full && self.m.q.len() + self.m.unpublished >= self.m.cap.unwrap();
    let a = caps.futures;
    if caps.blocking {
      // Issue the blocking form only where it returns whatever the closed flags say (space is
      // available and published): if a defect made a closed handle look open, a blocking
      // send into a full channel would park this single-threaded history forever.
      if full || grey {
        return self.do_try_send(h);
      }
      let v = self.fresh();
      let id = v.id;
      let r = self.tx[h].send(v);
      match r {
        Ok(()) => {
          if closed {
            let c = if self_closed { "accepted_on_self_closed_handle" } else { "accepted_after_receivers_gone" };
            fail!("C04", sig(self.s, a, "send", c), "send returned Ok on a closed channel/handle (#{id})");
          }
          self.m.q.push_back(id);
          self.sent_ok.push(id);
          self.send_ok = true;
        }
        Err(e) => {
          self.send_failed = true;
          if !closed {
            fail!("C04", sig(self.s, a, "send", "closed_but_open"), "send failed {e:?} on an open channel with space");
          }
          if e != SendError::Closed {
            fail!("C01", sig(self.s, a, "send", "undocumented_result"), "send returned {e:?}");
          }
        }
      }
      return Ok(());
    }
    // future
    let v = self.fresh();
    let id = v.id;
    let r = poll_once(self.tx[h].send_fut(v));
    self.rep.class("future_polled");
    match r {
      Some(Ok(())) => {
        if closed {
          let c = if self_closed { "accepted_on_self_closed_handle" } else { "accepted_after_receivers_gone" };
          fail!("C04", sig(self.s, a, "send_fut", c), "send future resolved Ok on a closed channel/handle (#{id})");
        }
        if full {
          fail!("C03", sig(self.s, a, "send_fut", "accepted_when_full"), "send future resolved Ok with {} buffered of capacity {:?}", self.m.q.len(), self.m.cap);
        }
        self.m.q.push_back(id);
        self.sent_ok.push(id);
        self.send_ok = true;
      }
      Some(Err(e)) => {
        self.send_failed = true;
        if !closed {
          fail!("C04", sig(self.s, a, "send_fut", "closed_but_open"), "send future failed {e:?} on an open channel");
        }
      }
      None => {
        // cancelled: the value is dropped with the future; nothing was sent
        self.rep.class("future_cancelled_pending");
        self.send_failed = true;
        if closed {
          fail!("C04", sig(self.s, a, "send_fut", "pending_on_closed"), "send future is Pending although the channel/handle is closed");
        }
        if !full && !grey {
          fail!("C06", sig(self.s, a, "send_fut", "pending_with_space"), "send future is Pending with {} buffered of capacity {:?}", self.m.q.len(), self.m.cap);
        }
      }
    }
    Ok(())
  }

  /// shared checker for the four try-batch/batch by-value and in-place forms
  #[allow(clippy::too_many_arguments)]
  fn check_batch_outcome(&mut self, a: bool, form: &str, ids: &[u32], sent: usize, unsent: &[u32], closed_reported: Option<bool>, ok: bool, closed: bool, self_closed: bool, may_block: bool) -> R {
    let n = ids.len();
    if sent + unsent.len() != n {
      fail!("C01", sig(self.s, a, form, "batch_accounting"), "sent {} + unsent {} != input {}", sent, unsent.len(), n);
    }
    if unsent != &ids[sent..] {
      fail!("C01", sig(self.s, a, form, "batch_unsent_order"), "unsent {:?} is not the input suffix {:?}", unsent, &ids[sent..]);
    }
    if n == 0 {
      if !ok {
        // empty input: "returns Ok(0) immediately with no channel interaction"; an error on a
        // closed handle is tolerated, anything else is not
        if !closed {
          fail!("C01", sig(self.s, a, form, "empty_batch_error"), "empty batch failed on an open channel");
        }
      }
      return Ok(());
    }
    let free = self.m.free();
    if closed {
      if sent != 0 || ok {
        let c = if self_closed { "accepted_on_self_closed_handle" } else { "accepted_after_receivers_gone" };
        fail!("C04", sig(self.s, a, form, c), "batch sent {} items on a closed channel/handle", sent);
      }
      if closed_reported == Some(false) {
        fail!("C04", sig(self.s, a, form, "full_instead_of_closed"), "batch on closed channel reported Full");
      }
      self.send_failed = true;
      return Ok(());
    }
    let expect = if may_block { n } else { n.min(free) };
    if sent > free {
      fail!("C03", sig(self.s, a, form, "accepted_when_full"), "batch sent {} with only {} free (cap {:?})", sent, free, self.m.cap);
    }
    if sent != expect {
      fail!("C03", sig(self.s, a, form, "false_full"), "batch sent {} but {} fit (free {}, cap {:?})", sent, expect, free, self.m.cap);
    }
    if ok != (sent == n) {
      fail!("C01", sig(self.s, a, form, "batch_result_shape"), "Ok-ness {} inconsistent with sent {} of {}", ok, sent, n);
    }
    if closed_reported == Some(true) {
      fail!("C04", sig(self.s, a, form, "closed_but_open"), "batch reported Closed on an open channel");
    }
    for id in &ids[..sent] {
      self.m.q.push_back(*id);
      self.sent_ok.push(*id);
    }
    if sent > 0 {
      self.send_ok = true;
    }
    if sent < n {
      self.send_failed = true;
      if sent > 0 {
        self.partial_batch = true;
      }
    }
    Ok(())
  }

  fn do_send_batch(&mut self, h: usize, n: usize, try_form: bool, in_place: bool) -> R {
    let caps = self.tx[h].caps();
    if !caps.batch {
      return if try_form { self.do_try_send(h) } else { self.do_send(h) };
    }
    let a = caps.futures;
    let closed = self.send_closed(h);
    let self_closed = self.m.tx[h].closed;
    let free = self.m.free();
    let grey_free = if self.s.flavour == Flavour::MpscBounded { self.m.cap.unwrap().saturating_sub(self.m.q.len() + self.m.unpublished) } else { free };
    let mut try_form = try_form;
    if !try_form && caps.blocking && n > grey_free {
      try_form = true; // the blocking form would (or, were a closed flag lost, could) park
    }
    let items = self.fresh_n(n);
    let ids = ids(&items);
    self.rep.class("batch_send");
    if try_form {
      if in_place {
        let mut v = items;
        let r = self.tx[h].try_send_batch_mut(&mut v);
        let left = crate::payload::ids(&v);
        drop(v);
        match r {
          Ok(k) => {
            // Ok(k): k sent, remainder left in place (k < n means Full or closed mid-way)
            if closed && k == 0 && n > 0 {
              fail!("C04", sig(self.s, a, "try_send_batch_mut", "ok_on_closed"), "in-place try batch returned Ok(0) on a closed channel/handle instead of Err(Closed)");
            }
            self.check_batch_outcome(a, "try_send_batch_mut", &ids, k, &left, None, k == n, closed, self_closed, false)
          }
          Err(e) => {
            if e != SendError::Closed {
              fail!("C01", sig(self.s, a, "try_send_batch_mut", "undocumented_result"), "{e:?}");
            }
            self.check_batch_outcome(a, "try_send_batch_mut", &ids, n - left.len(), &left, Some(true), false, closed, self_closed, false)
          }
        }
      } else {
        let r = self.tx[h].try_send_batch(items);
        match r {
          Ok(k) => {
            if k != n {
              fail!("C01", sig(self.s, a, "try_send_batch", "batch_result_shape"), "Ok({k}) for a batch of {n}");
            }
            self.check_batch_outcome(a, "try_send_batch", &ids, k, &[], None, true, closed, self_closed, false)
          }
          Err(e) => {
            let left = crate::payload::ids(&e.unsent);
            let cr = matches!(e.reason, BatchSendErrorReason::Closed);
            let sent = e.sent;
            drop(e);
            self.check_batch_outcome(a, "try_send_batch", &ids, sent, &left, Some(cr), false, closed, self_closed, false)
          }
        }
      }
    } else if caps.blocking {
      if in_place {
        let mut v = items;
        let r = self.tx[h].send_batch_mut(&mut v);
        let left = crate::payload::ids(&v);
        drop(v);
        match r {
          Ok(k) => self.check_batch_outcome(a, "send_batch_mut", &ids, k, &left, None, true, closed, self_closed, true),
          Err(_) => self.check_batch_outcome(a, "send_batch_mut", &ids, n - left.len(), &left, Some(true), false, closed, self_closed, true),
        }
      } else {
        let r = self.tx[h].send_batch(items);
        match r {
          Ok(k) => self.check_batch_outcome(a, "send_batch", &ids, k, &[], None, true, closed, self_closed, true),
          Err(e) => {
            let left = crate::payload::ids(&e.unsent);
            let sent = e.sent;
            drop(e);
            self.check_batch_outcome(a, "send_batch", &ids, sent, &left, Some(true), false, closed, self_closed, true)
          }
        }
      }
    } else {
      // futures, polled once
      self.rep.class("future_polled");
      let fits = n <= grey_free;
      let in_grey = !fits && n <= free;
      if in_place {
        let mut v = items;
        let r = poll_once(self.tx[h].send_batch_mut_fut(&mut v));
        let left = crate::payload::ids(&v);
        drop(v);
        match r {
          Some(Ok(k)) => self.check_batch_outcome(a, "send_batch_mut_fut", &ids, k, &left, None, true, closed, self_closed, true),
          Some(Err(_)) => self.check_batch_outcome(a, "send_batch_mut_fut", &ids, n - left.len(), &left, Some(true), false, closed, self_closed, true),
          None => {
            // cancel-safe: the unsent tail stays with the caller; the sent prefix is in the channel
            self.rep.class("future_cancelled_pending");
            if closed {
              fail!("C04", sig(self.s, a, "send_batch_mut_fut", "pending_on_closed"), "in-place batch future Pending on a closed channel/handle");
            }
            if fits {
              fail!("C06", sig(self.s, a, "send_batch_mut_fut", "pending_with_space"), "in-place batch future Pending although all {n} items fit ({free} free)");
            }
            let sent = n - left.len();
            if left != ids[sent..] {
              fail!("C01", sig(self.s, a, "send_batch_mut_fut", "batch_unsent_order"), "after cancellation the caller's vector {:?} is not the input suffix", left);
            }
            if sent > free {
              fail!("C03", sig(self.s, a, "send_batch_mut_fut", "accepted_when_full"), "cancelled batch future had sent {sent} with {free} free");
            }
            if !in_grey && sent != n.min(free) && self.s.flavour != Flavour::MpscBounded {
              fail!("C03", sig(self.s, a, "send_batch_mut_fut", "false_full"), "cancelled batch future had sent {sent}, {} fit", n.min(free));
            }
            for id in &ids[..sent] {
              self.m.q.push_back(*id);
              self.sent_ok.push(*id);
            }
            if sent > 0 {
              self.partial_batch = true;
              self.send_ok = true;
            }
            self.send_failed = true;
            Ok(())
          }
        }
      } else {
        let r = poll_once(self.tx[h].send_batch_fut(items));
        match r {
          Some(Ok(k)) => self.check_batch_outcome(a, "send_batch_fut", &ids, k, &[], None, true, closed, self_closed, true),
          Some(Err(e)) => {
            let left = crate::payload::ids(&e.unsent);
            let sent = e.sent;
            drop(e);
            self.check_batch_outcome(a, "send_batch_fut", &ids, sent, &left, Some(true), false, closed, self_closed, true)
          }
          None => {
            // by-value batch future cancelled: unsent remainder dropped; the prefix already
            // written stays in the channel.  We learn the prefix from the channel length.
            self.rep.class("future_cancelled_pending");
            if closed {
              fail!("C04", sig(self.s, a, "send_batch_fut", "pending_on_closed"), "batch future Pending on a closed channel/handle");
            }
            if fits {
              fail!("C06", sig(self.s, a, "send_batch_fut", "pending_with_space"), "batch future Pending although all {n} items fit ({free} free)");
            }
            // the prefix that went in is whatever fit (grey zone: anything up to free)
            let now = self.tx[h].len().unwrap_or(self.m.q.len());
            let sent = now.saturating_sub(self.m.q.len());
            if sent > free {
              fail!("C03", sig(self.s, a, "send_batch_fut", "accepted_when_full"), "cancelled batch future had sent {sent} with {free} free");
            }
            if self.s.flavour != Flavour::MpscBounded && sent != n.min(free) {
              fail!("C03", sig(self.s, a, "send_batch_fut", "false_full"), "cancelled batch future had sent {sent}, {} fit", n.min(free));
            }
            for id in &ids[..sent.min(n)] {
              self.m.q.push_back(*id);
              self.sent_ok.push(*id);
            }
            if sent > 0 {
              self.partial_batch = true;
              self.send_ok = true;
            }
            self.send_failed = true;
            Ok(())
          }
        }
      }
    }
  }

  // ---- receive forms ----------------------------------------------------------------------

  fn note_drain(&mut self, k: usize) {
    self.m.unpublished += k;
  }
  fn note_empty_seen(&mut self) {
    self.m.unpublished = 0;
  }

  /// verify a successful single receive against the model
  fn got(&mut self, a: bool, form: &str, h: usize, id: u32) -> R {
    if self.m.rx[h].closed {
      fail!("C04", sig(self.s, a, form, "value_on_self_closed_handle"), "a self-closed receiver obtained #{id}");
    }
    if self.m.rx[h].saw_disc {
      fail!("C04", sig(self.s, a, form, "value_after_disconnected"), "receiver obtained #{id} after it had reported Disconnected");
    }
    match self.m.q.front().copied() {
      None => {
        if self.received.contains(&id) {
          fail!("C01", sig(self.s, a, form, "duplicate"), "#{id} received twice");
        }
        fail!("C01", sig(self.s, a, form, "phantom"), "received #{id} but the model queue is empty (never sent / send reported failure)");
      }
      Some(f) if f == id => {
        self.m.q.pop_front();
        if self.s.flavour == Flavour::Oneshot {
          self.m.one_taken = true;
        }
        self.received.push(id);
        self.note_drain(1);
        Ok(())
      }
      Some(f) => {
        if self.received.contains(&id) {
          fail!("C01", sig(self.s, a, form, "duplicate"), "#{id} received twice");
        }
        if !self.m.q.contains(&id) {
          fail!("C01", sig(self.s, a, form, "phantom"), "received #{id} which is not in flight");
        }
        fail!("C02", sig(self.s, a, form, "fifo_order"), "received #{id} but the oldest buffered value is #{f}");
      }
    }
  }

  /// verify a failed (non-timeout) receive: `disc` = reported Disconnected, else Empty
  fn not_got(&mut self, a: bool, form: &str, h: usize, disc: bool) -> R {
    let self_closed = self.m.rx[h].closed;
    if self_closed {
      if !disc {
        fail!("C04", sig(self.s, a, form, "self_closed_not_rejected"), "a self-closed receiver reported Empty instead of rejecting the operation");
      }
      return Ok(());
    }
    let oneshot_after = self.s.flavour == Flavour::Oneshot && self.m.one_taken;
    if !self.m.q.is_empty() {
      if disc {
        // also C01 ("... provided some receiver keeps receiving until it observes Disconnected")
        let dp = if crate::current_property() == "C01" { "C01" } else { "C04" };
        fail!(dp, sig(self.s, a, form, "disconnected_before_drained"), "reported Disconnected with {} value(s) still buffered", self.m.q.len());
      }
      fail!("C01", sig(self.s, a, form, "empty_but_buffered"), "reported Empty with {} value(s) buffered (front #{})", self.m.q.len(), self.m.q[0]);
    }
    self.note_empty_seen();
    let tx_alive = self.m.tx_alive();
    if oneshot_after {
      // after the value was taken Empty or Disconnected are both acceptable
      if disc {
        self.m.rx[h].saw_disc = true;
      }
      return Ok(());
    }
    if disc && tx_alive {
      fail!("C04", sig(self.s, a, form, "disconnected_with_live_sender"), "reported Disconnected while {} sender handle(s) are alive", self.m.tx.iter().filter(|h| !h.closed).count());
    }
    if !disc && !tx_alive {
      fail!("C04", sig(self.s, a, form, "empty_after_senders_gone"), "reported Empty although every sender is gone and the buffer is drained");
    }
    if disc {
      self.m.rx[h].saw_disc = true;
    }
    Ok(())
  }

  fn can_recv_now(&self, h: usize) -> bool {
    self.m.rx[h].closed || !self.m.q.is_empty() || !self.m.tx_alive()
  }
  /// the blocking form returns even if this handle's own closed flag were lost
  fn blocking_recv_safe(&self) -> bool {
    !self.m.q.is_empty() || !self.m.tx_alive()
  }

  fn do_try_recv(&mut self, h: usize) -> R {
    let a = self.rx[h].caps().futures;
    match self.rx[h].try_recv() {
      Ok(v) => self.got(a, "try_recv", h, v.id),
      Err(TryRecvError::Empty) => self.not_got(a, "try_recv", h, false),
      Err(TryRecvError::Disconnected) => self.not_got(a, "try_recv", h, true),
    }
  }

  fn do_recv(&mut self, h: usize) -> R {
    let caps = self.rx[h].caps();
    let a = caps.futures;
    if caps.blocking {
      if !self.blocking_recv_safe() {
        return self.do_try_recv(h);
      }
      match self.rx[h].recv() {
        Ok(v) => self.got(a, "recv", h, v.id),
        Err(RecvError::Disconnected) => self.not_got(a, "recv", h, true),
      }
    } else {
      self.rep.class("future_polled");
      let can = self.can_recv_now(h);
      match poll_once(self.rx[h].recv_fut()) {
        Some(Ok(v)) => self.got(a, "recv_fut", h, v.id),
        Some(Err(RecvError::Disconnected)) => self.not_got(a, "recv_fut", h, true),
        None => {
          self.rep.class("future_cancelled_pending");
          if self.m.rx[h].closed {
            fail!("C04", sig(self.s, a, "recv_fut", "self_closed_not_rejected"), "recv future on a self-closed receiver is Pending instead of rejecting the operation");
          }
          if can {
            let oneshot_after = self.s.flavour == Flavour::Oneshot && self.m.one_taken;
            if !oneshot_after || !self.m.tx_alive() {
              fail!("C06", sig(self.s, a, "recv_fut", "pending_but_ready"), "recv future Pending with {} buffered, senders alive: {}, self-closed: {}", self.m.q.len(), self.m.tx_alive(), self.m.rx[h].closed);
            }
          }
          self.note_empty_seen();
          Ok(())
        }
      }
    }
  }

  fn do_next(&mut self, h: usize) -> R {
    let caps = self.rx[h].caps();
    if !caps.stream {
      return self.do_recv(h);
    }
    let can = self.can_recv_now(h);
    self.rep.class("stream_polled");
    match poll_once(self.rx[h].next_fut()) {
      Some(Some(v)) => self.got(true, "stream_next", h, v.id),
      Some(None) => self.not_got(true, "stream_next", h, true),
      None => {
        if self.m.rx[h].closed {
          fail!("C04", sig(self.s, true, "stream_next", "self_closed_not_rejected"), "stream of a self-closed receiver is Pending instead of ending");
        }
        if can {
          fail!("C06", sig(self.s, true, "stream_next", "pending_but_ready"), "stream Pending with {} buffered, senders alive: {}", self.m.q.len(), self.m.tx_alive());
        }
        self.note_empty_seen();
        Ok(())
      }
    }
  }

  fn do_recv_timeout(&mut self, h: usize, zero: bool) -> R {
    let caps = self.rx[h].caps();
    if !caps.timeout {
      return self.do_recv(h);
    }
    let d = if zero { Duration::ZERO } else { Duration::from_millis(1) };
    let a = caps.futures;
    self.rep.class("recv_timeout");
    match self.rx[h].recv_timeout(d) {
      Ok(v) => self.got(a, "recv_timeout", h, v.id),
      Err(RecvErrorTimeout::Disconnected) => self.not_got(a, "recv_timeout", h, true),
      Err(RecvErrorTimeout::Timeout) => {
        if self.m.rx[h].closed {
          fail!("C04", sig(self.s, a, "recv_timeout", "self_closed_not_rejected"), "a self-closed receiver waited and reported Timeout instead of rejecting the operation");
        }
        if !self.m.q.is_empty() {
          fail!("C01", sig(self.s, a, "recv_timeout", "empty_but_buffered"), "Timeout with {} value(s) buffered", self.m.q.len());
        }
        if !self.m.tx_alive() && !(self.s.flavour == Flavour::Oneshot && self.m.one_taken) {
          fail!("C04", sig(self.s, a, "recv_timeout", "empty_after_senders_gone"), "Timeout although every sender is gone and the buffer is drained");
        }
        self.note_empty_seen();
        Ok(())
      }
    }
  }

  fn got_batch(&mut self, a: bool, form: &str, h: usize, got: &[u32], max: usize, prev_len: usize) -> R {
    if got.len() > max {
      fail!("C01", sig(self.s, a, form, "batch_exceeds_max"), "returned {} items for max {}", got.len(), max);
    }
    for id in got {
      self.got(a, form, h, *id)?;
    }
    // 1..=max items "drain up to max without further waiting": in a sequential history
    // everything buffered is visible, so the batch takes min(max, len)
    let expect = max.min(prev_len);
    if got.len() != expect {
      fail!("C01", sig(self.s, a, form, "batch_short"), "returned {} items, {} were buffered (max {})", got.len(), prev_len, max);
    }
    Ok(())
  }

  fn do_recv_batch(&mut self, h: usize, max: usize, try_form: bool, in_place: bool) -> R {
    let caps = self.rx[h].caps();
    if !caps.batch {
      return if try_form { self.do_try_recv(h) } else { self.do_recv(h) };
    }
    let a = caps.futures;
    let mut try_form = try_form;
    if !try_form && caps.blocking && max > 0 && !self.blocking_recv_safe() {
      try_form = true;
    }
    self.rep.class("batch_recv");
    let prev_len = self.m.q.len();
    let self_closed = self.m.rx[h].closed;
    // outcome: Ok(ids) | Err(disc?) | Pending
    enum O {
      Got(Vec<u32>),
      Err(bool),
      Pending,
    }
    let sentinel = 7usize; // pre-existing elements of the caller's vector must be untouched
    let mut out: Vec<Pay> = Vec::new();
    if in_place {
      for _ in 0..sentinel {
        out.push(Tracked::new(u32::MAX - 1, &self.reg));
      }
    }
    let (form, o): (&str, O) = if try_form {
      if in_place {
        let r = self.rx[h].try_recv_batch_mut(&mut out, max);
        ("try_recv_batch_mut", match r {
          Ok(k) => {
            let got = ids(&out[sentinel.min(out.len())..]);
            if got.len() != k || out.len() != sentinel + k {
              fail!("C01", sig(self.s, a, "try_recv_batch_mut", "append_count"), "returned {k} but appended {}", out.len() as i64 - sentinel as i64);
            }
            O::Got(got)
          }
          Err(TryRecvError::Empty) => O::Err(false),
          Err(TryRecvError::Disconnected) => O::Err(true),
        })
      } else {
        ("try_recv_batch", match self.rx[h].try_recv_batch(max) {
          Ok(v) => O::Got(ids(&v)),
          Err(TryRecvError::Empty) => O::Err(false),
          Err(TryRecvError::Disconnected) => O::Err(true),
        })
      }
    } else if caps.blocking {
      if in_place {
        let r = self.rx[h].recv_batch_mut(&mut out, max);
        ("recv_batch_mut", match r {
          Ok(k) => {
            let got = ids(&out[sentinel.min(out.len())..]);
            if got.len() != k || out.len() != sentinel + k {
              fail!("C01", sig(self.s, a, "recv_batch_mut", "append_count"), "returned {k} but appended {}", out.len() as i64 - sentinel as i64);
            }
            O::Got(got)
          }
          Err(RecvError::Disconnected) => O::Err(true),
        })
      } else {
        ("recv_batch", match self.rx[h].recv_batch(max) {
          Ok(v) => O::Got(ids(&v)),
          Err(RecvError::Disconnected) => O::Err(true),
        })
      }
    } else {
      self.rep.class("future_polled");
      if in_place {
        let r = poll_once(self.rx[h].recv_batch_mut_fut(&mut out, max));
        ("recv_batch_mut_fut", match r {
          Some(Ok(k)) => {
            let got = ids(&out[sentinel.min(out.len())..]);
            if got.len() != k || out.len() != sentinel + k {
              fail!("C01", sig(self.s, a, "recv_batch_mut_fut", "append_count"), "returned {k} but appended {}", out.len() as i64 - sentinel as i64);
            }
            O::Got(got)
          }
          Some(Err(RecvError::Disconnected)) => O::Err(true),
          None => O::Pending,
        })
      } else {
        ("recv_batch_fut", match poll_once(self.rx[h].recv_batch_fut(max)) {
          Some(Ok(v)) => O::Got(ids(&v)),
          Some(Err(RecvError::Disconnected)) => O::Err(true),
          None => O::Pending,
        })
      }
    };
    if in_place {
      let keep = ids(&out[..sentinel.min(out.len())]);
      if keep.len() != sentinel || keep.iter().any(|i| *i != u32::MAX - 1) {
        fail!("C01", sig(self.s, a, form, "clobbered_out_vec"), "pre-existing elements of the output vector were changed");
      }
      if matches!(o, O::Err(_) | O::Pending) && out.len() != sentinel {
        fail!("C01", sig(self.s, a, form, "failed_recv_consumed"), "a failed batch receive appended {} items", out.len() - sentinel);
      }
    }
    drop(out);
    match o {
      O::Got(got) => {
        if max == 0 {
          if !got.is_empty() {
            fail!("C01", sig(self.s, a, form, "batch_exceeds_max"), "max 0 returned items");
          }
          return Ok(());
        }
        if got.is_empty() {
          fail!("C01", sig(self.s, a, form, "empty_ok_batch"), "Ok with zero items for max {max} (must be 1..=max)");
        }
        self.got_batch(a, form, h, &got, max, prev_len)
      }
      O::Err(disc) => {
        if max == 0 && !self_closed {
          fail!("C01", sig(self.s, a, form, "max0_error"), "max == 0 must return Ok(empty) without touching the channel");
        }
        if max == 0 {
          return Ok(());
        }
        self.not_got(a, form, h, disc)
      }
      O::Pending => {
        self.rep.class("future_cancelled_pending");
        if self_closed {
          fail!("C04", sig(self.s, a, form, "self_closed_not_rejected"), "batch recv future on a self-closed receiver is Pending instead of rejecting the operation");
        }
        if max == 0 || self.can_recv_now(h) {
          fail!("C06", sig(self.s, a, form, "pending_but_ready"), "batch recv future Pending with {} buffered / max {max}", self.m.q.len());
        }
        self.note_empty_seen();
        Ok(())
      }
    }
  }

  // ---- lifecycle --------------------------------------------------------------------------

  fn do_close_tx(&mut self, h: usize) -> R {
    let a = self.tx[h].caps().futures;
    let was = self.m.tx[h].closed;
    let r = self.tx[h].close();
    self.rep.class("close");
    match (was, r) {
      (false, Ok(())) => {
        self.m.tx[h].closed = true;
        if self.m.tx_alive() {
          self.lifecycle_nt.0 = true
        } else {
          self.lifecycle_nt.1 = true
        }
        Ok(())
      }
      (true, Err(CloseError)) => Ok(()),
      (false, Err(_)) => fail!("C04", sig(self.s, a, "close_tx", "first_close_failed"), "first close() of a sender returned CloseError"),
      (true, Ok(())) => fail!("C04", sig(self.s, a, "close_tx", "second_close_ok"), "second close() of a sender returned Ok"),
    }
  }
  fn do_close_rx(&mut self, h: usize) -> R {
    let a = self.rx[h].caps().futures;
    let was = self.m.rx[h].closed;
    let r = self.rx[h].close();
    self.rep.class("close");
    match (was, r) {
      (false, Ok(())) => {
        self.m.rx[h].closed = true;
        if self.m.rx_alive() {
          self.lifecycle_nt.0 = true
        } else {
          self.lifecycle_nt.1 = true
        }
        Ok(())
      }
      (true, Err(CloseError)) => Ok(()),
      (false, Err(_)) => fail!("C04", sig(self.s, a, "close_rx", "first_close_failed"), "first close() of a receiver returned CloseError"),
      (true, Ok(())) => fail!("C04", sig(self.s, a, "close_rx", "second_close_ok"), "second close() of a receiver returned Ok"),
    }
  }

  fn observe(&mut self) -> R {
    let len = self.m.q.len();
    let f = self.s.flavour;
    if f == Flavour::Oneshot {
      return Ok(());
    }
    let cap_expect = match self.m.cap {
      None => None,
      Some(c) => Some(c),
    };
    // observers on every live handle (also self-closed ones: they still refer to the channel)
    let mut obs: Vec<(bool, &'static str, Option<usize>, Option<usize>, Option<bool>, Option<bool>)> = Vec::new();
    for t in self.tx.iter() {
      obs.push((t.caps().futures, "tx", t.capacity(), t.len(), t.is_empty(), t.is_full()));
    }
    for r in self.rx.iter() {
      obs.push((r.caps().futures, "rx", r.capacity(), r.len(), r.is_empty(), r.is_full()));
    }
    for (a, side, cap, l, e, fu) in obs {
      if let (Some(c), Some(l)) = (cap, l) {
        if l > c && !f.unbounded() && !f.rendezvous() {
          fail!("C03", sig(self.s, a, &format!("{side}.len"), "len_exceeds_capacity"), "len() {} > capacity() {}", l, c);
        }
      }
      if let (Some(c), Some(ce)) = (cap, cap_expect) {
        if !f.unbounded() && c != ce {
          fail!("C03", sig(self.s, a, &format!("{side}.capacity"), "capacity_mismatch"), "capacity() {} != configured {}", c, ce);
        }
      }
      // once no receiver is left the buffered values are unobservable and the channel may
      // already have destroyed them (C09 allows that): only the upper bound is checked
      let rx_gone = !self.m.rx_alive();
      if rx_gone {
        if let Some(l) = l {
          if l > len {
            fail!("C02", sig(self.s, a, &format!("{side}.len"), "len_mismatch"), "len() {} but the FIFO model holds {}", l, len);
          }
        }
        continue;
      }
      if let Some(l) = l {
        if l != len {
          fail!("C02", sig(self.s, a, &format!("{side}.len"), "len_mismatch"), "len() {} but the FIFO model holds {}", l, len);
        }
      }
      if let Some(e) = e {
        if e != (len == 0) {
          fail!("C02", sig(self.s, a, &format!("{side}.is_empty"), "is_empty_mismatch"), "is_empty() {} with {} buffered", e, len);
        }
      }
      if let (Some(fu), Some(c)) = (fu, self.m.cap) {
        if c > 0 && fu != (len >= c) {
          fail!("C03", sig(self.s, a, &format!("{side}.is_full"), "is_full_mismatch"), "is_full() {} with {} buffered of {}", fu, len, c);
        }
      }
    }
    Ok(())
  }

  fn pump(&mut self, k: usize) -> R {
    // needs an open sync-or-async pair; uses try forms only (never parks)
    let Some(th) = (0..self.tx.len()).find(|i| !self.m.tx[*i].closed) else { return Ok(()) };
    let Some(rh) = (0..self.rx.len()).find(|i| !self.m.rx[*i].closed) else { return Ok(()) };
    if self.s.flavour == Flavour::Oneshot || self.s.flavour.rendezvous() {
      return Ok(());
    }
    self.rep.class("pump");
    let mut left = k;
    let mut round = 0;
    while left > 0 {
      let free = self.m.free().min(257);
      if free == 0 {
        // drain something first
        self.do_try_recv(rh)?;
        continue;
      }
      let n = left.min(free);
      round += 1;
      if self.s.flavour.has_batch() && round % 2 == 0 {
        self.do_send_batch(th, n, true, round % 4 == 0)?;
      } else {
        for _ in 0..n {
          self.do_try_send(th)?;
        }
      }
      // drain everything, alternating forms
      while !self.m.q.is_empty() {
        if self.s.flavour.has_batch() && round % 3 == 0 {
          self.do_recv_batch(rh, 64, true, round % 2 == 0)?;
        } else {
          self.do_try_recv(rh)?;
        }
      }
      left -= n;
      self.wraps += n as u64;
    }
    Ok(())
  }

  fn step(&mut self, op: &Op) -> R {
    let ntx = self.tx.len();
    let nrx = self.rx.len();
    match op {
      Op::TrySend(i) | Op::Send(i) | Op::TrySendBatch(i, _) | Op::SendBatch(i, _) | Op::TrySendBatchMut(i, _) | Op::SendBatchMut(i, _) if ntx > 0 => {
        if self.m.tx[idx(*i, ntx)].closed {
          self.lifecycle_nt.2 = true
        }
      }
      Op::TryRecv(i) | Op::Recv(i) | Op::RecvTimeout(i, _) | Op::TryRecvBatch(i, _) | Op::RecvBatch(i, _) | Op::TryRecvBatchMut(i, _) | Op::RecvBatchMut(i, _) | Op::Next(i) if nrx > 0 => {
        if self.m.rx[idx(*i, nrx)].closed {
          self.lifecycle_nt.2 = true
        }
      }
      _ => {}
    }
    match op {
      Op::TrySend(i) if ntx > 0 => self.do_try_send(idx(*i, ntx)),
      Op::Send(i) if ntx > 0 => self.do_send(idx(*i, ntx)),
      Op::TrySendBatch(i, n) if ntx > 0 => self.do_send_batch(idx(*i, ntx), *n as usize, true, false),
      Op::SendBatch(i, n) if ntx > 0 => self.do_send_batch(idx(*i, ntx), *n as usize, false, false),
      Op::TrySendBatchMut(i, n) if ntx > 0 => self.do_send_batch(idx(*i, ntx), *n as usize, true, true),
      Op::SendBatchMut(i, n) if ntx > 0 => self.do_send_batch(idx(*i, ntx), *n as usize, false, true),
      Op::CloseTx(i) if ntx > 0 => self.do_close_tx(idx(*i, ntx)),
      Op::DropTx(i) if ntx > 0 => {
        let h = idx(*i, ntx);
        let was_closed = self.m.tx[h].closed;
        drop(self.tx.remove(h));
        self.m.tx.remove(h);
        self.rep.class("drop_handle");
        if !was_closed {
          if self.m.tx_alive() {
            self.lifecycle_nt.0 = true
          } else {
            self.lifecycle_nt.1 = true
          }
        }
        Ok(())
      }
      Op::CloneTx(i) if ntx > 0 && ntx < 4 => {
        let h = idx(*i, ntx);
        // precondition: only open handles are cloned.  What a clone of a close()d handle
        // should be is not specified (fibre hands out an open handle, which can re-connect a
        // channel whose receiver already reported Disconnected) — not generated.
        if self.m.tx[h].closed {
          return Ok(());
        }
        if let Some(c) = self.tx[h].try_clone() {
          self.tx.push(c);
          // a clone is a fresh, open handle of the same channel
          self.m.tx.push(HSt { closed: false, saw_disc: false });
          self.rep.class("clone");
          if self.m.tx[h].closed {
            self.rep.class("clone_of_closed_handle");
          }
        }
        Ok(())
      }
      Op::ConvTx(i) if ntx > 0 => {
        let h = idx(*i, ntx);
        let b = self.tx.remove(h);
        let st = self.m.tx.remove(h);
        match b.convert() {
          Ok(n) => {
            self.rep.class("convert");
            if st.closed {
              self.rep.class("convert_closed_handle");
            }
            self.tx.insert(h, n);
          }
          Err(o) => self.tx.insert(h, o),
        }
        self.m.tx.insert(h, st);
        Ok(())
      }
      Op::TryRecv(i) if nrx > 0 => self.do_try_recv(idx(*i, nrx)),
      Op::Recv(i) if nrx > 0 => self.do_recv(idx(*i, nrx)),
      Op::RecvTimeout(i, z) if nrx > 0 => self.do_recv_timeout(idx(*i, nrx), *z),
      Op::TryRecvBatch(i, n) if nrx > 0 => self.do_recv_batch(idx(*i, nrx), *n as usize, true, false),
      Op::RecvBatch(i, n) if nrx > 0 => self.do_recv_batch(idx(*i, nrx), *n as usize, false, false),
      Op::TryRecvBatchMut(i, n) if nrx > 0 => self.do_recv_batch(idx(*i, nrx), *n as usize, true, true),
      Op::RecvBatchMut(i, n) if nrx > 0 => self.do_recv_batch(idx(*i, nrx), *n as usize, false, true),
      Op::Next(i) if nrx > 0 => self.do_next(idx(*i, nrx)),
      Op::CloseRx(i) if nrx > 0 => self.do_close_rx(idx(*i, nrx)),
      Op::DropRx(i) if nrx > 0 => {
        let h = idx(*i, nrx);
        let was_closed = self.m.rx[h].closed;
        drop(self.rx.remove(h));
        self.m.rx.remove(h);
        self.rep.class("drop_handle");
        if !was_closed {
          if self.m.rx_alive() {
            self.lifecycle_nt.0 = true
          } else {
            self.lifecycle_nt.1 = true
          }
        }
        Ok(())
      }
      Op::CloneRx(i) if nrx > 0 && nrx < 4 => {
        let h = idx(*i, nrx);
        if self.m.rx[h].closed {
          return Ok(());
        }
        if let Some(c) = self.rx[h].try_clone() {
          self.rx.push(c);
          self.m.rx.push(HSt { closed: false, saw_disc: false });
          self.rep.class("clone");
          if self.m.rx[h].closed {
            self.rep.class("clone_of_closed_handle");
          }
        }
        Ok(())
      }
      Op::ConvRx(i) if nrx > 0 => {
        let h = idx(*i, nrx);
        let b = self.rx.remove(h);
        let st = self.m.rx.remove(h);
        match b.convert() {
          Ok(n) => {
            self.rep.class("convert");
            if st.closed {
              self.rep.class("convert_closed_handle");
            }
            self.rx.insert(h, n);
          }
          Err(o) => self.rx.insert(h, o),
        }
        self.m.rx.insert(h, st);
        Ok(())
      }
      Op::Pump(k) => self.pump(*k as usize),
      _ => Ok(()),
    }
  }
}

/// Run one scenario.  Panics inside fibre are caught and reported as failures.  On any failure
/// the remaining handles are leaked, never dropped: dropping a corrupted channel while
/// unwinding could panic again and abort the process.
pub fn execute(s: &Scenario) -> Result<CaseReport, Failure> {
  use std::mem::ManuallyDrop;
  use std::panic::{catch_unwind, AssertUnwindSafe};
  let reg = Registry::new();
  let mut tx: ManuallyDrop<Vec<Box<dyn Tx>>> = ManuallyDrop::new(Vec::new());
  let mut rx: ManuallyDrop<Vec<Box<dyn Rx>>> = ManuallyDrop::new(Vec::new());
  let pfail = |stage: &str, p: Box<dyn std::any::Any + Send>| {
    let msg = crate::panic_msg(&p);
    let prop = if stage == "teardown" { crate::panic_prop("C09", &["C04", "C09"]) } else { crate::panic_prop("C01", &["C01", "C02", "C03", "C04", "C09"]) };
    Failure::new(prop, format!("E1/{}/panic_{}/{}", s.flavour.name(), stage, crate::panic_site(&msg)), format!("panic inside the channel during {stage}: {msg}"))
  };
  let r = catch_unwind(AssertUnwindSafe(|| run_ops(s, &reg, &mut tx, &mut rx)));
  let (mut rep, buffered) = match r {
    Ok(Ok(x)) => x,
    Ok(Err(f)) => return Err(f),
    Err(p) => return Err(pfail("op", p)),
  };
  // teardown: one handle at a time, order decided by the scenario (parity of its length)
  let mut txv = ManuallyDrop::into_inner(tx);
  let mut rxv = ManuallyDrop::into_inner(rx);
  let senders_first = s.ops.len() % 2 == 0;
  let mut result: Result<(), Failure> = Ok(());
  for round in 0..2 {
    let do_tx = (round == 0) == senders_first;
    if do_tx {
      while let Some(h) = txv.pop() {
        if result.is_err() {
          std::mem::forget(h);
        } else if let Err(p) = catch_unwind(AssertUnwindSafe(move || drop(h))) {
          result = Err(pfail("teardown", p));
        }
      }
    } else {
      while let Some(h) = rxv.pop() {
        if result.is_err() {
          std::mem::forget(h);
        } else if let Err(p) = catch_unwind(AssertUnwindSafe(move || drop(h))) {
          result = Err(pfail("teardown", p));
        }
      }
    }
  }
  result?;
  let dd = reg.double_drops();
  if !dd.is_empty() {
    return Err(Failure::new("C09", format!("E1/{}/double_drop", s.flavour.name()), format!("teardown: value(s) {:?} dropped more than once", dd)));
  }
  let live = reg.live();
  if !live.is_empty() {
    return Err(Failure::new(
      "C09",
      format!("E1/{}/leak", s.flavour.name()),
      format!("teardown with {} buffered: {} value(s) never dropped, e.g. {:?}", buffered, live.len(), &live[..live.len().min(5)]),
    ));
  }
  if buffered > 0 {
    rep.class("teardown_nonempty");
    if crate::current_property() == "C09" {
      rep.nontrivial = true;
    }
  }
  Ok(rep)
}

fn run_ops(s: &Scenario, reg: &Arc<Registry>, tx: &mut Vec<Box<dyn Tx>>, rx: &mut Vec<Box<dyn Rx>>) -> Result<(CaseReport, usize), Failure> {
  let (t, r) = make(s.flavour, s.async_start, s.cap);
  tx.push(t);
  rx.push(r);
  let cap = if s.flavour.rendezvous() {
    Some(0)
  } else if s.flavour.unbounded() {
    None
  } else if s.flavour == Flavour::Oneshot {
    Some(1)
  } else {
    Some(s.cap)
  };
  let mut run = Run {
    s,
    m: Model { f: s.flavour, cap, q: VecDeque::new(), tx: vec![HSt { closed: false, saw_disc: false }], rx: vec![HSt { closed: false, saw_disc: false }], one_sent: false, one_taken: false, unpublished: 0 },
    tx,
    rx,
    reg: reg.clone(),
    next_id: 0,
    sent_ok: vec![],
    received: vec![],
    rep: CaseReport::new(),
    send_failed: false,
    send_ok: false,
    partial_batch: false,
    wraps: 0,
    lifecycle_nt: (false, false, false),
  };
  let _ = run.m.f;
  run.rep.class(format!("flavour:{}", s.flavour.name()));
  run.rep.class(if s.async_start { "start:async" } else { "start:sync" });
  let trace = std::env::var("VERIF_TRACE").is_ok();
  for (i, op) in s.ops.iter().enumerate() {
    if trace {
      eprintln!("step {i} {op:?}  model: q={:?} tx={:?} rx={:?}", run.m.q, run.m.tx.iter().map(|h| h.closed).collect::<Vec<_>>(), run.m.rx.iter().map(|h| h.closed).collect::<Vec<_>>());
    }
    run.step(op).map_err(|mut f| {
      f.message = format!("step {i} {op:?}: {}", f.message);
      f
    })?;
    run.observe().map_err(|mut f| {
      f.message = format!("after step {i} {op:?}: {}", f.message);
      f
    })?;
    // C09 during the case: nothing may be dropped twice
    let dd = reg.double_drops();
    if !dd.is_empty() {
      return Err(Failure::new("C09", format!("E1/{}/double_drop", s.flavour.name()), format!("after step {i} {op:?}: value(s) {:?} dropped more than once", dd)));
    }
  }
  let buffered = run.m.q.len();
  let Run { rep, send_failed, send_ok, partial_batch, wraps, lifecycle_nt, .. } = run;
  let mut rep = rep;
  let prop = crate::current_property();
  rep.nontrivial = match prop.as_str() {
    "C01" => (send_failed && send_ok) || partial_batch,
    "C02" => wraps > 0 || rep.classes.iter().any(|c| c == "batch_recv" || c == "batch_send"),
    "C03" => send_failed,
    "C04" => (lifecycle_nt.0 && lifecycle_nt.1) || lifecycle_nt.2 || rep.classes.iter().any(|c| c == "convert_closed_handle" || c == "clone_of_closed_handle"),
    "C09" => false,
    "C06" => rep.classes.iter().any(|c| c == "future_cancelled_pending"),
    _ => true,
  };
  if wraps > 0 {
    rep.class("wrapped_or_recycled");
  }
  if partial_batch {
    rep.class("partial_batch");
  }
  if lifecycle_nt.2 {
    rep.class("op_on_self_closed_handle");
  }
  Ok((rep, buffered))
}
