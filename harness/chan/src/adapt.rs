//! One dynamic interface over every fibre channel handle type.
//!
//! Each concrete handle is wrapped in `Ad<H>` (an `UnsafeCell`) and exposed as `dyn Tx` /
//! `dyn Rx`.  Flavours whose operations take `&mut self` report `caps().exclusive`, and the
//! interpreters never keep two operations (or a future and an operation) alive on such a
//! handle at once — that is the single-producer / single-consumer contract the types enforce
//! at compile time for ordinary users.

#![allow(clippy::type_complexity)]

use crate::payload::Pay;
use fibre::error::*;
use futures_core::Stream;
use std::cell::UnsafeCell;
use std::future::Future;
use std::pin::Pin;
use std::time::Duration;

pub type BoxFut<'a, O> = Pin<Box<dyn Future<Output = O> + 'a>>;

#[derive(Clone, Copy, Debug, Default)]
pub struct Caps {
  /// blocking forms (send / recv / recv_timeout / *_batch) exist
  pub blocking: bool,
  /// future-returning forms exist
  pub futures: bool,
  /// batch forms exist
  pub batch: bool,
  /// implements Stream (async receivers)
  pub stream: bool,
  /// recv_timeout exists
  pub timeout: bool,
  /// operations need `&mut self`: at most one live operation/future per handle
  pub exclusive: bool,
  /// the send consumes the handle (oneshot)
  pub consuming: bool,
}

pub trait Tx: Send {
  fn caps(&self) -> Caps;
  fn try_send(&self, v: Pay) -> Result<(), TrySendError<Pay>>;
  fn try_send_batch(&self, _v: Vec<Pay>) -> Result<usize, TrySendBatchError<Pay>> {
    unimplemented!()
  }
  fn try_send_batch_mut(&self, _v: &mut Vec<Pay>) -> Result<usize, SendError> {
    unimplemented!()
  }
  fn send(&self, _v: Pay) -> Result<(), SendError> {
    unimplemented!()
  }
  fn send_batch(&self, _v: Vec<Pay>) -> Result<usize, SendBatchError<Pay>> {
    unimplemented!()
  }
  fn send_batch_mut(&self, _v: &mut Vec<Pay>) -> Result<usize, SendError> {
    unimplemented!()
  }
  fn send_fut<'a>(&'a self, _v: Pay) -> BoxFut<'a, Result<(), SendError>> {
    unimplemented!()
  }
  fn send_batch_fut<'a>(&'a self, _v: Vec<Pay>) -> BoxFut<'a, Result<usize, SendBatchError<Pay>>> {
    unimplemented!()
  }
  fn send_batch_mut_fut<'a>(&'a self, _v: &'a mut Vec<Pay>) -> BoxFut<'a, Result<usize, SendError>> {
    unimplemented!()
  }
  fn close(&self) -> Result<(), CloseError>;
  fn is_closed(&self) -> bool;
  fn capacity(&self) -> Option<usize>;
  fn len(&self) -> Option<usize>;
  fn is_empty(&self) -> Option<bool>;
  fn is_full(&self) -> Option<bool>;
  fn try_clone(&self) -> Option<Box<dyn Tx>>;
  /// to_async / to_sync; `None` (handle returned unchanged) where no conversion exists
  fn convert(self: Box<Self>) -> Result<Box<dyn Tx>, Box<dyn Tx>>;
}

pub trait Rx: Send {
  fn caps(&self) -> Caps;
  fn try_recv(&self) -> Result<Pay, TryRecvError>;
  fn try_recv_batch(&self, _max: usize) -> Result<Vec<Pay>, TryRecvError> {
    unimplemented!()
  }
  fn try_recv_batch_mut(&self, _out: &mut Vec<Pay>, _max: usize) -> Result<usize, TryRecvError> {
    unimplemented!()
  }
  fn recv(&self) -> Result<Pay, RecvError> {
    unimplemented!()
  }
  fn recv_timeout(&self, _d: Duration) -> Result<Pay, RecvErrorTimeout> {
    unimplemented!()
  }
  fn recv_batch(&self, _max: usize) -> Result<Vec<Pay>, RecvError> {
    unimplemented!()
  }
  fn recv_batch_mut(&self, _out: &mut Vec<Pay>, _max: usize) -> Result<usize, RecvError> {
    unimplemented!()
  }
  fn recv_fut<'a>(&'a self) -> BoxFut<'a, Result<Pay, RecvError>> {
    unimplemented!()
  }
  fn recv_batch_fut<'a>(&'a self, _max: usize) -> BoxFut<'a, Result<Vec<Pay>, RecvError>> {
    unimplemented!()
  }
  fn recv_batch_mut_fut<'a>(&'a self, _out: &'a mut Vec<Pay>, _max: usize) -> BoxFut<'a, Result<usize, RecvError>> {
    unimplemented!()
  }
  /// `Stream::poll_next` as a future (`None` = stream ended)
  fn next_fut<'a>(&'a self) -> BoxFut<'a, Option<Pay>> {
    unimplemented!()
  }
  fn close(&self) -> Result<(), CloseError>;
  fn is_closed(&self) -> bool;
  fn capacity(&self) -> Option<usize>;
  fn len(&self) -> Option<usize>;
  fn is_empty(&self) -> Option<bool>;
  fn is_full(&self) -> Option<bool>;
  fn try_clone(&self) -> Option<Box<dyn Rx>>;
  fn convert(self: Box<Self>) -> Result<Box<dyn Rx>, Box<dyn Rx>>;
}

pub struct Ad<H>(pub UnsafeCell<H>);
// SAFETY: the handle types are Send; `Ad` is only ever used from one thread at a time.
unsafe impl<H: Send> Send for Ad<H> {}

impl<H> Ad<H> {
  pub fn new(h: H) -> Box<Ad<H>> {
    Box::new(Ad(UnsafeCell::new(h)))
  }
}

macro_rules! acc {
  (shared, $s:expr) => {
    unsafe { &*$s.0.get() }
  };
  (excl, $s:expr) => {
    unsafe { &mut *$s.0.get() }
  };
}

macro_rules! cap_impl {
  (usize, $h:expr) => {
    Some($h.capacity())
  };
  (opt, $h:expr) => {
    $h.capacity()
  };
  (none, $h:expr) => {
    None
  };
}
macro_rules! full_impl {
  (yes, $h:expr) => {
    Some($h.is_full())
  };
  (no, $h:expr) => {
    None
  };
}

macro_rules! clone_impl_tx {
  (yes, $h:expr) => {
    Some(Ad::new($h.clone()) as Box<dyn Tx>)
  };
  (no, $h:expr) => {
    None
  };
}
macro_rules! clone_impl_rx {
  (yes, $h:expr) => {
    Some(Ad::new($h.clone()) as Box<dyn Rx>)
  };
  (no, $h:expr) => {
    None
  };
}

macro_rules! batch_tx_sync {
  (yes, $a:tt) => {
    fn try_send_batch(&self, v: Vec<Pay>) -> Result<usize, TrySendBatchError<Pay>> {
      acc!($a, self).try_send_batch(v)
    }
    fn try_send_batch_mut(&self, v: &mut Vec<Pay>) -> Result<usize, SendError> {
      acc!($a, self).try_send_batch_mut(v)
    }
    fn send_batch(&self, v: Vec<Pay>) -> Result<usize, SendBatchError<Pay>> {
      acc!($a, self).send_batch(v)
    }
    fn send_batch_mut(&self, v: &mut Vec<Pay>) -> Result<usize, SendError> {
      acc!($a, self).send_batch_mut(v)
    }
  };
  (no, $a:tt) => {};
}
macro_rules! batch_tx_async {
  (yes, $a:tt) => {
    fn try_send_batch(&self, v: Vec<Pay>) -> Result<usize, TrySendBatchError<Pay>> {
      acc!($a, self).try_send_batch(v)
    }
    fn try_send_batch_mut(&self, v: &mut Vec<Pay>) -> Result<usize, SendError> {
      acc!($a, self).try_send_batch_mut(v)
    }
    fn send_batch_fut<'a>(&'a self, v: Vec<Pay>) -> BoxFut<'a, Result<usize, SendBatchError<Pay>>> {
      Box::pin(acc!($a, self).send_batch(v))
    }
    fn send_batch_mut_fut<'a>(&'a self, v: &'a mut Vec<Pay>) -> BoxFut<'a, Result<usize, SendError>> {
      Box::pin(acc!($a, self).send_batch_mut(v))
    }
  };
  (no, $a:tt) => {};
}
macro_rules! batch_rx_sync {
  (yes, $a:tt) => {
    fn try_recv_batch(&self, max: usize) -> Result<Vec<Pay>, TryRecvError> {
      acc!($a, self).try_recv_batch(max)
    }
    fn try_recv_batch_mut(&self, out: &mut Vec<Pay>, max: usize) -> Result<usize, TryRecvError> {
      acc!($a, self).try_recv_batch_mut(out, max)
    }
    fn recv_batch(&self, max: usize) -> Result<Vec<Pay>, RecvError> {
      acc!($a, self).recv_batch(max)
    }
    fn recv_batch_mut(&self, out: &mut Vec<Pay>, max: usize) -> Result<usize, RecvError> {
      acc!($a, self).recv_batch_mut(out, max)
    }
  };
  (no, $a:tt) => {};
}
macro_rules! batch_rx_async {
  (yes, $a:tt) => {
    fn try_recv_batch(&self, max: usize) -> Result<Vec<Pay>, TryRecvError> {
      acc!($a, self).try_recv_batch(max)
    }
    fn try_recv_batch_mut(&self, out: &mut Vec<Pay>, max: usize) -> Result<usize, TryRecvError> {
      acc!($a, self).try_recv_batch_mut(out, max)
    }
    fn recv_batch_fut<'a>(&'a self, max: usize) -> BoxFut<'a, Result<Vec<Pay>, RecvError>> {
      Box::pin(acc!($a, self).recv_batch(max))
    }
    fn recv_batch_mut_fut<'a>(&'a self, out: &'a mut Vec<Pay>, max: usize) -> BoxFut<'a, Result<usize, RecvError>> {
      Box::pin(acc!($a, self).recv_batch_mut(out, max))
    }
  };
  (no, $a:tt) => {};
}
macro_rules! stream_rx {
  (yes) => {
    fn next_fut<'a>(&'a self) -> BoxFut<'a, Option<Pay>> {
      let h = unsafe { &mut *self.0.get() };
      Box::pin(std::future::poll_fn(move |cx| Pin::new(&mut *h).poll_next(cx)))
    }
  };
  (no) => {};
}
macro_rules! yn {
  (yes) => {
    true
  };
  (no) => {
    false
  };
}
macro_rules! is_excl {
  (excl) => {
    true
  };
  (shared) => {
    false
  };
}

/// sync sender
macro_rules! tx_sync {
  ($ty:ty, acc=$a:tt, close=$ca:tt, batch=$b:tt, cap=$c:tt, full=$f:tt, clone=$cl:tt, conv=$conv:ident) => {
    impl Tx for Ad<$ty> {
      fn caps(&self) -> Caps {
        Caps { blocking: true, futures: false, batch: yn!($b), stream: false, timeout: false, exclusive: is_excl!($a), consuming: false }
      }
      fn try_send(&self, v: Pay) -> Result<(), TrySendError<Pay>> {
        acc!($a, self).try_send(v)
      }
      fn send(&self, v: Pay) -> Result<(), SendError> {
        acc!($a, self).send(v)
      }
      batch_tx_sync!($b, $a);
      fn close(&self) -> Result<(), CloseError> {
        acc!($ca, self).close()
      }
      fn is_closed(&self) -> bool {
        acc!(shared, self).is_closed()
      }
      fn capacity(&self) -> Option<usize> {
        cap_impl!($c, acc!(shared, self))
      }
      fn len(&self) -> Option<usize> {
        Some(acc!(shared, self).len())
      }
      fn is_empty(&self) -> Option<bool> {
        Some(acc!(shared, self).is_empty())
      }
      fn is_full(&self) -> Option<bool> {
        full_impl!($f, acc!(shared, self))
      }
      fn try_clone(&self) -> Option<Box<dyn Tx>> {
        clone_impl_tx!($cl, acc!(shared, self))
      }
      fn convert(self: Box<Self>) -> Result<Box<dyn Tx>, Box<dyn Tx>> {
        Ok(Ad::new(self.0.into_inner().$conv()))
      }
    }
  };
}

macro_rules! tx_async {
  ($ty:ty, acc=$a:tt, close=$ca:tt, batch=$b:tt, cap=$c:tt, full=$f:tt, clone=$cl:tt, conv=$conv:ident) => {
    impl Tx for Ad<$ty> {
      fn caps(&self) -> Caps {
        Caps { blocking: false, futures: true, batch: yn!($b), stream: false, timeout: false, exclusive: is_excl!($a), consuming: false }
      }
      fn try_send(&self, v: Pay) -> Result<(), TrySendError<Pay>> {
        acc!($a, self).try_send(v)
      }
      fn send_fut<'a>(&'a self, v: Pay) -> BoxFut<'a, Result<(), SendError>> {
        Box::pin(acc!($a, self).send(v))
      }
      batch_tx_async!($b, $a);
      fn close(&self) -> Result<(), CloseError> {
        acc!($ca, self).close()
      }
      fn is_closed(&self) -> bool {
        acc!(shared, self).is_closed()
      }
      fn capacity(&self) -> Option<usize> {
        cap_impl!($c, acc!(shared, self))
      }
      fn len(&self) -> Option<usize> {
        Some(acc!(shared, self).len())
      }
      fn is_empty(&self) -> Option<bool> {
        Some(acc!(shared, self).is_empty())
      }
      fn is_full(&self) -> Option<bool> {
        full_impl!($f, acc!(shared, self))
      }
      fn try_clone(&self) -> Option<Box<dyn Tx>> {
        clone_impl_tx!($cl, acc!(shared, self))
      }
      fn convert(self: Box<Self>) -> Result<Box<dyn Tx>, Box<dyn Tx>> {
        Ok(Ad::new(self.0.into_inner().$conv()))
      }
    }
  };
}

macro_rules! rx_sync {
  ($ty:ty, acc=$a:tt, tacc=$ta:tt, close=$ca:tt, batch=$b:tt, cap=$c:tt, full=$f:tt, clone=$cl:tt, conv=$conv:ident) => {
    impl Rx for Ad<$ty> {
      fn caps(&self) -> Caps {
        Caps {
          blocking: true,
          futures: false,
          batch: yn!($b),
          stream: false,
          timeout: true,
          exclusive: is_excl!($a) || is_excl!($ta),
          consuming: false,
        }
      }
      fn try_recv(&self) -> Result<Pay, TryRecvError> {
        acc!(shared, self).try_recv()
      }
      fn recv(&self) -> Result<Pay, RecvError> {
        acc!($a, self).recv()
      }
      fn recv_timeout(&self, d: Duration) -> Result<Pay, RecvErrorTimeout> {
        acc!($ta, self).recv_timeout(d)
      }
      batch_rx_sync!($b, $a);
      fn close(&self) -> Result<(), CloseError> {
        acc!($ca, self).close()
      }
      fn is_closed(&self) -> bool {
        acc!(shared, self).is_closed()
      }
      fn capacity(&self) -> Option<usize> {
        cap_impl!($c, acc!(shared, self))
      }
      fn len(&self) -> Option<usize> {
        Some(acc!(shared, self).len())
      }
      fn is_empty(&self) -> Option<bool> {
        Some(acc!(shared, self).is_empty())
      }
      fn is_full(&self) -> Option<bool> {
        full_impl!($f, acc!(shared, self))
      }
      fn try_clone(&self) -> Option<Box<dyn Rx>> {
        clone_impl_rx!($cl, acc!(shared, self))
      }
      fn convert(self: Box<Self>) -> Result<Box<dyn Rx>, Box<dyn Rx>> {
        Ok(Ad::new(self.0.into_inner().$conv()))
      }
    }
  };
}

macro_rules! rx_async {
  ($ty:ty, acc=$a:tt, batch=$b:tt, stream=$s:tt, cap=$c:tt, full=$f:tt, clone=$cl:tt, conv=$conv:ident) => {
    impl Rx for Ad<$ty> {
      fn caps(&self) -> Caps {
        Caps { blocking: false, futures: true, batch: yn!($b), stream: yn!($s), timeout: false, exclusive: is_excl!($a), consuming: false }
      }
      fn try_recv(&self) -> Result<Pay, TryRecvError> {
        acc!($a, self).try_recv()
      }
      fn recv_fut<'a>(&'a self) -> BoxFut<'a, Result<Pay, RecvError>> {
        Box::pin(acc!($a, self).recv())
      }
      batch_rx_async!($b, $a);
      stream_rx!($s);
      fn close(&self) -> Result<(), CloseError> {
        acc!(shared, self).close()
      }
      fn is_closed(&self) -> bool {
        acc!(shared, self).is_closed()
      }
      fn capacity(&self) -> Option<usize> {
        cap_impl!($c, acc!(shared, self))
      }
      fn len(&self) -> Option<usize> {
        Some(acc!(shared, self).len())
      }
      fn is_empty(&self) -> Option<bool> {
        Some(acc!(shared, self).is_empty())
      }
      fn is_full(&self) -> Option<bool> {
        full_impl!($f, acc!(shared, self))
      }
      fn try_clone(&self) -> Option<Box<dyn Rx>> {
        clone_impl_rx!($cl, acc!(shared, self))
      }
      fn convert(self: Box<Self>) -> Result<Box<dyn Rx>, Box<dyn Rx>> {
        Ok(Ad::new(self.0.into_inner().$conv()))
      }
    }
  };
}

use fibre::{mpmc, mpsc, spmc, spsc};

// ---- spsc bounded
tx_sync!(spsc::BoundedSyncSender<Pay>, acc = shared, close = shared, batch = yes, cap = usize, full = yes, clone = no, conv = to_async);
tx_async!(spsc::BoundedAsyncSender<Pay>, acc = excl, close = shared, batch = yes, cap = usize, full = yes, clone = no, conv = to_sync);
rx_sync!(spsc::BoundedSyncReceiver<Pay>, acc = shared, tacc = excl, close = shared, batch = yes, cap = usize, full = yes, clone = no, conv = to_async);
rx_async!(spsc::BoundedAsyncReceiver<Pay>, acc = excl, batch = yes, stream = yes, cap = usize, full = yes, clone = no, conv = to_sync);
// ---- spsc rendezvous
tx_sync!(spsc::RendezvousSyncSender<Pay>, acc = shared, close = shared, batch = no, cap = opt, full = yes, clone = no, conv = to_async);
tx_async!(spsc::RendezvousAsyncSender<Pay>, acc = shared, close = shared, batch = no, cap = opt, full = yes, clone = no, conv = to_sync);
rx_sync!(spsc::RendezvousSyncReceiver<Pay>, acc = shared, tacc = shared, close = shared, batch = no, cap = opt, full = yes, clone = no, conv = to_async);
rx_async!(spsc::RendezvousAsyncReceiver<Pay>, acc = shared, batch = no, stream = no, cap = opt, full = yes, clone = no, conv = to_sync);
// ---- mpsc bounded
tx_sync!(mpsc::BoundedSyncSender<Pay>, acc = shared, close = shared, batch = yes, cap = usize, full = yes, clone = yes, conv = to_async);
tx_async!(mpsc::BoundedAsyncSender<Pay>, acc = shared, close = shared, batch = yes, cap = usize, full = yes, clone = yes, conv = to_sync);
rx_sync!(mpsc::BoundedSyncReceiver<Pay>, acc = shared, tacc = shared, close = shared, batch = yes, cap = usize, full = yes, clone = no, conv = to_async);
rx_async!(mpsc::BoundedAsyncReceiver<Pay>, acc = shared, batch = yes, stream = yes, cap = usize, full = yes, clone = no, conv = to_sync);
// ---- mpsc unbounded
tx_sync!(mpsc::UnboundedSyncSender<Pay>, acc = excl, close = excl, batch = yes, cap = none, full = no, clone = yes, conv = to_async);
tx_async!(mpsc::UnboundedAsyncSender<Pay>, acc = excl, close = excl, batch = yes, cap = none, full = no, clone = yes, conv = to_sync);
rx_sync!(mpsc::UnboundedSyncReceiver<Pay>, acc = shared, tacc = shared, close = shared, batch = yes, cap = none, full = no, clone = no, conv = to_async);
rx_async!(mpsc::UnboundedAsyncReceiver<Pay>, acc = excl, batch = yes, stream = yes, cap = none, full = no, clone = no, conv = to_sync);
// ---- mpsc rendezvous
tx_sync!(mpsc::RendezvousSyncSender<Pay>, acc = shared, close = shared, batch = no, cap = opt, full = yes, clone = yes, conv = to_async);
tx_async!(mpsc::RendezvousAsyncSender<Pay>, acc = shared, close = shared, batch = no, cap = opt, full = yes, clone = yes, conv = to_sync);
rx_sync!(mpsc::RendezvousSyncReceiver<Pay>, acc = shared, tacc = shared, close = shared, batch = no, cap = opt, full = yes, clone = no, conv = to_async);
rx_async!(mpsc::RendezvousAsyncReceiver<Pay>, acc = shared, batch = no, stream = no, cap = opt, full = yes, clone = no, conv = to_sync);
// ---- mpmc bounded
tx_sync!(mpmc::Sender<Pay>, acc = shared, close = shared, batch = yes, cap = usize, full = yes, clone = yes, conv = to_async);
tx_async!(mpmc::AsyncSender<Pay>, acc = shared, close = shared, batch = yes, cap = usize, full = yes, clone = yes, conv = to_sync);
rx_sync!(mpmc::Receiver<Pay>, acc = shared, tacc = shared, close = shared, batch = yes, cap = usize, full = yes, clone = yes, conv = to_async);
rx_async!(mpmc::AsyncReceiver<Pay>, acc = shared, batch = yes, stream = yes, cap = usize, full = yes, clone = yes, conv = to_sync);
// ---- mpmc unbounded
tx_sync!(mpmc::UnboundedSyncSender<Pay>, acc = excl, close = excl, batch = yes, cap = usize, full = yes, clone = yes, conv = to_async);
tx_async!(mpmc::UnboundedAsyncSender<Pay>, acc = excl, close = excl, batch = yes, cap = usize, full = yes, clone = yes, conv = to_sync);
rx_sync!(mpmc::UnboundedSyncReceiver<Pay>, acc = excl, tacc = excl, close = shared, batch = yes, cap = usize, full = yes, clone = yes, conv = to_async);
rx_async!(mpmc::UnboundedAsyncReceiver<Pay>, acc = excl, batch = yes, stream = yes, cap = usize, full = yes, clone = yes, conv = to_sync);
// ---- mpmc rendezvous
tx_sync!(mpmc::RendezvousSyncSender<Pay>, acc = shared, close = shared, batch = no, cap = opt, full = yes, clone = yes, conv = to_async);
tx_async!(mpmc::RendezvousAsyncSender<Pay>, acc = shared, close = shared, batch = no, cap = opt, full = yes, clone = yes, conv = to_sync);
rx_sync!(mpmc::RendezvousSyncReceiver<Pay>, acc = shared, tacc = shared, close = shared, batch = no, cap = opt, full = yes, clone = yes, conv = to_async);
rx_async!(mpmc::RendezvousAsyncReceiver<Pay>, acc = shared, batch = no, stream = no, cap = opt, full = yes, clone = yes, conv = to_sync);
// ---- spmc broadcast
tx_sync!(spmc::BoundedSyncSender<Pay>, acc = shared, close = excl, batch = yes, cap = usize, full = yes, clone = no, conv = to_async);
tx_async!(spmc::BoundedAsyncSender<Pay>, acc = shared, close = excl, batch = yes, cap = usize, full = yes, clone = no, conv = to_sync);
rx_sync!(spmc::BoundedSyncReceiver<Pay>, acc = shared, tacc = shared, close = shared, batch = yes, cap = usize, full = yes, clone = yes, conv = to_async);
rx_async!(spmc::BoundedAsyncReceiver<Pay>, acc = shared, batch = yes, stream = yes, cap = usize, full = yes, clone = yes, conv = to_sync);

// ---- oneshot: the send consumes the handle; the receiver only has a future and try_recv.
pub struct OneTx(UnsafeCell<Option<fibre::oneshot::Sender<Pay>>>);
unsafe impl Send for OneTx {}
pub struct OneRx(fibre::oneshot::Receiver<Pay>);

impl Tx for OneTx {
  fn caps(&self) -> Caps {
    Caps { consuming: true, exclusive: true, ..Caps::default() }
  }
  fn try_send(&self, v: Pay) -> Result<(), TrySendError<Pay>> {
    let h = unsafe { &mut *self.0.get() }.take().expect("oneshot sender used after send");
    h.send(v)
  }
  fn close(&self) -> Result<(), CloseError> {
    unsafe { &*self.0.get() }.as_ref().unwrap().close()
  }
  fn is_closed(&self) -> bool {
    unsafe { &*self.0.get() }.as_ref().unwrap().is_closed()
  }
  fn capacity(&self) -> Option<usize> {
    None
  }
  fn len(&self) -> Option<usize> {
    None
  }
  fn is_empty(&self) -> Option<bool> {
    None
  }
  fn is_full(&self) -> Option<bool> {
    None
  }
  fn try_clone(&self) -> Option<Box<dyn Tx>> {
    let h = unsafe { &*self.0.get() }.as_ref().unwrap().clone();
    Some(Box::new(OneTx(UnsafeCell::new(Some(h)))))
  }
  fn convert(self: Box<Self>) -> Result<Box<dyn Tx>, Box<dyn Tx>> {
    Err(self)
  }
}

impl Rx for OneRx {
  fn caps(&self) -> Caps {
    Caps { futures: true, ..Caps::default() }
  }
  fn try_recv(&self) -> Result<Pay, TryRecvError> {
    self.0.try_recv()
  }
  fn recv_fut<'a>(&'a self) -> BoxFut<'a, Result<Pay, RecvError>> {
    Box::pin(self.0.recv())
  }
  fn close(&self) -> Result<(), CloseError> {
    self.0.close()
  }
  fn is_closed(&self) -> bool {
    self.0.is_closed()
  }
  fn capacity(&self) -> Option<usize> {
    None
  }
  fn len(&self) -> Option<usize> {
    None
  }
  fn is_empty(&self) -> Option<bool> {
    None
  }
  fn is_full(&self) -> Option<bool> {
    None
  }
  fn try_clone(&self) -> Option<Box<dyn Rx>> {
    None
  }
  fn convert(self: Box<Self>) -> Result<Box<dyn Rx>, Box<dyn Rx>> {
    Err(self)
  }
}

// ---------------------------------------------------------------------------------------------

use serde::{Deserialize, Serialize};

#[derive(Clone, Copy, Debug, PartialEq, Eq, Hash, Serialize, Deserialize, PartialOrd, Ord)]
pub enum Flavour {
  SpscBounded,
  SpscRdv,
  MpscBounded,
  MpscUnbounded,
  MpscRdv,
  MpmcBounded,
  MpmcUnbounded,
  MpmcRdv,
  Oneshot,
  Broadcast,
}

pub const P2P: [Flavour; 9] = [
  Flavour::SpscBounded,
  Flavour::SpscRdv,
  Flavour::MpscBounded,
  Flavour::MpscUnbounded,
  Flavour::MpscRdv,
  Flavour::MpmcBounded,
  Flavour::MpmcUnbounded,
  Flavour::MpmcRdv,
  Flavour::Oneshot,
];

impl Flavour {
  pub fn name(self) -> &'static str {
    match self {
      Flavour::SpscBounded => "spsc_bounded",
      Flavour::SpscRdv => "spsc_rendezvous",
      Flavour::MpscBounded => "mpsc_bounded",
      Flavour::MpscUnbounded => "mpsc_unbounded",
      Flavour::MpscRdv => "mpsc_rendezvous",
      Flavour::MpmcBounded => "mpmc_bounded",
      Flavour::MpmcUnbounded => "mpmc_unbounded",
      Flavour::MpmcRdv => "mpmc_rendezvous",
      Flavour::Oneshot => "oneshot",
      Flavour::Broadcast => "spmc_broadcast",
    }
  }
  pub fn multi_tx(self) -> bool {
    matches!(self, Flavour::MpscBounded | Flavour::MpscUnbounded | Flavour::MpscRdv | Flavour::MpmcBounded | Flavour::MpmcUnbounded | Flavour::MpmcRdv | Flavour::Oneshot)
  }
  pub fn multi_rx(self) -> bool {
    matches!(self, Flavour::MpmcBounded | Flavour::MpmcUnbounded | Flavour::MpmcRdv | Flavour::Broadcast)
  }
  pub fn rendezvous(self) -> bool {
    matches!(self, Flavour::SpscRdv | Flavour::MpscRdv | Flavour::MpmcRdv)
  }
  pub fn unbounded(self) -> bool {
    matches!(self, Flavour::MpscUnbounded | Flavour::MpmcUnbounded)
  }
  pub fn bounded(self) -> bool {
    matches!(self, Flavour::SpscBounded | Flavour::MpscBounded | Flavour::MpmcBounded | Flavour::Broadcast)
  }
  pub fn has_batch(self) -> bool {
    self.bounded() || self.unbounded()
  }
}

/// Create a channel; `async_start` picks the `*_async` constructor.  `cap` is ignored by
/// rendezvous / unbounded / oneshot.
pub fn make(f: Flavour, async_start: bool, cap: usize) -> (Box<dyn Tx>, Box<dyn Rx>) {
  macro_rules! mk {
    ($s:expr, $a:expr) => {
      if async_start {
        let (t, r) = $a;
        (Ad::new(t) as Box<dyn Tx>, Ad::new(r) as Box<dyn Rx>)
      } else {
        let (t, r) = $s;
        (Ad::new(t) as Box<dyn Tx>, Ad::new(r) as Box<dyn Rx>)
      }
    };
  }
  match f {
    Flavour::SpscBounded => mk!(spsc::bounded_sync::<Pay>(cap), spsc::bounded_async::<Pay>(cap)),
    Flavour::SpscRdv => mk!(spsc::rendezvous::rendezvous::<Pay>(), spsc::rendezvous::rendezvous_async::<Pay>()),
    Flavour::MpscBounded => mk!(mpsc::bounded::<Pay>(cap), mpsc::bounded_async::<Pay>(cap)),
    Flavour::MpscUnbounded => mk!(mpsc::unbounded::<Pay>(), mpsc::unbounded_async::<Pay>()),
    Flavour::MpscRdv => mk!(mpsc::rendezvous::rendezvous::<Pay>(), mpsc::rendezvous::rendezvous_async::<Pay>()),
    Flavour::MpmcBounded => mk!(mpmc::bounded::<Pay>(cap), mpmc::bounded_async::<Pay>(cap)),
    Flavour::MpmcUnbounded => mk!(mpmc::unbounded::<Pay>(), mpmc::unbounded_async::<Pay>()),
    Flavour::MpmcRdv => mk!(mpmc::rendezvous::rendezvous::<Pay>(), mpmc::rendezvous::rendezvous_async::<Pay>()),
    Flavour::Broadcast => mk!(spmc::bounded::<Pay>(cap), spmc::bounded_async::<Pay>(cap)),
    Flavour::Oneshot => {
      let (t, r) = fibre::oneshot::oneshot::<Pay>();
      (Box::new(OneTx(UnsafeCell::new(Some(t)))), Box::new(OneRx(r)))
    }
  }
}
