//! C10 on a harness-owned single-threaded executor (E2 style): deterministic histories of async
//! acquisitions, try-acquisitions, releases, cancellations (before or after the waiter was
//! woken) and re-polls with new wakers on HybridMutex / HybridRwLock.
//!
//! Oracles: mutual exclusion (occupancy counters inside the protected value); stall — with every
//! delivered wake polled, a free lock must not have pending acquirers (checked whenever no guard
//! is held, and after the final releases); writer-starvation probe — while a writer is queued, a
//! continuous stream of overlapping readers must not keep it out.

use fibre::sync::{HybridMutex, HybridRwLock, MutexGuard, ReadGuard, WriteGuard};
use proptest::prelude::*;
use serde::{Deserialize, Serialize};
use std::future::Future;
use std::pin::Pin;
use std::sync::atomic::{AtomicI32, AtomicUsize, Ordering};
use std::sync::Arc;
use std::task::{Context, Poll, Wake, Waker};
use vcore::{idx, CaseReport, Failure};

#[derive(Clone, Debug, Serialize, Deserialize, PartialEq)]
pub enum Op {
  SpawnExclusive,
  SpawnShared,
  TryExclusive,
  TryShared,
  /// drop the k-th held guard
  Release(u16),
  Poll(u16),
  PollNewWaker(u16),
  PollWoken,
  Settle,
  Cancel(u16),
  CancelWoken(u16),
  Checkpoint,
  /// rwlock only: with a read guard held and a writer queued, run n generations of
  /// "a new reader arrives, then the oldest reader leaves"
  ReaderStream(u8),
  /// the same stream with wait-queue churn in every generation (bit 0: a reader that queued
  /// behind the writer gives up; bit 1: a second reader queues and gives up at once; bit 2: a
  /// try_read is attempted; bit 3: a second writer queues and gives up)
  ReaderStreamChurn(u8, u8),
}

#[derive(Clone, Debug, Serialize, Deserialize)]
pub struct Scenario {
  pub rwlock: bool,
  pub ops: Vec<Op>,
}

pub fn scenario_strategy(max_ops: usize) -> BoxedStrategy<Scenario> {
  let h = any::<u16>();
  let op = prop_oneof![
    6 => Just(Op::SpawnExclusive),
    6 => Just(Op::SpawnShared),
    2 => Just(Op::TryExclusive),
    2 => Just(Op::TryShared),
    7 => h.prop_map(Op::Release),
    2 => h.prop_map(Op::Poll),
    1 => h.prop_map(Op::PollNewWaker),
    4 => Just(Op::PollWoken),
    2 => Just(Op::Settle),
    3 => h.prop_map(Op::Cancel),
    3 => h.prop_map(Op::CancelWoken),
    3 => Just(Op::Checkpoint),
    2 => (3u8..12).prop_map(Op::ReaderStream),
    3 => (3u8..12, 1u8..16).prop_map(|(n, c)| Op::ReaderStreamChurn(n, c)),
  ];
  (any::<bool>(), proptest::collection::vec(op, 1..max_ops)).prop_map(|(rwlock, ops)| Scenario { rwlock, ops }).boxed()
}

#[derive(Default)]
struct Tracker {
  writers: AtomicI32,
  readers: AtomicI32,
}

enum Guard {
  M(MutexGuard<'static, Tracker>),
  W(WriteGuard<'static, Tracker>),
  R(ReadGuard<'static, Tracker>),
}

struct CountWaker(AtomicUsize);
impl Wake for CountWaker {
  fn wake(self: Arc<Self>) {
    self.0.fetch_add(1, Ordering::SeqCst);
  }
}

struct Task {
  fut: Pin<Box<dyn Future<Output = Guard>>>,
  waker: Arc<CountWaker>,
  seen: usize,
  exclusive: bool,
}
impl Task {
  fn woken(&self) -> bool {
    self.waker.0.load(Ordering::SeqCst) != self.seen
  }
}

struct Run {
  rw: bool,
  m: Arc<HybridMutex<Tracker>>,
  l: Arc<HybridRwLock<Tracker>>,
  tasks: Vec<Task>,
  held: Vec<(Guard, bool)>, // (guard, exclusive)
  rep: CaseReport,
  contended: bool,
  cancelled_woken: bool,
}

type R = Result<(), Failure>;
macro_rules! fail {
  ($sig:expr, $($arg:tt)*) => {
    return Err(Failure::new("C10", $sig, format!($($arg)*)))
  };
}

impl Run {
  fn kind(&self) -> &'static str {
    if self.rw {
      "rwlock"
    } else {
      "mutex"
    }
  }
  fn sig(&self, form: &str, clause: &str) -> String {
    format!("E2/{}/{}/{}", self.kind(), form, clause)
  }
  fn tracker(g: &Guard) -> &Tracker {
    match g {
      Guard::M(g) => g,
      Guard::W(g) => g,
      Guard::R(g) => g,
    }
  }

  /// C10: "a mutex or write guard never coexists with any other guard of the same lock, while
  /// read guards may coexist"
  fn acquired(&mut self, form: &str, g: Guard) -> R {
    let exclusive = !matches!(g, Guard::R(_));
    let t = Self::tracker(&g);
    if exclusive {
      let w = t.writers.fetch_add(1, Ordering::SeqCst);
      let r = t.readers.load(Ordering::SeqCst);
      if w != 0 || r != 0 {
        fail!(self.sig(form, "mutual_exclusion"), "exclusive guard granted while {w} exclusive and {r} shared guard(s) are held");
      }
    } else {
      t.readers.fetch_add(1, Ordering::SeqCst);
      let w = t.writers.load(Ordering::SeqCst);
      if w != 0 {
        fail!(self.sig(form, "mutual_exclusion"), "shared guard granted while {w} exclusive guard(s) are held");
      }
    }
    self.held.push((g, exclusive));
    Ok(())
  }

  fn release(&mut self, k: usize) {
    let (g, exclusive) = self.held.remove(k);
    let t = Self::tracker(&g);
    if exclusive {
      t.writers.fetch_sub(1, Ordering::SeqCst);
    } else {
      t.readers.fetch_sub(1, Ordering::SeqCst);
    }
    drop(g);
  }

  fn spawn(&mut self, exclusive: bool) -> R {
    if self.tasks.len() >= 6 {
      return Ok(());
    }
    // SAFETY (harness only): the locks are kept alive in Arcs owned by `Run` and every task
    // and guard is dropped before them (see `execute`)
    let fut: Pin<Box<dyn Future<Output = Guard>>> = unsafe {
      if self.rw {
        let l: &'static HybridRwLock<Tracker> = std::mem::transmute(&*self.l);
        if exclusive {
          Box::pin(async move { Guard::W(l.write_async().await) })
        } else {
          Box::pin(async move { Guard::R(l.read_async().await) })
        }
      } else {
        let m: &'static HybridMutex<Tracker> = std::mem::transmute(&*self.m);
        Box::pin(async move { Guard::M(m.lock_async().await) })
      }
    };
    if !self.held.is_empty() {
      self.contended = true;
    }
    self.tasks.push(Task { fut, waker: Arc::new(CountWaker(AtomicUsize::new(0))), seen: 0, exclusive: exclusive || !self.rw });
    let i = self.tasks.len() - 1;
    self.poll_task(i, false)
  }

  fn poll_task(&mut self, i: usize, new_waker: bool) -> R {
    if new_waker {
      self.tasks[i].waker = Arc::new(CountWaker(AtomicUsize::new(0)));
      self.tasks[i].seen = 0;
      self.rep.class("waker_replaced");
    }
    let t = &mut self.tasks[i];
    t.seen = t.waker.0.load(Ordering::SeqCst);
    let waker = Waker::from(t.waker.clone());
    let mut cx = Context::from_waker(&waker);
    match t.fut.as_mut().poll(&mut cx) {
      Poll::Pending => Ok(()),
      Poll::Ready(g) => {
        let t = self.tasks.remove(i);
        drop(t);
        self.acquired("async", g)
      }
    }
  }

  fn poll_woken_round(&mut self) -> Result<bool, Failure> {
    let ptrs: Vec<*const CountWaker> = self.tasks.iter().filter(|t| t.woken()).map(|t| Arc::as_ptr(&t.waker)).collect();
    let any = !ptrs.is_empty();
    for p in ptrs {
      if let Some(i) = self.tasks.iter().position(|t| Arc::as_ptr(&t.waker) == p) {
        self.poll_task(i, false)?;
      }
    }
    Ok(any)
  }

  fn settle(&mut self) -> R {
    let mut n = 0;
    while self.poll_woken_round()? {
      n += 1;
      if n > 10_000 {
        fail!(self.sig("executor", "self_wake_livelock"), "lock futures keep waking without acquiring");
      }
    }
    Ok(())
  }

  /// C10: "Blocking and async acquirers both eventually acquire after the lock is released ...
  /// dropping a pending lock future neither corrupts the wait queue nor loses the wakeup owed
  /// to the next waiter."
  fn checkpoint(&mut self) -> R {
    self.settle()?;
    self.rep.class("checkpoint");
    if self.held.is_empty() && !self.tasks.is_empty() {
      let c = if self.cancelled_woken { "free_lock_with_pending_acquirers[after_cancel_of_woken_waiter]" } else { "free_lock_with_pending_acquirers" };
      fail!(self.sig("async", c), "no guard is held and no wake is undelivered, yet {} acquirer(s) are still pending", self.tasks.len());
    }
    // NB: a forced poll that succeeds is *not* a violation here: a reader queued behind a
    // writer whose future was since cancelled could share the lock right now, but the property
    // only promises acquisition "after the lock is released" — it is woken by the last
    // reader's release.  The free-lock clause above is the sound form.
    self.settle()
  }

  fn cancel(&mut self, i: usize) {
    let t = self.tasks.remove(i);
    if t.woken() {
      self.cancelled_woken = true;
      self.rep.class("cancel_woken_waiter");
    } else {
      self.rep.class("cancel_pending_waiter");
    }
    drop(t);
  }

  /// C10: "a queued writer is not starved by a continuous stream of readers".  Precondition
  /// built by the harness: a read guard is held and a writer is queued behind it.  Then n
  /// generations of "new reader arrives; the oldest reader leaves; deliver wakes".  A writer
  /// that is kept out for more generations than there were readers to begin with (+2) is being
  /// starved by the stream.
  fn reader_stream(&mut self, n: usize, churn: u8) -> R {
    if !self.rw {
      return Ok(());
    }
    // establish the precondition from a clean slate
    while !self.tasks.is_empty() {
      self.cancel(0);
    }
    while !self.held.is_empty() {
      self.release(0);
    }
    self.spawn(false)?; // reader acquires
    if self.held.len() != 1 {
      return Ok(());
    }
    self.spawn(true)?; // writer queues
    if self.tasks.len() != 1 {
      return Ok(());
    }
    let writer = Arc::as_ptr(&self.tasks[0].waker);
    self.rep.class(if churn == 0 { "reader_stream" } else { "reader_stream_with_queue_churn" });
    let bound = 1 + 2;
    for generation in 0..n {
      self.spawn(false)?; // a new reader arrives (acquires or queues)
      // queue churn while the writer waits: waiters link and unlink around it ("dropping a
      // pending lock future neither corrupts the wait queue ...")
      if churn & 1 != 0 {
        if let Some(i) = self.tasks.iter().rposition(|t| !t.exclusive && Arc::as_ptr(&t.waker) != writer) {
          self.cancel(i);
        }
      }
      if churn & 2 != 0 {
        let before = self.tasks.len();
        self.spawn(false)?;
        if self.tasks.len() > before {
          self.cancel(before);
        }
      }
      if churn & 4 != 0 {
        self.step(&Op::TryShared)?;
      }
      if churn & 8 != 0 {
        let before = self.tasks.len();
        self.spawn(true)?;
        if self.tasks.len() > before {
          self.cancel(before);
        }
      }
      // the oldest reader leaves
      if let Some(k) = self.held.iter().position(|(_, ex)| !*ex) {
        self.release(k);
      }
      self.settle()?;
      let writer_pending = self.tasks.iter().any(|t| Arc::as_ptr(&t.waker) == writer);
      if !writer_pending {
        // the writer got in (its guard is in `held`): starvation did not happen
        return Ok(());
      }
      if generation + 1 >= bound && self.held.iter().any(|(_, ex)| !*ex) {
        fail!(self.sig("write_async", "writer_starved_by_reader_stream"), "a writer queued behind 1 reader is still waiting after {} generations of overlapping readers; {} read guard(s) are held (new readers keep overtaking it)", generation + 1, self.held.iter().filter(|(_, ex)| !*ex).count());
      }
    }
    Ok(())
  }

  fn step(&mut self, op: &Op) -> R {
    let nt = self.tasks.len();
    match op {
      Op::SpawnExclusive => self.spawn(true),
      Op::SpawnShared => self.spawn(false),
      Op::TryExclusive | Op::TryShared => {
        let exclusive = matches!(op, Op::TryExclusive) || !self.rw;
        // SAFETY: see `spawn`
        let g: Option<Guard> = unsafe {
          if self.rw {
            let l: &'static HybridRwLock<Tracker> = std::mem::transmute(&*self.l);
            if exclusive {
              l.try_write().map(Guard::W)
            } else {
              l.try_read().map(Guard::R)
            }
          } else {
            let m: &'static HybridMutex<Tracker> = std::mem::transmute(&*self.m);
            m.try_lock().map(Guard::M)
          }
        };
        match g {
          Some(g) => self.acquired("try", g),
          None => {
            // try_* "never block": they returned; a refusal while the lock is completely free
            // and nobody is queued would be a wrong answer
            if self.held.is_empty() && self.tasks.is_empty() {
              fail!(self.sig("try", "refused_free_lock"), "try-acquire failed although no guard is held and nobody is waiting");
            }
            self.contended = true;
            Ok(())
          }
        }
      }
      Op::Release(k) if !self.held.is_empty() => {
        self.release(idx(*k, self.held.len()));
        Ok(())
      }
      Op::Poll(t) if nt > 0 => self.poll_task(idx(*t, nt), false),
      Op::PollNewWaker(t) if nt > 0 => self.poll_task(idx(*t, nt), true),
      Op::PollWoken => self.poll_woken_round().map(|_| ()),
      Op::Settle => self.settle(),
      Op::Cancel(t) if nt > 0 => {
        self.cancel(idx(*t, nt));
        Ok(())
      }
      Op::CancelWoken(t) => {
        let w: Vec<usize> = (0..nt).filter(|i| self.tasks[*i].woken()).collect();
        if !w.is_empty() {
          self.cancel(w[idx(*t, w.len())]);
        }
        Ok(())
      }
      Op::Checkpoint => self.checkpoint(),
      Op::ReaderStream(n) => self.reader_stream(*n as usize, 0),
      Op::ReaderStreamChurn(n, c) => self.reader_stream(*n as usize, *c),
      _ => Ok(()),
    }
  }
}

pub fn execute(s: &Scenario) -> Result<CaseReport, Failure> {
  use std::panic::{catch_unwind, AssertUnwindSafe};
  let mut run = std::mem::ManuallyDrop::new(Run {
    rw: s.rwlock,
    m: Arc::new(HybridMutex::new(Tracker::default())),
    l: Arc::new(HybridRwLock::new(Tracker::default())),
    tasks: Vec::new(),
    held: Vec::new(),
    rep: CaseReport::new(),
    contended: false,
    cancelled_woken: false,
  });
  run.rep.class(if s.rwlock { "rwlock" } else { "mutex" });
  let trace = std::env::var("VERIF_TRACE").is_ok();
  let r = catch_unwind(AssertUnwindSafe(|| -> R {
    for (i, op) in s.ops.iter().enumerate() {
      if trace {
        eprintln!("step {i} {op:?} tasks={:?} held={:?}", run.tasks.iter().map(|t| (t.exclusive, t.woken())).collect::<Vec<_>>(), run.held.iter().map(|h| h.1).collect::<Vec<_>>());
      }
      run.step(op).map_err(|mut f| {
        f.message = format!("step {i} {op:?}: {}", f.message);
        f
      })?;
    }
    // finale: release everything in order, deliver wakes; everybody must get the lock
    loop {
      run.checkpoint()?;
      if run.held.is_empty() {
        break;
      }
      run.release(0);
    }
    Ok(())
  }));
  match r {
    Ok(Ok(())) => {}
    Ok(Err(f)) => return Err(f), // tasks/guards leaked on purpose
    Err(p) => {
      let msg = crate::panic_msg(&p);
      return Err(Failure::new("C10", format!("E2/{}/panic/{}", if s.rwlock { "rwlock" } else { "mutex" }, crate::panic_site(&msg)), format!("panic inside the lock: {msg}")));
    }
  }
  let mut run = std::mem::ManuallyDrop::into_inner(run);
  let mut rep = std::mem::take(&mut run.rep);
  rep.nontrivial = run.contended;
  if run.contended {
    rep.class("contended");
  }
  // drop order: tasks and guards before the locks (field order of Run would drop the Arcs first)
  run.tasks.clear();
  run.held.clear();
  drop(run);
  Ok(rep)
}
