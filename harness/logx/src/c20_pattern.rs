//! C20, pattern encoder: totality and verbatim message.
//!
//! Property text served here:
//!   "the pattern encoder renders every event without panicking and reproduces the message
//!    verbatim"     [quantifier: "every pattern string over the supported directives"]
//!
//! Soundness gate: a pattern is only rendered when the *configuration path* accepts it
//! (`process_raw_config` runs `validate_pattern`), i.e. when a user could have configured it.

use crate::c20_json::{build_event, event_spec, EventSpec};
use crate::gen::*;
use fibre_logging::config::processed::{process_raw_config, EncoderInternal};
use fibre_logging::config::raw::{AppenderConfigRaw, ConfigRaw, ConsoleAppenderConfigRaw, EncoderConfigRaw, PatternEncoderConfigRaw};
use fibre_logging::encoders::{pattern::PatternFormatter, EventFormatter};
use proptest::prelude::*;
use serde::{Deserialize, Serialize};
use vcore::{CaseReport, Failure};

const P: &str = "C20";

#[derive(Clone, Debug, Serialize, Deserialize, PartialEq)]
pub enum Seg {
  /// literal text (never contains '%')
  Lit(String),
  /// `%%`
  Percent,
  /// `%[pad]<conv>[{opt}]`
  Dir { conv: char, pad: Option<String>, opt: Option<String> },
}

pub static CLASS_SAMPLE: ClassSample = ClassSample::new();

/// A padded directive whose width is placed relative to the size of the content it renders
/// (class "padded directives x multi-byte content of every width relation"): the width is
/// derived from the character count and the UTF-8 length of that content.
#[derive(Clone, Debug, Serialize, Deserialize, PartialEq)]
pub struct Fit {
  /// 0 = %m, 1 = %t, 2 = %T, 3 = %X{first usable field key} (falls back to %m)
  pub conv: u8,
  /// 0: chars-1 · 1: chars · 2: chars+1 · 3: midway between chars and bytes · 4: bytes-1 ·
  /// 5: bytes · 6: bytes+1 · 7: bytes+7
  pub rel: u8,
  /// left-aligned (negative width)
  pub left: bool,
}

#[derive(Clone, Debug, Serialize, Deserialize)]
pub struct PatternCase {
  /// grammar-generated pattern
  pub segs: Vec<Seg>,
  /// if set, used instead of `segs`: an arbitrary string (totality)
  pub raw: Option<String>,
  pub event: EventSpec,
  /// appended to `segs` (ignored with `raw`)
  #[serde(default)]
  pub fit: Option<Fit>,
}

fn pad() -> impl Strategy<Value = String> {
  prop_oneof![
    8 => (-24i32..=24).prop_map(|n| n.to_string()),
    2 => prop::sample::select(vec!["0", "-0", "005", "-007", "100", "-100", "1000", "65535", "-65535", "65536", "-65536", "100000", "-70000"]).prop_map(String::from),
    // explicit edge samples: i32 extremes and a width that does not fit an i32 at all
    1 => prop::sample::select(vec!["2147483647", "-2147483647", "-2147483648", "2147483648", "99999999999", "-99999999999"]).prop_map(String::from),
  ]
}

fn date_fmt() -> impl Strategy<Value = String> {
  prop_oneof![
    6 => prop::sample::select(vec![
      "%Y-%m-%d %H:%M:%S", "%H:%M:%S%.3f", "%+", "%s", "%c", "%e %b %Y", "%Y-%m-%dT%H:%M:%S%.6fZ", "%A %j", "%%", "%Z", "%z", "%:z", "%D %T", "%v %r", "%G-W%V-%u", "%y%C", "%.9f %f", "%3f", "%n%t", "%-d/%_m/%0e", "plain text",
    ]).prop_map(String::from),
    2 => "[%a-zA-Z0-9:. -]{1,10}",
  ]
}

fn seg() -> impl Strategy<Value = Seg> {
  let lit_char = prop_oneof![4 => (0x20u8..0x7f).prop_map(|b| b as char), 2 => special_char()].prop_filter("no %", |c| *c != '%');
  prop_oneof![
    4 => prop::collection::vec(lit_char, 0..6).prop_map(|v| Seg::Lit(v.into_iter().collect())),
    1 => Just(Seg::Percent),
    // %m is the directive the property speaks about: keep it frequent
    4 => prop::option::weighted(0.35, pad()).prop_map(|pad| Seg::Dir { conv: 'm', pad, opt: None }),
    2 => (prop::option::weighted(0.3, pad()), prop::option::weighted(0.7, date_fmt())).prop_map(|(pad, opt)| Seg::Dir { conv: 'd', pad, opt }),
    4 => (prop::sample::select(vec!['p', 'l', 't', 'T', 'n']), prop::option::weighted(0.4, pad())).prop_map(|(conv, pad)| Seg::Dir { conv, pad, opt: None }),
    2 => (prop::option::weighted(0.3, pad()), prop::option::weighted(0.6, prop_oneof!["[a-z_]{1,8}", Just("message".to_string()), Just("level".to_string())])).prop_map(|(pad, opt)| Seg::Dir { conv: 'X', pad, opt }),
    // an option block on a directive that ignores it
    1 => (prop::sample::select(vec!['p', 'm', 't']), "[a-z]{1,4}").prop_map(|(conv, o)| Seg::Dir { conv, pad: None, opt: Some(o) }),
  ]
}

pub fn strategy() -> impl Strategy<Value = PatternCase> {
  let raw = prop_oneof![
    // arbitrary strings, biased toward the pattern meta-characters
    prop::collection::vec(prop_oneof![3 => Just('%'), 2 => prop::sample::select(vec!['m', 'd', 'p', 'n', 'X', 't', 'T', 'l', '{', '}', '-', '0', '9', '5']), 3 => any_char()], 0..16).prop_map(|v| v.into_iter().collect::<String>()),
  ];
  // multi-byte content: one of the strings a directive renders becomes 1-12 repetitions of a
  // 2-, 3- or 4-byte character (optionally after an ASCII head)
  let multibyte = (prop::sample::select(vec!['é', 'ß', '\u{85}', '\u{a0}', '日', '\u{2028}', '\u{fffd}', '\u{1f600}', '\u{10000}', '\u{10ffff}']), 1u16..=12, "[a-z]{0,3}", 0u8..4);
  let fit = (0u8..4, 0u8..8, any::<bool>()).prop_map(|(conv, rel, left)| Fit { conv, rel, left });
  (prop::collection::vec(seg(), 0..8), prop::option::weighted(0.15, raw), event_spec(), prop::option::weighted(0.35, multibyte), prop::option::weighted(0.4, fit)).prop_map(|(segs, raw, mut event, mb, fit)| {
    if let Some((ch, n, head, which)) = mb {
      let text = SText::lit(&format!("{head}{}", ch.to_string().repeat(n as usize)));
      match which {
        0 => event.message = Some(text),
        1 => event.target = text,
        2 => event.thread_name = Some(text),
        _ => event.fields.push((SText::lit("fk"), crate::c20_json::Val::Str(text))),
      }
    }
    PatternCase { segs, raw, event, fit }
  })
}

/// The text the fitted directive renders, and the directive's converter + option block.
fn fit_content(f: &Fit, e: &EventSpec) -> (char, Option<String>, String) {
  match f.conv % 4 {
    1 => ('t', None, e.target.get()),
    2 => ('T', None, e.thread_name.as_ref().map(|t| t.get()).unwrap_or_default()),
    3 => {
      // the event model is a map: the last entry of a key is the one that counts
      let usable = |k: &str| !k.is_empty() && k.chars().all(|c| c.is_ascii_lowercase() || c == '_');
      if let Some((k, _)) = e.fields.iter().rev().find(|(k, _)| usable(&k.get())) {
        let key = k.get();
        let v = e.fields.iter().rev().find(|(k2, _)| k2.get() == key).map(|(_, v)| crate::c20_json::log_value(v).to_string()).unwrap_or_default();
        ('X', Some(key), v)
      } else {
        ('m', None, e.message.as_ref().map(|m| m.get()).unwrap_or_default())
      }
    }
    _ => ('m', None, e.message.as_ref().map(|m| m.get()).unwrap_or_default()),
  }
}

fn fit_width(f: &Fit, content: &str) -> usize {
  let (chars, bytes) = (content.chars().count(), content.len());
  match f.rel % 8 {
    0 => chars.saturating_sub(1),
    1 => chars,
    2 => chars + 1,
    3 => (chars + bytes) / 2,
    4 => bytes.saturating_sub(1),
    5 => bytes,
    6 => bytes + 1,
    _ => bytes + 7,
  }
  // very long strings: stay inside the widths the grammar uses anyway
  .min(100_000)
}

/// `segs` plus the fitted directive.
pub fn effective_segs(c: &PatternCase) -> Vec<Seg> {
  let mut v = c.segs.clone();
  if let Some(f) = &c.fit {
    let (conv, opt, content) = fit_content(f, &c.event);
    let w = fit_width(f, &content);
    v.push(Seg::Dir { conv, pad: Some(format!("{}{w}", if f.left { "-" } else { "" })), opt });
  }
  v
}

pub fn pattern_string(c: &PatternCase) -> String {
  if let Some(r) = &c.raw {
    return r.clone();
  }
  let mut s = String::new();
  for g in &effective_segs(c) {
    match g {
      Seg::Lit(t) => s.push_str(t),
      Seg::Percent => s.push_str("%%"),
      Seg::Dir { conv, pad, opt } => {
        s.push('%');
        if let Some(p) = pad {
          s.push_str(p);
        }
        s.push(*conv);
        if let Some(o) = opt {
          s.push('{');
          s.push_str(o);
          s.push('}');
        }
      }
    }
  }
  s
}

/// The configuration path: would `init_from_file` accept this pattern for an appender?
/// Returns the pattern string as the processed configuration carries it.
pub fn accepted_by_config(pattern: &str) -> Result<String, String> {
  let mut raw = ConfigRaw::default();
  raw.appenders.insert(
    "a".to_string(),
    AppenderConfigRaw::Console(ConsoleAppenderConfigRaw { encoder: Some(EncoderConfigRaw::Pattern(PatternEncoderConfigRaw { pattern: Some(pattern.to_string()) })), channel_capacity: None, overflow: None }),
  );
  let cfg = process_raw_config(raw).map_err(|e| e.to_string())?;
  match &cfg.appenders["a"].encoder {
    EncoderInternal::Pattern(p) => Ok(p.pattern_string.clone()),
    _ => Err("not a pattern encoder".into()),
  }
}

fn render(pattern: &str, ev: &fibre_logging::LogEvent) -> Result<String, (String, String)> {
  let r = std::panic::catch_unwind(std::panic::AssertUnwindSafe(|| {
    let f = PatternFormatter::new(pattern);
    f.format_event(ev)
  }));
  match r {
    Err(p) => {
      let m = panic_msg(&p);
      Err((format!("panic/{}", panic_site(&m)), format!("panicked: {m}")))
    }
    Ok(Err(e)) => Err(("format_error".into(), format!("format_event returned Err: {e}"))),
    Ok(Ok(bytes)) => String::from_utf8(bytes).map_err(|_| ("not_utf8".to_string(), "output is not UTF-8".to_string())),
  }
}

pub fn execute(c: &PatternCase) -> Result<CaseReport, Failure> {
  let mut rep = CaseReport::new();
  let kind = if c.raw.is_some() { "raw" } else { "grammar" };
  rep.class(format!("pattern/{kind}"));
  let pattern = pattern_string(c);
  let validated = std::panic::catch_unwind(|| accepted_by_config(&pattern));
  let pattern = match validated {
    Err(p) => {
      let m = panic_msg(&p);
      return Err(Failure::new(P, format!("pattern/{kind}/config_validation_panic/{}", panic_site(&m)), format!("process_raw_config panicked on pattern {:?}: {m}", clip(&pattern, 80))));
    }
    Ok(Err(_)) => {
      // not a pattern a user can configure: outside the property's domain
      rep.class("pattern/rejected_by_config");
      return Ok(rep);
    }
    Ok(Ok(p)) => p,
  };
  let ev = build_event(&c.event);

  // "the pattern encoder renders every event without panicking"
  let pad_class = if c.raw.is_none() {
    let mut k = "nopad";
    for g in &effective_segs(c) {
      if let Seg::Dir { pad: Some(p), .. } = g {
        let n = p.parse::<i64>().unwrap_or(0).unsigned_abs();
        k = if n > 65535 { "pad_gt_u16" } else if k == "nopad" { "pad" } else { k };
        if n > 65535 {
          break;
        }
      }
    }
    k
  } else {
    "raw"
  };
  let out = match render(&pattern, &ev) {
    Ok(o) => o,
    Err((clause, msg)) => return Err(Failure::new(P, format!("pattern/{pad_class}/{clause}"), format!("pattern {:?}: {msg}", clip(&pattern, 80)))),
  };

  // "and reproduces the message verbatim"
  //
  // Differential form (needs no knowledge of how directives are parsed): render the same event
  // with its message replaced by a sentinel S that occurs nowhere else.  Wherever S shows up, the
  // real message must show up — byte for byte — and nothing else may change.  With a padded %m
  // the amount of padding depends on the message length, so only containment is demanded then.
  if let Some(msg) = &ev.message {
    let sentinel = "\u{e000}\u{1}§MSG§\u{1}\u{e000}";
    let mut others: Vec<&str> = vec![pattern.as_str(), ev.target.as_str(), msg.as_str()];
    if let Some(t) = &ev.thread_name {
      others.push(t);
    }
    let field_texts: Vec<String> = ev.fields.iter().map(|(k, v)| format!("{k}{v}")).collect();
    if others.iter().all(|o| !o.contains(sentinel)) && field_texts.iter().all(|o| !o.contains(sentinel)) {
      let mut ev_s = ev.clone();
      ev_s.message = Some(sentinel.to_string());
      let out_s = match render(&pattern, &ev_s) {
        Ok(o) => o,
        Err((clause, m)) => return Err(Failure::new(P, format!("pattern/{pad_class}/{clause}"), format!("pattern {:?} (sentinel message): {m}", clip(&pattern, 80)))),
      };
      let k = out_s.matches(sentinel).count();
      if k > 0 {
        rep.class("pattern/renders_message");
        let padded_m = c.raw.is_some() || effective_segs(c).iter().any(|g| matches!(g, Seg::Dir { conv: 'm', pad: Some(_), .. }));
        if !out.contains(msg.as_str()) {
          return Err(Failure::new(P, format!("pattern/{pad_class}/message_not_verbatim"), format!("pattern {:?}: output {:?} does not contain the message {:?}", clip(&pattern, 60), clip(&out, 120), clip(msg, 80))));
        }
        if !padded_m {
          let expect = out_s.replace(sentinel, msg);
          // the encoder appends the line terminator only when the rendered text does not
          // already end with one, so the two renderings may differ by that single '\n'
          let same = out == expect || format!("{out}\n") == expect;
          if !same {
            return Err(Failure::new(P, format!("pattern/{pad_class}/message_altered"), format!("pattern {:?}: expected {:?}, got {:?}", clip(&pattern, 60), clip(&expect, 120), clip(&out, 120))));
          }
        }
        // non-triviality (C20 / pattern): the message is rendered and contains a character an
        // encoder could be tempted to escape, trim or split on
        if msg.chars().any(|ch| ch == '\n' || ch == '\r' || ch == '%' || ch == '"' || ch == '\\' || ch == '{' || (ch as u32) < 0x20 || (ch as u32) > 0x7e) || msg.is_empty() {
          rep.nontrivial = true;
          rep.class("pattern/special_message");
        }
      }
    }
  }
  rep.class(format!("pattern/{pad_class}"));
  // padded directives x content width relation (fitted directive: the content is known)
  if let (None, Some(f)) = (&c.raw, &c.fit) {
    let (conv, _, content) = fit_content(f, &c.event);
    let (w, chars, bytes) = (fit_width(f, &content), content.chars().count(), content.len());
    let rel = if w <= chars {
      "width<=chars"
    } else if w < bytes {
      "chars<width<bytes"
    } else if w == bytes {
      "chars<width==bytes"
    } else {
      "width>bytes"
    };
    let kind = if bytes > chars { "multibyte" } else { "ascii" };
    rep.class(format!("pattern/fit/{kind}/{rel}"));
    if bytes > chars && w > chars && w < bytes {
      if rep.nontrivial {
        CLASS_SAMPLE.offer(c);
      }
      rep.class(format!("pattern/fit/multibyte/chars<width<bytes/%{conv}"));
    }
  }
  Ok(rep)
}
