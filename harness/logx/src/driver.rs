//! The child side of the C19 end-to-end engine: `logx drive <job.json>`.
//!
//! Logging initialisation is process-global (one `init_from_file` per process), so every
//! generated configuration + event script runs in its own child process.  The child
//!   1. initialises fibre_logging from the generated YAML,
//!   2. takes the custom streams out of the `InitResult` and starts one consumer per stream,
//!   3. emits the script through `log` and `tracing` from 1–4 threads,
//!   4. shuts down at the generated point: explicit `shutdown()` or dropping the guard, on the
//!      initialising thread or on a thread the guard was moved to, by an ordinary end of scope
//!      or by a panic unwinding through the owner; optionally exits right afterwards,
//!   5. writes what it observed to `result.json`; files are read by the parent.
//! Nothing but the console appender writes to stdout.

use crate::c19_model::TARGETS;
use serde::{Deserialize, Serialize};
use std::collections::BTreeMap;
use std::sync::atomic::{AtomicBool, AtomicU32, Ordering};
use std::sync::{Arc, Barrier, Mutex};
use std::time::{Duration, Instant};

#[derive(Clone, Debug, Serialize, Deserialize, PartialEq)]
pub struct Ev {
  /// resolved index into TARGETS
  pub target: u16,
  /// 1 = error .. 5 = trace
  pub level: u8,
  pub tracing: bool,
}

#[derive(Clone, Debug, Serialize, Deserialize)]
pub struct StreamJob {
  pub name: String,
  /// true: nothing reads the stream until shutdown has returned (buffer is large enough);
  /// false: a consumer thread reads concurrently until it sees the disconnect
  pub late_drain: bool,
  /// concurrent consumer sleeps this long after every event (a slow consumer keeps the stream
  /// full, so emitters are blocked inside `send` when shutdown arrives)
  #[serde(default)]
  pub delay_us: u32,
}

#[derive(Clone, Debug, Serialize, Deserialize)]
pub struct Job {
  pub config_path: String,
  pub out_dir: String,
  pub threads: Vec<Vec<Ev>>,
  pub streams: Vec<StreamJob>,
  /// shut down once this many events have been emitted (None: after all emitters have finished)
  pub shutdown_at: Option<u32>,
  pub via_drop: bool,
  /// how the session is ended (who ends it, and whether by unwinding)
  #[serde(default)]
  pub how: How,
  /// the process exits as soon as the teardown has returned (only with `shutdown_at: None`)
  #[serde(default)]
  pub exit_after: bool,
}

/// The ways a logging session is ended (besides the choice `shutdown()` / guard drop).
#[derive(Clone, Copy, Debug, Default, Serialize, Deserialize, PartialEq, Eq)]
pub enum How {
  /// on the thread that initialised, by an ordinary call / end of scope
  #[default]
  Plain,
  /// the guard is dropped by a panic unwinding through the scope that owns it (initialising
  /// thread; the driver catches the panic so that it can still report)
  Unwind,
  /// the guard was moved into a spawned thread, which panics while owning it
  UnwindThread,
  /// the guard was moved into a spawned thread, which ends the session in the ordinary way
  OtherThread,
}

#[derive(Clone, Debug, Default, Serialize, Deserialize)]
pub struct StreamResult {
  /// (message, level, target) in arrival order
  pub events: Vec<(String, String, String)>,
  pub disconnected: bool,
  pub empty_before_disconnect: bool,
}

#[derive(Clone, Debug, Default, Serialize, Deserialize)]
pub struct ChildResult {
  pub init_error: Option<String>,
  /// per thread, per event: did the emitting call return before shutdown was started?
  pub before_shutdown: Vec<Vec<bool>>,
  pub streams: BTreeMap<String, StreamResult>,
  pub shutdown_ms: u64,
  pub missing_streams: Vec<String>,
  /// `exit_after`: this result was written before the teardown; streams are not reported
  #[serde(default)]
  pub exited_right_after_teardown: bool,
}

// One static tracing callsite per (target, level).  The literals must match c19_model::TARGETS
// (checked at start-up).
macro_rules! tracing_dispatch {
  ($ti:expr, $lvl:expr, $msg:expr; $($i:literal => $t:literal),* $(,)?) => {
    match $ti {
      $( $i => match $lvl {
        1 => tracing::event!(target: $t, tracing::Level::ERROR, "{}", $msg),
        2 => tracing::event!(target: $t, tracing::Level::WARN, "{}", $msg),
        3 => tracing::event!(target: $t, tracing::Level::INFO, "{}", $msg),
        4 => tracing::event!(target: $t, tracing::Level::DEBUG, "{}", $msg),
        _ => tracing::event!(target: $t, tracing::Level::TRACE, "{}", $msg),
      }, )*
      _ => panic!("target index out of range"),
    }
  };
}

const TRACING_TARGETS: &[&str] = &["app", "app::db", "app::db::pool", "app::db::pool::conn", "app::dbx", "app::d", "apple", "apple::pie", "app_x", "ap", "other", "other::app", "unrelated", "root"];

fn emit_tracing(ti: u16, level: u8, msg: &str) {
  tracing_dispatch!(ti, level, msg;
    0 => "app", 1 => "app::db", 2 => "app::db::pool", 3 => "app::db::pool::conn", 4 => "app::dbx", 5 => "app::d", 6 => "apple",
    7 => "apple::pie", 8 => "app_x", 9 => "ap", 10 => "other", 11 => "other::app", 12 => "unrelated", 13 => "root");
}

fn emit_log(ti: u16, level: u8, msg: &str) {
  let lvl = match level {
    1 => log::Level::Error,
    2 => log::Level::Warn,
    3 => log::Level::Info,
    4 => log::Level::Debug,
    _ => log::Level::Trace,
  };
  log::log!(target: TARGETS[ti as usize], lvl, "{}", msg);
}

static EMITTED: AtomicU32 = AtomicU32::new(0);
static SHUTDOWN_STARTED: AtomicBool = AtomicBool::new(false);

pub fn main(job_path: &str) -> i32 {
  assert_eq!(TRACING_TARGETS, TARGETS, "driver callsites out of sync with c19_model::TARGETS");
  let job: Job = serde_json::from_str(&std::fs::read_to_string(job_path).expect("read job")).expect("decode job");
  let mut result = ChildResult::default();
  let write_result = |r: &ChildResult| {
    let p = std::path::Path::new(&job.out_dir).join("result.json");
    std::fs::write(p, serde_json::to_string(r).unwrap()).expect("write result");
  };

  let mut init = match fibre_logging::init_from_file(std::path::Path::new(&job.config_path)) {
    Ok(i) => i,
    Err(e) => {
      result.init_error = Some(e.to_string());
      write_result(&result);
      return 0;
    }
  };

  // custom streams: the receivers must be taken out before shutdown consumes the InitResult
  let mut consumers = Vec::new();
  let mut late = Vec::new();
  for s in &job.streams {
    let rx = match init.custom_streams.remove(&s.name) {
      Some(rx) => rx,
      None => {
        result.missing_streams.push(s.name.clone());
        continue;
      }
    };
    if s.late_drain {
      late.push((s.name.clone(), rx));
    } else {
      let got: Arc<Mutex<StreamResult>> = Arc::new(Mutex::new(StreamResult::default()));
      let g2 = got.clone();
      let delay = s.delay_us;
      let h = std::thread::spawn(move || loop {
        match rx.recv() {
          Ok(ev) => {
            g2.lock().unwrap().events.push((ev.message.unwrap_or_default(), ev.level.to_string(), ev.target));
            if delay > 0 {
              std::thread::sleep(Duration::from_micros(delay as u64));
            }
          }
          Err(_) => {
            // "after which custom streams drain and then disconnect"
            g2.lock().unwrap().disconnected = true;
            return;
          }
        }
      });
      consumers.push((s.name.clone(), got, h));
    }
  }

  let n = job.threads.len();
  let barrier = Arc::new(Barrier::new(n + 1));
  let mut emitters = Vec::new();
  for (t, script) in job.threads.iter().cloned().enumerate() {
    let barrier = barrier.clone();
    emitters.push(std::thread::Builder::new().name(format!("emitter{t}")).spawn(move || {
      let mut before = Vec::with_capacity(script.len());
      barrier.wait();
      for (seq, ev) in script.iter().enumerate() {
        let msg = format!("e{t}-{seq}");
        if ev.tracing {
          emit_tracing(ev.target, ev.level, &msg);
        } else {
          emit_log(ev.target, ev.level, &msg);
        }
        // the emitting call has returned; if shutdown has not been started yet, this event was
        // emitted (and, under the blocking policy, accepted) strictly before shutdown
        before.push(!SHUTDOWN_STARTED.load(Ordering::SeqCst));
        EMITTED.fetch_add(1, Ordering::SeqCst);
      }
      before
    }).unwrap());
  }
  barrier.wait();

  let total: u32 = job.threads.iter().map(|t| t.len() as u32).sum();
  let mut joined: Vec<Option<Vec<bool>>> = (0..n).map(|_| None).collect();
  match job.shutdown_at {
    Some(at) if at < total => {
      // shutdown races with the emitters
      while EMITTED.load(Ordering::SeqCst) < at {
        std::hint::spin_loop();
      }
    }
    _ => {
      for (i, h) in emitters.drain(..).enumerate() {
        joined[i] = Some(h.join().expect("emitter panicked"));
      }
    }
  }
  if job.exit_after {
    // "process exit right after the teardown": the report is written first (every emitter has
    // been joined, so it is complete), nothing runs between the teardown and the exit
    assert!(emitters.is_empty(), "exit_after needs the emitters joined");
    result.before_shutdown = joined.iter().map(|j| j.clone().unwrap_or_default()).collect();
    result.exited_right_after_teardown = true;
    write_result(&result);
  }
  SHUTDOWN_STARTED.store(true, Ordering::SeqCst);
  let t0 = Instant::now();
  // "shutting down or dropping the guard flushes everything buffered"
  let via_drop = job.via_drop;
  let end_ordinary = move |init: fibre_logging::InitResult| {
    if via_drop {
      drop(init);
    } else {
      init.shutdown(Duration::from_secs(20));
    }
  };
  // the generated panic is reported in one line (with RUST_BACKTRACE set the default hook
  // would symbolise a backtrace, which costs seconds per child); every other panic keeps the
  // default report
  if matches!(job.how, How::Unwind | How::UnwindThread) {
    let default_hook = std::panic::take_hook();
    std::panic::set_hook(Box::new(move |info| {
      if info.payload().downcast_ref::<&str>().map_or(false, |s| s.starts_with("logx: generated panic")) {
        eprintln!("[logx driver] generated panic in thread {:?}: the guard is dropped by unwinding", std::thread::current().name().unwrap_or("?"));
      } else {
        default_hook(info)
      }
    }));
  }
  // the guard goes out of scope because a panic unwinds through its owner
  let end_by_panic = move |init: fibre_logging::InitResult| {
    let _guard = init;
    std::panic::panic_any("logx: generated panic in the scope that owns the logging guard");
  };
  match job.how {
    How::Plain => end_ordinary(init),
    How::Unwind => {
      let r = std::panic::catch_unwind(std::panic::AssertUnwindSafe(move || end_by_panic(init)));
      assert!(r.is_err(), "the generated panic did not happen");
    }
    How::UnwindThread => {
      let r = std::thread::Builder::new().name("guard-owner".into()).spawn(move || end_by_panic(init)).unwrap().join();
      assert!(r.is_err(), "the generated panic did not happen");
    }
    How::OtherThread => {
      std::thread::Builder::new().name("guard-owner".into()).spawn(move || end_ordinary(init)).unwrap().join().expect("teardown thread panicked");
    }
  }
  if job.exit_after {
    std::process::exit(0);
  }
  result.shutdown_ms = t0.elapsed().as_millis() as u64;

  // late-drain streams: everything buffered must still be there, then Disconnected — an Empty
  // in between would be indistinguishable from a quiet system
  for (name, rx) in late {
    let mut sr = StreamResult::default();
    let mut empties = 0;
    loop {
      match rx.try_recv() {
        Ok(ev) => sr.events.push((ev.message.unwrap_or_default(), ev.level.to_string(), ev.target)),
        Err(fibre::error::TryRecvError::Disconnected) => {
          sr.disconnected = true;
          break;
        }
        Err(fibre::error::TryRecvError::Empty) => {
          sr.empty_before_disconnect = true;
          empties += 1;
          if empties > 200 {
            break;
          }
          std::thread::sleep(Duration::from_millis(10));
        }
      }
    }
    result.streams.insert(name, sr);
  }

  // emitters that were still running keep emitting into the closed pipeline and finish
  for (i, h) in emitters.drain(..).enumerate() {
    // indices: `emitters` is only non-empty here when nothing was joined above
    joined[i] = Some(h.join().expect("emitter panicked"));
  }
  result.before_shutdown = joined.into_iter().map(|j| j.unwrap_or_default()).collect();

  // concurrent consumers must observe the disconnect once they have drained what was buffered
  // (bounded wait: a consumer that makes no progress for `wait` seconds and still has not seen
  // the disconnect is reported as such; the child does not hang on it)
  let wait: u64 = std::env::var("VERIF_DISCONNECT_SECS").ok().and_then(|v| v.parse().ok()).unwrap_or(6);
  for (name, got, h) in consumers {
    let mut last_len = got.lock().unwrap().events.len();
    let mut last_progress = Instant::now();
    while !h.is_finished() && last_progress.elapsed() < Duration::from_secs(wait) {
      std::thread::sleep(Duration::from_millis(2));
      let n = got.lock().unwrap().events.len();
      if n != last_len {
        last_len = n;
        last_progress = Instant::now();
      }
    }
    let sr = got.lock().unwrap().clone();
    result.streams.insert(name, sr);
  }
  write_result(&result);
  0
}
