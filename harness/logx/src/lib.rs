//! logx as a library: the engines are shared by the `logx` binary (proptest tiers, replay) and by
//! the cargo-fuzz targets under `fuzz/` (byte-driven generation over the same interpreters).

pub mod c19_e2e;
pub mod c19_model;
pub mod c19_route;
pub mod c20_json;
pub mod c20_pattern;
pub mod c20_roller;
pub mod driver;
pub mod fuzzrun;
pub mod gen;
