//! Shared generators: strings that stress escaping, compact "repeat" strings (so that 20 kB
//! inputs stay small in replay files and shrink well), log levels.

use proptest::prelude::*;
use serde::{Deserialize, Serialize};

/// A string given as `unit` repeated `repeat` times (repeat = 1 for ordinary strings,
/// 0 = empty, thousands = "very long").
#[derive(Clone, Debug, Serialize, Deserialize, PartialEq, Eq, Hash)]
pub struct SText {
  pub unit: String,
  pub repeat: u16,
}

impl SText {
  pub fn get(&self) -> String {
    self.unit.repeat(self.repeat as usize)
  }
  pub fn lit(s: &str) -> SText {
    SText { unit: s.to_string(), repeat: 1 }
  }
}

/// Characters a JSON string encoder must escape.
pub fn needs_json_escape(s: &str) -> bool {
  s.chars().any(|c| c == '"' || c == '\\' || (c as u32) < 0x20)
}

pub fn special_char() -> impl Strategy<Value = char> {
  prop::sample::select(vec![
    '"', '\\', '\n', '\r', '\t', '\u{0}', '\u{1}', '\u{8}', '\u{b}', '\u{c}', '\u{1f}', '\u{7f}', '\u{80}', '\u{85}', '\u{a0}', '\u{2028}', '\u{2029}',
    '\u{d7ff}', '\u{e000}', '\u{fffd}', '\u{fffe}', '\u{ffff}', '\u{10000}', '\u{10ffff}', '\u{1f600}', 'é', '日', 'ß', '/', '\'', '{', '}', '%', ':', ',', ' ', '$',
  ])
}

pub fn any_char() -> impl Strategy<Value = char> {
  prop_oneof![
    5 => special_char(),
    6 => (0x20u8..0x7f).prop_map(|b| b as char),
    2 => any::<char>(),
  ]
}

pub fn short_string(max: usize) -> impl Strategy<Value = String> {
  prop::collection::vec(any_char(), 0..=max).prop_map(|v| v.into_iter().collect())
}

/// Arbitrary text: mostly short, sometimes empty, sometimes 10–60 kB.
pub fn stext() -> impl Strategy<Value = SText> {
  prop_oneof![
    14 => short_string(24).prop_map(|unit| SText { unit, repeat: 1 }),
    1 => Just(SText { unit: String::new(), repeat: 0 }),
    1 => (short_string(8), 1000u16..4000).prop_map(|(unit, repeat)| SText { unit, repeat }),
  ]
}

/// tracing levels as 1=ERROR .. 5=TRACE (0 = OFF where a filter is meant)
pub fn level_of(n: u8) -> tracing::Level {
  match n {
    1 => tracing::Level::ERROR,
    2 => tracing::Level::WARN,
    3 => tracing::Level::INFO,
    4 => tracing::Level::DEBUG,
    _ => tracing::Level::TRACE,
  }
}

pub fn level_name(n: u8) -> &'static str {
  match n {
    0 => "OFF",
    1 => "ERROR",
    2 => "WARN",
    3 => "INFO",
    4 => "DEBUG",
    _ => "TRACE",
  }
}

pub fn panic_msg(p: &Box<dyn std::any::Any + Send>) -> String {
  if let Some(s) = p.downcast_ref::<&str>() {
    s.to_string()
  } else if let Some(s) = p.downcast_ref::<String>() {
    s.clone()
  } else {
    "non-string panic".to_string()
  }
}

/// A short, stable tag for a panic message (used in signatures).
pub fn panic_site(msg: &str) -> String {
  msg.chars().take(40).map(|c| if c.is_ascii_alphanumeric() { c } else { '_' }).collect()
}

pub fn clip(s: &str, n: usize) -> String {
  let mut out: String = s.chars().take(n).collect();
  if s.chars().count() > n {
    out.push('…');
  }
  out
}

/// Per-case scratch directory: memory-backed (/dev/shm) when available — the roller and the
/// end-to-end cases are dominated by small file operations — otherwise the system temp dir.
/// Removed when the returned guard is dropped/closed.
pub fn scratch_dir(prefix: &str) -> std::io::Result<tempfile::TempDir> {
  let shm = std::path::Path::new("/dev/shm");
  if std::env::var("VERIF_NO_SHM").is_err() && shm.is_dir() {
    if let Ok(d) = tempfile::Builder::new().prefix(prefix).tempdir_in(shm) {
      return Ok(d);
    }
  }
  tempfile::Builder::new().prefix(prefix).tempdir()
}

/// One scenario of a newly added class per engine, for the evidence samples (vcore keeps the
/// first cases it sees, whatever their class).  Set once, by the first non-trivial case of the
/// class; read by main.rs after the engine finished.
pub struct ClassSample {
  taken: std::sync::atomic::AtomicBool,
  slot: std::sync::Mutex<Option<serde_json::Value>>,
}

impl ClassSample {
  pub const fn new() -> ClassSample {
    ClassSample { taken: std::sync::atomic::AtomicBool::new(false), slot: std::sync::Mutex::new(None) }
  }
  pub fn offer<T: Serialize>(&self, scenario: &T) {
    if !self.taken.swap(true, std::sync::atomic::Ordering::SeqCst) {
      *self.slot.lock().unwrap() = serde_json::to_value(scenario).ok();
    }
  }
  pub fn take(&self) -> Option<serde_json::Value> {
    self.slot.lock().unwrap().take()
  }
}
