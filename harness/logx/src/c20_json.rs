//! C20, JSON-lines encoder: round trip through the public `JsonLinesFormatter`.
//!
//! Property text served here:
//!   "Every JSON-lines record is a single line of valid JSON that round-trips the event's level,
//!    target, message and fields for arbitrary strings (quotes, backslashes, newlines, control
//!    and non-ASCII characters)"      [quantifier: "... empty and very long strings, non-finite floats"]

use crate::gen::*;
use chrono::TimeZone;
use fibre_logging::config::processed::JsonLinesEncoderInternal;
use fibre_logging::encoders::{json::JsonLinesFormatter, EventFormatter};
use fibre_logging::{LogEvent, LogValue};
use proptest::prelude::*;
use serde::{Deserialize, Serialize};
use serde_json::Value;
use std::collections::BTreeMap;
use vcore::{CaseReport, Failure};

const P: &str = "C20";

/// The keys the record schema itself uses at top level (json.rs `format_event`).
pub const CORE_KEYS: &[&str] = &["timestamp", "level", "target", "message", "name", "span_id", "parent_id", "thread_id", "thread_name"];

#[derive(Clone, Debug, Serialize, Deserialize, PartialEq)]
pub enum Val {
  Str(SText),
  Int(i64),
  /// f64 by bit pattern (NaN / inf cannot be written into a replay file as numbers)
  Float(u64),
  Bool(bool),
  Debug(SText),
}

#[derive(Clone, Debug, Serialize, Deserialize)]
pub struct EventSpec {
  pub level: u8,
  pub target: SText,
  pub name: SText,
  pub message: Option<SText>,
  pub fields: Vec<(SText, Val)>,
  pub span_id: Option<String>,
  pub parent_id: Option<String>,
  pub thread_id: Option<String>,
  pub thread_name: Option<SText>,
  pub ts_secs: i64,
  pub ts_nanos: u32,
}

#[derive(Clone, Debug, Serialize, Deserialize)]
pub struct JsonCase {
  pub flatten: bool,
  pub event: EventSpec,
}

pub fn float_bits() -> impl Strategy<Value = u64> {
  prop_oneof![
    3 => prop::sample::select(vec![
      f64::NAN.to_bits(), f64::INFINITY.to_bits(), f64::NEG_INFINITY.to_bits(), (-0.0f64).to_bits(), 0.0f64.to_bits(),
      f64::MAX.to_bits(), f64::MIN.to_bits(), f64::MIN_POSITIVE.to_bits(), 1u64 /* smallest subnormal */, f64::EPSILON.to_bits(),
      1.0f64.to_bits(), 0.1f64.to_bits(), 1e21f64.to_bits(), 1e-7f64.to_bits(), 9007199254740993f64.to_bits(), 0x7ff8_0000_0000_0001u64 /* NaN payload */,
    ]),
    3 => any::<f64>().prop_map(|f| f.to_bits()),
    2 => any::<u64>(),
  ]
}

fn val() -> impl Strategy<Value = Val> {
  prop_oneof![
    4 => stext().prop_map(Val::Str),
    2 => prop_oneof![Just(i64::MIN), Just(i64::MAX), Just(0i64), Just(-1i64), any::<i64>()].prop_map(Val::Int),
    3 => float_bits().prop_map(Val::Float),
    1 => any::<bool>().prop_map(Val::Bool),
    2 => stext().prop_map(Val::Debug),
  ]
}

fn key() -> impl Strategy<Value = SText> {
  prop_oneof![
    // keys colliding with the names the record schema uses itself
    3 => prop::sample::select(vec!["timestamp", "level", "target", "message", "name", "span_id", "parent_id", "thread_id", "thread_name", "fields", "message.1", "line", "file"]).prop_map(SText::lit),
    4 => "[a-z_]{1,8}".prop_map(|s| SText::lit(&s)),
    3 => short_string(10).prop_map(|unit| SText { unit, repeat: 1 }),
    1 => Just(SText { unit: String::new(), repeat: 0 }),
  ]
}

pub fn event_spec() -> impl Strategy<Value = EventSpec> {
  let ids = (prop::option::of("[0-9a-zA-Z()]{1,8}"), prop::option::of("[0-9a-zA-Z()]{1,8}"), prop::option::of("[0-9]{1,4}"), prop::option::of(stext()));
  (1u8..=5, stext(), stext(), prop::option::weighted(0.85, stext()), prop::collection::vec((key(), val()), 0..6), ids, 978_307_200i64..4_070_908_800i64, 0u32..1_000_000_000u32).prop_map(
    |(level, target, name, message, fields, (span_id, parent_id, thread_id, thread_name), ts_secs, ts_nanos)| EventSpec { level, target, name, message, fields, span_id, parent_id, thread_id, thread_name, ts_secs, ts_nanos },
  )
}

pub static CLASS_SAMPLE: ClassSample = ClassSample::new();

/// The record keys an event only carries when it has the attribute.
pub const OPTIONAL_KEYS: &[&str] = &["message", "span_id", "parent_id", "thread_id", "thread_name"];

fn attribute_present(e: &EventSpec, key: &str) -> bool {
  match key {
    "message" => e.message.is_some(),
    "span_id" => e.span_id.is_some(),
    "parent_id" => e.parent_id.is_some(),
    "thread_id" => e.thread_id.is_some(),
    "thread_name" => e.thread_name.is_some(),
    _ => true,
  }
}

/// The class "events with absent optional attributes x reserved field names": 1-3 custom fields
/// named like optional record keys, the event's own attribute of that name removed (`strip`) or
/// kept as generated.  (Plain data once generated: the scenario is still just an `EventSpec`.)
fn collisions() -> impl Strategy<Value = Vec<(u16, Val, bool)>> {
  prop::collection::vec((any::<u16>(), val(), prop::bool::weighted(0.7)), 1..=3)
}

pub fn strategy() -> impl Strategy<Value = JsonCase> {
  (prop::bool::weighted(0.6), event_spec(), prop::option::weighted(0.25, collisions())).prop_map(|(flatten, mut event, coll)| {
    for (k, v, strip) in coll.unwrap_or_default() {
      let key = OPTIONAL_KEYS[vcore::idx(k, OPTIONAL_KEYS.len())];
      if strip {
        match key {
          "message" => event.message = None,
          "span_id" => event.span_id = None,
          "parent_id" => event.parent_id = None,
          "thread_id" => event.thread_id = None,
          _ => event.thread_name = None,
        }
      }
      event.fields.push((SText::lit(key), v));
    }
    JsonCase { flatten, event }
  })
}

pub fn log_value(v: &Val) -> LogValue {
  match v {
    Val::Str(s) => LogValue::String(s.get()),
    Val::Int(i) => LogValue::Int(*i),
    Val::Float(b) => LogValue::Float(f64::from_bits(*b)),
    Val::Bool(b) => LogValue::Bool(*b),
    Val::Debug(s) => LogValue::Debug(s.get()),
  }
}

pub fn build_event(e: &EventSpec) -> LogEvent {
  let mut ev = LogEvent::new(level_of(e.level), e.target.get(), e.name.get(), e.message.as_ref().map(|m| m.get()));
  ev.timestamp = chrono::Utc.timestamp_opt(e.ts_secs, e.ts_nanos).single().expect("generated timestamp is valid");
  for (k, v) in &e.fields {
    // the event model is a map: a later duplicate key replaces the earlier one
    ev.fields.insert(k.get(), log_value(v));
  }
  ev.span_id = e.span_id.clone();
  ev.parent_id = e.parent_id.clone();
  ev.thread_id = e.thread_id.clone();
  ev.thread_name = e.thread_name.as_ref().map(|t| t.get());
  ev
}

/// Does the JSON value `j` carry the field value `v`?
/// String/Debug -> the same string; Int -> the same integer; Bool -> the same bool; finite
/// Float -> a number that parses back to the same f64 (same bits, so -0.0 keeps its sign);
/// non-finite Float -> `null` (no JSON number can represent NaN/±inf, so this documented lossy
/// encoding is *accepted*; a string spelling such as "NaN" would be accepted too).
fn value_matches(v: &LogValue, j: &Value) -> bool {
  match v {
    LogValue::String(s) | LogValue::Debug(s) => j.as_str() == Some(s.as_str()),
    LogValue::Int(i) => j.as_i64() == Some(*i),
    LogValue::Bool(b) => j.as_bool() == Some(*b),
    LogValue::Float(f) => {
      if f.is_finite() {
        j.is_number() && j.as_f64().map(|x| x.to_bits()) == Some(f.to_bits())
      } else {
        j.is_null() || j.is_string()
      }
    }
  }
}

pub fn execute(c: &JsonCase) -> Result<CaseReport, Failure> {
  let mode = if c.flatten { "flatten" } else { "nested" };
  let sig = |clause: &str| format!("json/{mode}/{clause}");
  let ev = build_event(&c.event);
  let formatter = JsonLinesFormatter::new(JsonLinesEncoderInternal { flatten_fields: c.flatten });
  let out = std::panic::catch_unwind(std::panic::AssertUnwindSafe(|| formatter.format_event(&ev)));
  let bytes = match out {
    Err(p) => {
      let m = panic_msg(&p);
      return Err(Failure::new(P, format!("json/{mode}/panic/{}", panic_site(&m)), format!("format_event panicked: {m}")));
    }
    Ok(Err(e)) => return Err(Failure::new(P, sig("format_error"), format!("format_event returned Err: {e}"))),
    Ok(Ok(b)) => b,
  };

  // "Every JSON-lines record is a single line ..."
  let text = match String::from_utf8(bytes) {
    Ok(t) => t,
    Err(_) => return Err(Failure::new(P, sig("not_utf8"), "record is not UTF-8")),
  };
  let body = match text.strip_suffix('\n') {
    Some(b) => b,
    None => return Err(Failure::new(P, sig("no_line_terminator"), format!("record does not end with \\n: {:?}", clip(&text, 120)))),
  };
  if body.contains('\n') || body.contains('\r') {
    return Err(Failure::new(P, sig("multi_line"), format!("record body contains a raw line break: {:?}", clip(body, 160))));
  }
  // "... of valid JSON ..."
  let parsed: Value = match serde_json::from_str(body) {
    Ok(v) => v,
    Err(e) => return Err(Failure::new(P, sig("invalid_json"), format!("{e}: {:?}", clip(body, 160)))),
  };
  let obj = match parsed.as_object() {
    Some(o) => o,
    None => return Err(Failure::new(P, sig("not_an_object"), clip(body, 160))),
  };
  // "... that round-trips the event's level ..."
  let lvl = obj.get("level").and_then(|v| v.as_str()).and_then(|s| s.parse::<tracing::Level>().ok());
  if lvl != Some(ev.level) {
    return Err(Failure::new(P, sig("level"), format!("level {:?} decoded as {:?}", ev.level, obj.get("level"))));
  }
  // "... target ..."
  if obj.get("target").and_then(|v| v.as_str()) != Some(ev.target.as_str()) {
    return Err(Failure::new(P, sig("target"), format!("target {:?} decoded as {:?}", clip(&ev.target, 80), obj.get("target").map(|v| clip(&v.to_string(), 80)))));
  }
  // "... message ..."  (an absent message decodes as absent/null)
  let msg_ok = match (&ev.message, obj.get("message")) {
    (Some(m), Some(Value::String(s))) => m == s,
    (None, None) | (None, Some(Value::Null)) => true,
    _ => false,
  };
  if !msg_ok {
    return Err(Failure::new(P, sig("message"), format!("message {:?} decoded as {:?}", ev.message.as_ref().map(|m| clip(m, 80)), obj.get("message").map(|v| clip(&v.to_string(), 80)))));
  }
  // "... and fields".  The decoder a reader of the record can apply without knowing the event:
  //   nested : fields = the object under "fields" (absent = none)
  //   flatten: fields = every top-level key that is not one of the schema's own keys, plus the
  //            members of "fields" when that is an object (a LogValue never encodes as an object)
  let mut decoded: BTreeMap<String, Value> = BTreeMap::new();
  if c.flatten {
    for (k, v) in obj {
      if CORE_KEYS.contains(&k.as_str()) {
        continue;
      }
      if k == "fields" {
        if let Some(inner) = v.as_object() {
          for (ik, iv) in inner {
            decoded.insert(ik.clone(), iv.clone());
          }
          continue;
        }
      }
      decoded.insert(k.clone(), v.clone());
    }
  } else {
    match obj.get("fields") {
      None => {}
      Some(Value::Object(inner)) => {
        for (ik, iv) in inner {
          decoded.insert(ik.clone(), iv.clone());
        }
      }
      Some(other) => return Err(Failure::new(P, sig("fields_not_object"), clip(&other.to_string(), 120))),
    }
  }
  let want: BTreeMap<&String, &LogValue> = ev.fields.iter().collect();
  for (k, v) in &want {
    match decoded.get(*k) {
      None => {
        let collides = CORE_KEYS.contains(&k.as_str()) || k.as_str() == "fields";
        let clause = if collides { "field_lost_reserved_key" } else { "field_lost" };
        return Err(Failure::new(P, sig(clause), format!("field {:?}={:?} is not recoverable from the record {:?}", clip(k, 40), clip(&format!("{v:?}"), 60), clip(body, 200))));
      }
      Some(j) => {
        if !value_matches(v, j) {
          let kind = match v {
            LogValue::String(_) => "string",
            LogValue::Debug(_) => "debug",
            LogValue::Int(_) => "int",
            LogValue::Float(_) => "float",
            LogValue::Bool(_) => "bool",
          };
          return Err(Failure::new(P, sig(&format!("field_value_{kind}")), format!("field {:?}: {:?} decoded as {}", clip(k, 40), clip(&format!("{v:?}"), 60), clip(&j.to_string(), 60))));
        }
      }
    }
  }
  if decoded.len() != want.len() {
    let extra: Vec<_> = decoded.keys().filter(|k| !want.contains_key(k)).map(|k| clip(k, 30)).collect();
    return Err(Failure::new(P, sig("field_invented"), format!("record carries fields the event does not have: {extra:?}")));
  }

  // ---- report --------------------------------------------------------------------------------
  let mut rep = CaseReport::new();
  rep.class(format!("json/{mode}"));
  let mut strings: Vec<&str> = vec![ev.target.as_str()];
  if let Some(m) = &ev.message {
    strings.push(m);
  }
  for (k, v) in &ev.fields {
    strings.push(k);
    if let LogValue::String(s) | LogValue::Debug(s) = v {
      strings.push(s);
    }
  }
  // non-triviality (C20 / json): some string of the event needs JSON escaping
  rep.nontrivial = strings.iter().any(|s| needs_json_escape(s));
  if rep.nontrivial {
    rep.class("json/needs_escape");
  }
  if rep.nontrivial && c.flatten && OPTIONAL_KEYS.iter().any(|k| ev.fields.contains_key(*k) && !attribute_present(&c.event, k)) {
    CLASS_SAMPLE.offer(c);
  }
  if strings.iter().any(|s| s.len() > 8000) {
    rep.class("json/long_string");
  }
  if strings.iter().any(|s| s.is_empty()) {
    rep.class("json/empty_string");
  }
  if ev.fields.values().any(|v| matches!(v, LogValue::Float(f) if !f.is_finite())) {
    rep.class("json/nonfinite_float");
  }
  if ev.fields.keys().any(|k| CORE_KEYS.contains(&k.as_str()) || k == "fields") {
    rep.class(format!("json/{mode}/reserved_key"));
  }
  // a custom field named like an optional record key, on an event with / without that attribute
  for k in OPTIONAL_KEYS {
    if ev.fields.contains_key(*k) {
      let has = attribute_present(&c.event, k);
      rep.class(format!("json/{mode}/optional_key_field/{}", if has { "attribute_present" } else { "attribute_absent" }));
      if !has {
        rep.class(format!("json/{mode}/optional_key_field/attribute_absent/{k}"));
      }
    }
  }
  Ok(rep)
}
