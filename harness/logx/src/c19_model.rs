//! C19: the logger-tree vocabulary shared by the in-process and the end-to-end engine, and the
//! reference implementation of the routing sentence of the property.
//!
//! Property text:
//!   "An emitted event is delivered to an appender exactly when the most specific logger that
//!    names that appender and whose name is a module-path prefix of the event target (the root
//!    logger as fallback) admits the event's level, except that when the most specific matching
//!    logger overall is non-additive only that logger's own appenders can receive it."

use crate::gen::level_name;
use proptest::prelude::*;
use serde::{Deserialize, Serialize};
use vcore::idx;

/// Logger names: related by prefix with and without a module boundary.  Index 0 is the root.
pub const LOGGER_NAMES: &[&str] = &["root", "app", "app::db", "app::db::pool", "apple", "app_x", "ap", "other", "other::app", "app::d"];

/// Event targets (static: every target × level is one tracing callsite in the child driver).
pub const TARGETS: &[&str] = &["app", "app::db", "app::db::pool", "app::db::pool::conn", "app::dbx", "app::d", "apple", "apple::pie", "app_x", "ap", "other", "other::app", "unrelated", "root"];

#[derive(Clone, Debug, Serialize, Deserialize, PartialEq)]
pub struct LoggerSpec {
  /// index into LOGGER_NAMES
  pub name: u16,
  /// 0 = off, 1 = error .. 5 = trace
  pub level: u8,
  pub additive: bool,
  /// appender indices (may be empty, may repeat)
  pub appenders: Vec<u8>,
  /// spelling variant of the level string in the YAML (the format is case-insensitive)
  pub spelling: u8,
}

impl LoggerSpec {
  pub fn name_str(&self) -> &'static str {
    LOGGER_NAMES[idx(self.name, LOGGER_NAMES.len())]
  }
}

pub fn appender_name(i: u8) -> String {
  format!("A{i}")
}

/// Logger list with unique names; appender indices < `n_app`.
pub fn loggers_strategy(n_app: u8) -> impl Strategy<Value = Vec<LoggerSpec>> {
  let one = (any::<u16>(), prop_oneof![1 => Just(0u8), 8 => 1u8..=5], prop::bool::weighted(0.55), prop_oneof![2 => Just(vec![]), 8 => prop::collection::vec(0..n_app, 1..=3)], 0u8..3)
    .prop_map(|(name, level, additive, appenders, spelling)| LoggerSpec { name, level, additive, appenders, spelling });
  prop::collection::vec(one, 0..7).prop_map(|mut v| {
    let mut seen = std::collections::BTreeSet::new();
    v.retain(|l| seen.insert(l.name_str()));
    v
  })
}

fn spell(level: u8, variant: u8) -> String {
  let n = level_name(level);
  match variant % 3 {
    0 => n.to_lowercase(),
    1 => n.to_string(),
    _ => {
      let mut c = n.to_lowercase().chars().collect::<Vec<_>>();
      c[0] = c[0].to_ascii_uppercase();
      c.into_iter().collect()
    }
  }
}

/// The `loggers:` section as YAML.
pub fn loggers_yaml(loggers: &[LoggerSpec]) -> String {
  let mut s = String::from("loggers:");
  if loggers.is_empty() {
    s.push_str(" {}\n");
    return s;
  }
  s.push('\n');
  for l in loggers {
    s.push_str(&format!("  \"{}\":\n    level: {}\n", l.name_str(), spell(l.level, l.spelling)));
    let apps: Vec<String> = l.appenders.iter().map(|a| appender_name(*a)).collect();
    s.push_str(&format!("    appenders: [{}]\n", apps.join(", ")));
    // `additive` defaults to true: leave it out sometimes
    if !(l.additive && l.spelling % 2 == 0) {
      s.push_str(&format!("    additive: {}\n", l.additive));
    }
  }
  s
}

/// "whose name is a module-path prefix of the event target": the target itself or an ancestor
/// module of it (`app` matches `app` and `app::db`, not `apple`, not `app_x`).
pub fn is_module_prefix(name: &str, target: &str) -> bool {
  target == name || (target.len() >= name.len() + 2 && target.starts_with(name) && &target[name.len()..name.len() + 2] == "::")
}

#[derive(Clone, Debug, Default)]
pub struct Verdict {
  /// per appender index: should it receive the event?
  pub deliver: Vec<bool>,
  /// number of non-root loggers matching the target
  pub matched: usize,
  /// the most specific matching logger overall: None (root fallback) / Some(additive?)
  pub winner_additive: Option<bool>,
  pub winner_has_appenders: bool,
  /// some matching logger has an empty appender list
  pub matching_logger_without_appenders: bool,
}

/// Reference implementation of the routing sentence, evaluated per (event, appender).
pub fn reference(loggers: &[LoggerSpec], n_app: u8, target: &str, level: u8) -> Verdict {
  let root = loggers.iter().find(|l| l.name_str() == "root");
  // loggers "whose name is a module-path prefix of the event target"
  let mut matching: Vec<&LoggerSpec> = loggers.iter().filter(|l| l.name_str() != "root" && is_module_prefix(l.name_str(), target)).collect();
  // most specific first
  matching.sort_by_key(|l| std::cmp::Reverse(l.name_str().len()));
  // "the most specific matching logger overall"
  let winner = matching.first().copied();
  let admits = |l: &LoggerSpec| l.level != 0 && level <= l.level;
  let mut v = Verdict { matched: matching.len(), winner_additive: winner.map(|w| w.additive), winner_has_appenders: winner.map_or(false, |w| !w.appenders.is_empty()), matching_logger_without_appenders: matching.iter().any(|l| l.appenders.is_empty()), ..Default::default() };
  for a in 0..n_app {
    let d = match winner {
      // "except that when the most specific matching logger overall is non-additive only that
      //  logger's own appenders can receive it"
      Some(w) if !w.additive => w.appenders.contains(&a) && admits(w),
      _ => {
        // "the most specific logger that names that appender and whose name is a module-path
        //  prefix of the event target (the root logger as fallback) admits the event's level"
        match matching.iter().find(|l| l.appenders.contains(&a)) {
          Some(l) => admits(l),
          None => match root {
            // no root logger configured: the default root has no appenders
            Some(r) => r.appenders.contains(&a) && admits(r),
            None => false,
          },
        }
      }
    };
    v.deliver.push(d);
  }
  v
}

/// Non-triviality of a configuration (C19): "config has two loggers where one name is a prefix
/// of the other [at a module boundary] and at least one is non-additive".
pub fn config_nontrivial(loggers: &[LoggerSpec]) -> bool {
  for a in loggers {
    for b in loggers {
      let (na, nb) = (a.name_str(), b.name_str());
      if na != "root" && nb != "root" && na != nb && is_module_prefix(na, nb) && (!a.additive || !b.additive) {
        return true;
      }
    }
  }
  false
}
