//! C19 (1): in-process routing oracle.  A generated logger tree is turned into YAML, pushed
//! through hook H5 `verif::Router` (the real `process_raw_config` → `build_filter_for_appender`
//! → `EventProcessor::process_event` path with every appender replaced by an in-memory stream,
//! no process globals), and every (target, level) is compared with the reference
//! implementation of the property text in c19_model.rs — once through the pre-filter the
//! tracing front end applies and once through the one the `log` front end applies:
//!   "Each selected appender gets the event exactly once, identically whether it was emitted
//!    through log or tracing".

use crate::c19_model::*;
use crate::gen::*;
use fibre_logging::verif::{Front, Router};
use proptest::prelude::*;
use serde::{Deserialize, Serialize};
use vcore::{idx, CaseReport, Failure};

const P: &str = "C19";

#[derive(Clone, Debug, Serialize, Deserialize)]
pub struct RouteCase {
  pub n_app: u8,
  pub loggers: Vec<LoggerSpec>,
  /// (target index, level 1..=5)
  pub events: Vec<(u16, u8)>,
}

pub fn strategy(max_events: usize) -> impl Strategy<Value = RouteCase> {
  (1u8..=4).prop_flat_map(move |n_app| (Just(n_app), loggers_strategy(n_app), prop::collection::vec((any::<u16>(), 1u8..=5), 1..max_events)).prop_map(|(n_app, loggers, events)| RouteCase { n_app, loggers, events }))
}

pub fn config_yaml(n_app: u8, loggers: &[LoggerSpec]) -> String {
  let mut s = String::from("version: 1\nappenders:\n");
  for a in 0..n_app {
    // the appender kind is irrelevant in-process (the Router swaps every sink for a stream);
    // use kinds whose configuration needs no file system
    if a % 2 == 0 {
      s.push_str(&format!("  {}:\n    kind: custom\n    buffer_size: 8\n", appender_name(a)));
    } else {
      s.push_str(&format!("  {}:\n    kind: console\n", appender_name(a)));
    }
  }
  s.push_str(&loggers_yaml(loggers));
  s
}

pub fn describe(loggers: &[LoggerSpec]) -> String {
  loggers.iter().map(|l| format!("{}[{}{}→{:?}]", l.name_str(), level_name(l.level), if l.additive { "" } else { ",non-additive" }, l.appenders)).collect::<Vec<_>>().join(" ")
}

/// Signature suffix describing the routing situation of one event (so that a known finding
/// covers one situation, not the property).
pub fn situation(v: &Verdict) -> String {
  let w = match v.winner_additive {
    None => "root",
    Some(true) => "additive",
    Some(false) => "nonadditive",
  };
  format!("winner={w}{}/unwired_match={}", if v.winner_additive.is_some() && !v.winner_has_appenders { "-noapp" } else { "" }, v.matching_logger_without_appenders as u8)
}

pub fn execute(c: &RouteCase) -> Result<CaseReport, Failure> {
  let yaml = config_yaml(c.n_app, &c.loggers);
  let router = match std::panic::catch_unwind(|| Router::from_yaml(&yaml)) {
    Ok(Ok(r)) => r,
    // the generator only produces configurations the format accepts: a rejection is a
    // generator bug, not a verdict
    Ok(Err(e)) => return Err(Failure::new("INFRA", "route/config_rejected", format!("{e}\n{yaml}"))),
    Err(p) => return Err(Failure::new(P, "route/config_panic", format!("{}\n{yaml}", panic_msg(&p)))),
  };
  let mut rep = CaseReport::new();
  let mut multi_match = false;
  for (ti, level) in &c.events {
    let target = TARGETS[idx(*ti, TARGETS.len())];
    let want = reference(&c.loggers, c.n_app, target, *level);
    if want.matched >= 2 {
      multi_match = true;
    }
    for (front, fname) in [(Front::Tracing, "tracing"), (Front::Log, "log")] {
      let got = match std::panic::catch_unwind(std::panic::AssertUnwindSafe(|| router.route(front, target, level_of(*level)))) {
        Ok(g) => g,
        Err(p) => {
          std::mem::forget(router);
          return Err(Failure::new(P, format!("route/{fname}/panic"), format!("route panicked: {} ({target} {})", panic_msg(&p), level_name(*level))));
        }
      };
      for a in 0..c.n_app {
        let name = appender_name(a);
        let n = got.iter().find(|(g, _)| *g == name).map(|(_, n)| *n).unwrap_or(0);
        let expect = want.deliver[a as usize] as usize;
        if n != expect {
          let clause = if n > 1 { "duplicate" } else if n == 0 { "missing" } else { "spurious" };
          return Err(Failure::new(
            P,
            format!("route/{fname}/{clause}/{}", situation(&want)),
            format!("event target={target} level={} via {fname}: appender {name} received {n} copies, the property text gives {expect}; loggers: {}", level_name(*level), describe(&c.loggers)),
          ));
        }
      }
    }
    rep.class(format!("route/{}", situation(&want)));
  }
  let cfg_nt = config_nontrivial(&c.loggers);
  if cfg_nt {
    rep.class("route/config_prefix_pair_nonadditive");
  }
  if multi_match {
    rep.class("route/event_matched_2plus_loggers");
  }
  if c.loggers.iter().any(|l| l.appenders.is_empty() && l.name_str() != "root") {
    rep.class("route/logger_without_appenders");
  }
  // non-triviality (C19): "config has two loggers where one name is a prefix of the other and at
  // least one is non-additive; event matched >= 2 loggers"
  rep.nontrivial = cfg_nt && multi_match;
  rep.executions = c.events.len() as u64 * 2;
  Ok(rep)
}
