//! C20, rolling file appender: generated histories of writes, clock steps and restarts against
//! an observational oracle over the directory contents (hook H5 supplies the injectable clock).
//!
//! Property text served here:
//!   "The rolling file appender never loses, duplicates, reorders or tears a record across a
//!    size- or time-triggered roll, with or without compression, never clobbers an existing
//!    rolled file, and retains at most the configured number of rolled files, always the newest."
//!   [quantifier: "every rolling policy (size limit, time granularity, both, retention count,
//!    compression) and every sequence of writes and clock steps including restarts over an
//!    existing directory"]
//!
//! The oracle never predicts *when* the roller rolls (the property does not say); it only reads
//! the directory at checkpoints and checks what must hold for any rolling schedule:
//! every record carries a unique id, files are ordered the only way their names order them —
//! (period, sequence), then the active file — and the id stream read in that order must be
//! whole records, duplicate-free, increasing, gap-free, ending at the last record written, and
//! starting late only as far as retention explains.

use crate::gen::*;
use chrono::{DateTime, Duration, NaiveDate, NaiveDateTime, TimeZone, Timelike, Utc};
use fibre_logging::config::processed::{process_raw_config, AppenderKindInternal, RollingPolicyInternal};
use fibre_logging::config::raw::{AppenderConfigRaw, CompressionPolicyRaw, ConfigRaw, RollingFileAppenderConfigRaw, RollingPolicyRaw};
use fibre_logging::verif::Roller;
use proptest::prelude::*;
use serde::{Deserialize, Serialize};
use std::collections::{BTreeMap, BTreeSet};
use std::io::Read;
use std::path::Path;
use vcore::{idx, CaseReport, Failure};

const P: &str = "C20";

pub static CLASS_SAMPLE: ClassSample = ClassSample::new();

pub const PREFIXES: &[&str] = &["app", "fibre_logging.log", "my.app", "svc-1", "x"];
pub const SUFFIXES: &[&str] = &[".log", ".txt", "", ".log.out"];
pub const CSUFFIXES: &[&str] = &[".gz", ".gzip", ".z"];
pub const SIZES: &[u64] = &[5, 20, 64, 200, 1000, 8192, 20000];
const GRANS: &[&str] = &["minutely", "hourly", "daily", "never"];

#[derive(Clone, Debug, Serialize, Deserialize, PartialEq)]
pub enum Step {
  /// forward by a few seconds
  Secs(u16),
  /// jump to the next minute(0)/hour(1)/day(2) boundary plus `off` seconds (-1 = just before it)
  Boundary(u8, i8),
  /// forward by hours
  Hours(u8),
  /// backward by seconds (clock correction)
  Back(u32),
}

#[derive(Clone, Debug, Serialize, Deserialize, PartialEq)]
pub enum Op {
  /// write one record whose filler is `len` bytes, optionally newline-terminated
  Write { len: u16, nl: bool },
  Clock(Step),
  /// flush and check the directory
  Check,
  /// drop the roller (process exit) and construct a new one over the same directory
  Restart,
}

#[derive(Clone, Debug, Serialize, Deserialize)]
pub struct Seeded {
  /// how many periods before the start period (>= 1); ignored for granularity "never"
  pub periods_back: u16,
  /// the file is dated that many periods *after* the start period instead (left by a run whose
  /// clock was ahead: "restarts over an existing directory" does not say the directory was
  /// written with a clock behind ours)
  #[serde(default)]
  pub ahead: bool,
  pub seq: u8,
  pub compressed: bool,
  pub records: u8,
}

#[derive(Clone, Debug, Serialize, Deserialize)]
pub struct RollerCase {
  pub prefix: u16,
  pub suffix: u16,
  pub gran: u8,
  pub max_size: Option<u16>,
  pub retain: Option<u8>,
  /// (suffix index, max_uncompressed_sequences)
  pub compression: Option<(u16, u8)>,
  pub start_offset_secs: u32,
  /// rolled files already present in the directory (older periods), and records already in the active file
  pub seeded: Vec<Seeded>,
  pub seeded_active: u8,
  pub ops: Vec<Op>,
}

fn step() -> impl Strategy<Value = Step> {
  prop_oneof![
    5 => (0u16..90).prop_map(Step::Secs),
    6 => (0u8..3, -1i8..=1).prop_map(|(u, o)| Step::Boundary(u, o)),
    2 => (1u8..30).prop_map(Step::Hours),
    2 => prop_oneof![1u32..120, 120u32..7200, 7200u32..200_000].prop_map(Step::Back),
  ]
}

fn op() -> impl Strategy<Value = Op> {
  let len = prop_oneof![10 => 0u16..40, 3 => 40u16..400, 1 => 8100u16..9000];
  prop_oneof![
    12 => (len, any::<bool>()).prop_map(|(len, nl)| Op::Write { len, nl }),
    6 => step().prop_map(Op::Clock),
    2 => Just(Op::Check),
    2 => Just(Op::Restart),
  ]
}

pub fn strategy(max_ops: usize) -> impl Strategy<Value = RollerCase> {
  let seeded = (1u16..6, prop::bool::weighted(0.3), 1u8..4, any::<bool>(), 0u8..4).prop_map(|(periods_back, ahead, seq, compressed, records)| Seeded { periods_back, ahead, seq, compressed, records });
  (
    (any::<u16>(), any::<u16>(), 0u8..4, prop::option::weighted(0.7, any::<u16>()), prop::option::weighted(0.6, 0u8..5), prop::option::weighted(0.5, (any::<u16>(), 0u8..3))),
    0u32..260_000,
    prop::collection::vec(seeded, 0..5),
    0u8..3,
    prop::collection::vec(op(), 1..max_ops),
  )
    .prop_map(|((prefix, suffix, gran, max_size, retain, compression), start_offset_secs, seeded, seeded_active, ops)| RollerCase { prefix, suffix, gran, max_size, retain, compression, start_offset_secs, seeded, seeded_active, ops })
}

// ---------------------------------------------------------------------------------------------
// directory observation (independent of the roller's own name parsing)
// ---------------------------------------------------------------------------------------------

#[derive(Clone, Debug)]
pub struct Naming {
  pub prefix: String,
  pub suffix: String,
  /// suffix the roller recognises as "compressed" (configured one, ".gz" without compression)
  pub csuffix: String,
}

#[derive(Clone, Debug)]
pub struct RolledObs {
  /// file name without the compression suffix
  pub base_name: String,
  pub period: NaiveDateTime,
  pub seq: u32,
  pub compressed: bool,
  pub content: Vec<u8>,
}

#[derive(Clone, Debug, Default)]
pub struct DirState {
  pub rolled: Vec<RolledObs>,
  pub active: Option<Vec<u8>>,
  pub other: Vec<String>,
}

fn parse_period(s: &str) -> Option<NaiveDateTime> {
  if let Ok(dt) = NaiveDateTime::parse_from_str(s, "%Y-%m-%d_%H-%M-%S") {
    return Some(dt);
  }
  NaiveDate::parse_from_str(s, "%Y-%m-%d").ok().and_then(|d| d.and_hms_opt(0, 0, 0))
}

/// `<prefix>.<period>.<seq><suffix>[<csuffix>]`
pub fn parse_rolled_name(name: &str, n: &Naming) -> Option<(String, NaiveDateTime, u32, bool)> {
  let rest = name.strip_prefix(&n.prefix)?.strip_prefix('.')?;
  let (period_s, rest) = rest.split_once('.')?;
  let period = parse_period(period_s)?;
  let digits: String = rest.chars().take_while(|c| c.is_ascii_digit()).collect();
  if digits.is_empty() {
    return None;
  }
  let seq: u32 = digits.parse().ok()?;
  let tail = &rest[digits.len()..];
  if tail == n.suffix {
    Some((name.to_string(), period, seq, false))
  } else if !n.csuffix.is_empty() && tail.strip_suffix(n.csuffix.as_str()) == Some(n.suffix.as_str()) {
    Some((name[..name.len() - n.csuffix.len()].to_string(), period, seq, true))
  } else {
    None
  }
}

pub fn read_dir_state(dir: &Path, n: &Naming) -> Result<DirState, String> {
  let mut st = DirState::default();
  let active_name = format!("{}{}", n.prefix, n.suffix);
  let mut names: Vec<String> = std::fs::read_dir(dir).map_err(|e| e.to_string())?.filter_map(|e| e.ok()).map(|e| e.file_name().to_string_lossy().to_string()).collect();
  names.sort();
  for name in names {
    let path = dir.join(&name);
    if name == active_name {
      st.active = Some(std::fs::read(&path).map_err(|e| e.to_string())?);
    } else if let Some((base_name, period, seq, compressed)) = parse_rolled_name(&name, n) {
      let raw = std::fs::read(&path).map_err(|e| e.to_string())?;
      let content = if compressed {
        let mut out = Vec::new();
        flate2::read::GzDecoder::new(&raw[..]).read_to_end(&mut out).map_err(|e| format!("{name}: cannot gunzip: {e}"))?;
        out
      } else {
        raw
      };
      st.rolled.push(RolledObs { base_name, period, seq, compressed, content });
    } else {
      st.other.push(name);
    }
  }
  st.rolled.sort_by(|a, b| (a.period, a.seq, a.compressed).cmp(&(b.period, b.seq, b.compressed)));
  Ok(st)
}

/// Names only (no content): rolled files by base name -> period.  Used to label what the
/// directory looked like when a roll happened (report classes only, never the oracle).
pub fn rolled_names(dir: &Path, n: &Naming) -> BTreeMap<String, NaiveDateTime> {
  let mut out = BTreeMap::new();
  if let Ok(rd) = std::fs::read_dir(dir) {
    for e in rd.filter_map(|e| e.ok()) {
      if let Some((base, period, _, _)) = parse_rolled_name(&e.file_name().to_string_lossy(), n) {
        out.insert(base, period);
      }
    }
  }
  out
}

// ---------------------------------------------------------------------------------------------
// records
// ---------------------------------------------------------------------------------------------

pub fn record_bytes(id: u64, len: u16, nl: bool) -> Vec<u8> {
  let mut v = format!("<{id}:").into_bytes();
  for i in 0..len as usize {
    v.push(b'a' + ((id as usize + i) % 26) as u8);
  }
  v.push(b'>');
  if nl {
    v.push(b'\n');
  }
  v
}

/// Split `content` into whole records of `model`; Err(offset) where it stops being whole records.
pub fn parse_records(content: &[u8], model: &[Vec<u8>]) -> Result<Vec<u64>, usize> {
  let mut ids = Vec::new();
  let mut pos = 0;
  while pos < content.len() {
    if content[pos] != b'<' {
      return Err(pos);
    }
    let mut j = pos + 1;
    let mut id: u64 = 0;
    let mut nd = 0;
    while j < content.len() && content[j].is_ascii_digit() && nd < 12 {
      id = id * 10 + (content[j] - b'0') as u64;
      j += 1;
      nd += 1;
    }
    if nd == 0 || j >= content.len() || content[j] != b':' {
      return Err(pos);
    }
    let rec = match model.get(id as usize) {
      Some(r) => r,
      None => return Err(pos),
    };
    if content.len() < pos + rec.len() || &content[pos..pos + rec.len()] != &rec[..] {
      return Err(pos);
    }
    ids.push(id);
    pos += rec.len();
  }
  Ok(ids)
}

// ---------------------------------------------------------------------------------------------
// interpreter
// ---------------------------------------------------------------------------------------------

fn base_time() -> DateTime<Utc> {
  Utc.with_ymd_and_hms(2026, 3, 1, 10, 30, 15).unwrap()
}

fn period_start(t: DateTime<Utc>, gran: &str) -> DateTime<Utc> {
  match gran {
    "minutely" => t.with_second(0).unwrap().with_nanosecond(0).unwrap(),
    "hourly" => t.with_minute(0).unwrap().with_second(0).unwrap().with_nanosecond(0).unwrap(),
    "never" => DateTime::<Utc>::UNIX_EPOCH,
    _ => t.with_hour(0).unwrap().with_minute(0).unwrap().with_second(0).unwrap().with_nanosecond(0).unwrap(),
  }
}

fn period_len(gran: &str) -> Duration {
  match gran {
    "minutely" => Duration::minutes(1),
    "hourly" => Duration::hours(1),
    _ => Duration::days(1),
  }
}

/// Build the policy through the configuration path (so only policies the config format accepts
/// are ever exercised).
pub fn make_policy(c: &RollerCase, dir: &Path) -> Result<(RollingPolicyInternal, Naming), String> {
  let prefix = PREFIXES[idx(c.prefix, PREFIXES.len())].to_string();
  let suffix = SUFFIXES[idx(c.suffix, SUFFIXES.len())].to_string();
  let gran = GRANS[(c.gran as usize) % GRANS.len()];
  // mixed spellings accepted by the config format
  let gran_cfg = match c.gran % 4 {
    0 => "Minutely",
    1 => "hourly",
    2 => "DAILY",
    _ => "never",
  };
  let max_file_size = c.max_size.map(|i| {
    let b = SIZES[idx(i, SIZES.len())];
    if b % 1024 == 0 {
      format!("{}KB", b / 1024)
    } else if b % 2 == 0 {
      format!("{b}b")
    } else {
      format!("{b}")
    }
  });
  let compression = c.compression.map(|(s, k)| CompressionPolicyRaw { compressed_file_suffix: CSUFFIXES[idx(s, CSUFFIXES.len())].to_string(), max_uncompressed_sequences: k as u32 });
  let csuffix = compression.as_ref().map(|c| c.compressed_file_suffix.clone()).unwrap_or_else(|| ".gz".to_string());
  let mut raw = ConfigRaw::default();
  raw.appenders.insert(
    "r".into(),
    AppenderConfigRaw::RollingFile(RollingFileAppenderConfigRaw {
      directory: dir.to_string_lossy().to_string(),
      file_name_prefix: prefix.clone(),
      file_name_suffix: suffix.clone(),
      policy: RollingPolicyRaw { time_granularity: gran_cfg.to_string(), max_file_size, max_retained_sequences: c.retain.map(|r| r as u32), compression },
      encoder: None,
      channel_capacity: None,
      overflow: None,
    }),
  );
  let cfg = process_raw_config(raw).map_err(|e| format!("config rejected: {e}"))?;
  let policy = match &cfg.appenders["r"].kind {
    AppenderKindInternal::RollingFile(p) => p.clone(),
    _ => return Err("not a rolling policy".into()),
  };
  if policy.time_granularity != gran {
    return Err(format!("granularity {gran_cfg} processed as {}", policy.time_granularity));
  }
  Ok((policy, Naming { prefix, suffix, csuffix }))
}

struct Run<'a> {
  c: &'a RollerCase,
  dir: &'a Path,
  naming: Naming,
  model: Vec<Vec<u8>>,
  /// ids per rolled file (base name) at the previous checkpoint
  prev: BTreeMap<String, Vec<u64>>,
  names_at_restart: BTreeSet<String>,
  had_back: bool,
  had_restart: bool,
  // observations for the report
  max_rolled_seen: usize,
  saw_compressed: bool,
  saw_retention_loss: bool,
}

impl<'a> Run<'a> {
  fn trigger(&self) -> &'static str {
    match (self.had_back, self.had_restart) {
      (true, true) => "backclock+restart",
      (true, false) => "backclock",
      (false, true) => "restart",
      (false, false) => "forward",
    }
  }
  fn fail(&self, clause: &str, msg: String) -> Failure {
    Failure::new(P, format!("roller/{clause}/{}", self.trigger()), msg)
  }

  /// Read the directory and check every clause.  `fresh_restart`: remember the rolled names as
  /// the set present when the roller was (re)constructed.
  fn checkpoint(&mut self, mark_restart: bool) -> Result<(), Failure> {
    let st = read_dir_state(self.dir, &self.naming).map_err(|e| self.fail("unreadable", e))?;
    if st.rolled.iter().any(|r| r.compressed) {
      self.saw_compressed = true;
    }
    self.max_rolled_seen = self.max_rolled_seen.max(st.rolled.len());
    let list = |st: &DirState| -> String {
      let mut v: Vec<String> = st.rolled.iter().map(|r| format!("{}{}[{}B]", r.base_name, if r.compressed { "+z" } else { "" }, r.content.len())).collect();
      v.push(format!("active[{}B]", st.active.as_ref().map(|a| a.len()).unwrap_or(0)));
      v.join(", ")
    };

    // "never ... tears a record": every file, rolled or active, holds whole records only
    let mut per_file: Vec<(String, Vec<u64>)> = Vec::new();
    for r in &st.rolled {
      match parse_records(&r.content, &self.model) {
        Ok(ids) => per_file.push((r.base_name.clone(), ids)),
        Err(off) => return Err(self.fail("torn", format!("{}: content is not whole records at byte {off}; files: {}", r.base_name, list(&st)))),
      }
    }
    let active_ids = match &st.active {
      Some(a) => parse_records(a, &self.model).map_err(|off| self.fail("torn", format!("active file: content is not whole records at byte {off}; files: {}", list(&st))))?,
      None => Vec::new(),
    };
    let stream: Vec<u64> = per_file.iter().flat_map(|(_, ids)| ids.iter().copied()).chain(active_ids.iter().copied()).collect();
    let first_present = stream.iter().copied().min();
    let total = self.model.len() as u64;
    let describe = |per_file: &Vec<(String, Vec<u64>)>| -> String {
      let mut v: Vec<String> = per_file.iter().map(|(n, ids)| format!("{n}={ids:?}")).collect();
      v.push(format!("active={active_ids:?}"));
      v.join(" ")
    };

    // "never clobbers an existing rolled file": a rolled file seen at the previous checkpoint
    // still has its records, unless retention has meanwhile deleted it (then all of its
    // records are older than everything that is left)
    for (name, old_ids) in &self.prev {
      if old_ids.is_empty() {
        continue;
      }
      if let Some((_, now_ids)) = per_file.iter().find(|(n, _)| n == name) {
        let deleted_by_retention = self.c.retain.is_some() && old_ids.iter().all(|i| first_present.map_or(true, |f| *i < f));
        if now_ids != old_ids && !deleted_by_retention {
          return Err(self.fail("clobber", format!("rolled file {name} held records {old_ids:?}, now holds {now_ids:?}; {}", describe(&per_file))));
        }
      }
    }

    // "never ... duplicates ... a record"
    let mut seen = BTreeSet::new();
    for id in &stream {
      if !seen.insert(*id) {
        return Err(self.fail("duplicate", format!("record {id} present twice; {}", describe(&per_file))));
      }
    }
    // "never ... reorders ... a record": ids increase along (period, sequence), active last
    for w in stream.windows(2) {
      if w[1] < w[0] {
        return Err(self.fail("reorder", format!("record {} is read before record {} in (period, sequence) order; {}", w[0], w[1], describe(&per_file))));
      }
    }
    // "never loses ... a record": no gap inside, nothing missing at the end ...
    for w in stream.windows(2) {
      if w[1] != w[0] + 1 {
        return Err(self.fail("lost_middle", format!("records {}..{} are missing; {}", w[0] + 1, w[1], describe(&per_file))));
      }
    }
    if let Some(last) = stream.last() {
      if *last + 1 != total {
        return Err(self.fail("lost_tail", format!("last record on disk is {last}, last written is {}; {}", total - 1, describe(&per_file))));
      }
    }
    // ... and missing at the front only what retention removed: "retains at most the configured
    // number of rolled files, always the newest" — the lost records are the oldest by
    // construction of the checks above; they must be explained by a full retention window.
    let lost_head = first_present.unwrap_or(total);
    if lost_head > 0 {
      self.saw_retention_loss = true;
      match self.c.retain {
        None => return Err(self.fail("lost_head_no_retention", format!("records 0..{lost_head} are gone although no retention limit is configured; {}", describe(&per_file)))),
        Some(n) => {
          if st.rolled.len() != n as usize {
            return Err(self.fail("lost_head_beyond_retention", format!("records 0..{lost_head} are gone but only {} rolled files are kept (limit {n}); {}", st.rolled.len(), describe(&per_file))));
          }
        }
      }
    }
    // "retains at most the configured number of rolled files": enforced whenever the roller
    // rolled; a directory that already held more at (re)start is only required to be trimmed
    // by the next roll
    let names_now: BTreeSet<String> = st.rolled.iter().map(|r| r.base_name.clone()).collect();
    if mark_restart {
      self.names_at_restart = names_now.clone();
    }
    if let Some(n) = self.c.retain {
      if st.rolled.len() > n as usize && names_now != self.names_at_restart {
        return Err(self.fail("retention_exceeded", format!("{} rolled files kept, limit {n}: {}", st.rolled.len(), list(&st))));
      }
    }
    self.prev = per_file.into_iter().collect();
    Ok(())
  }
}

pub fn execute(c: &RollerCase) -> Result<CaseReport, Failure> {
  let tmp = crate::gen::scratch_dir("logx-roller-").map_err(|e| Failure::new("INFRA", "tempdir", e.to_string()))?;
  let r = execute_in(c, tmp.path());
  let _ = tmp.close();
  r
}

fn execute_in(c: &RollerCase, dir: &Path) -> Result<CaseReport, Failure> {
  let (policy, naming) = make_policy(c, dir).map_err(|e| Failure::new(P, "roller/config_rejected", e))?;
  let gran = policy.time_granularity.clone();
  let mut now = base_time() + Duration::seconds(c.start_offset_secs as i64);
  let mut run = Run { c, dir, naming: naming.clone(), model: Vec::new(), prev: BTreeMap::new(), names_at_restart: BTreeSet::new(), had_back: false, had_restart: false, max_rolled_seen: 0, saw_compressed: false, saw_retention_loss: false };

  // ---- seed the directory: "restarts over an existing directory" ------------------------------
  // rolled files of older periods (named the way this policy names them), oldest first
  let mut seeds: BTreeMap<(NaiveDateTime, u32), (bool, u8)> = BTreeMap::new();
  for s in &c.seeded {
    let period = if gran == "never" {
      DateTime::<Utc>::UNIX_EPOCH
    } else if s.ahead {
      period_start(now, &gran) + period_len(&gran) * (s.periods_back as i32)
    } else {
      period_start(now, &gran) - period_len(&gran) * (s.periods_back as i32)
    };
    seeds.entry((period.naive_utc(), s.seq as u32)).or_insert((s.compressed, s.records));
  }
  let mut seeded_rolled = 0;
  for ((period, seq), (compressed, nrec)) in &seeds {
    let mut content = Vec::new();
    for k in 0..*nrec {
      let rec = record_bytes(run.model.len() as u64, 3 + k as u16, true);
      content.extend_from_slice(&rec);
      run.model.push(rec);
    }
    let path = policy.rolled_path(Utc.from_utc_datetime(period), *seq);
    if *compressed {
      let zpath = std::path::PathBuf::from(format!("{}{}", path.display(), naming.csuffix));
      let mut enc = flate2::write::GzEncoder::new(Vec::new(), flate2::Compression::default());
      std::io::Write::write_all(&mut enc, &content).unwrap();
      std::fs::write(&zpath, enc.finish().unwrap()).map_err(|e| Failure::new("INFRA", "seed", e.to_string()))?;
    } else {
      std::fs::write(&path, &content).map_err(|e| Failure::new("INFRA", "seed", e.to_string()))?;
    }
    seeded_rolled += 1;
  }
  if c.seeded_active > 0 {
    let mut content = Vec::new();
    for k in 0..c.seeded_active {
      let rec = record_bytes(run.model.len() as u64, 2 + k as u16, true);
      content.extend_from_slice(&rec);
      run.model.push(rec);
    }
    std::fs::write(policy.base_path(), &content).map_err(|e| Failure::new("INFRA", "seed", e.to_string()))?;
  }

  let open = |now: DateTime<Utc>, run: &Run| -> Result<Roller, Failure> {
    match std::panic::catch_unwind(std::panic::AssertUnwindSafe(|| Roller::new_at(policy.clone(), now))) {
      Ok(Ok(r)) => Ok(r),
      Ok(Err(e)) => Err(run.fail("open_error", format!("constructor failed: {e}"))),
      Err(p) => Err(run.fail("panic", format!("constructor panicked: {}", panic_msg(&p)))),
    }
  };
  let mut roller = open(now, &run)?;
  run.checkpoint(true)?;

  let mut writes = 0u32;
  // what the directory held when a roll happened, relative to the clock (labels for the report)
  let mut names_before = rolled_names(dir, &naming);
  let (mut roll_behind_newest_of_many, mut roll_behind_all, mut roll_over_two_plus) = (0u32, 0u32, 0u32);
  let mut periods_crossed = 0u32;
  let mut restarts_over_rolled = 0u32;
  for op in &c.ops {
    match op {
      Op::Write { len, nl } => {
        let rec = record_bytes(run.model.len() as u64, *len, *nl);
        run.model.push(rec.clone());
        writes += 1;
        // what the appender thread does: `write_all`, i.e. `write` until the buffer is consumed
        let res = std::panic::catch_unwind(std::panic::AssertUnwindSafe(|| {
          let mut buf = &rec[..];
          while !buf.is_empty() {
            match roller.write_at(buf, now) {
              Ok(0) => return Err("write returned 0".to_string()),
              Ok(n) => buf = &buf[n..],
              Err(e) => return Err(e.to_string()),
            }
          }
          Ok(())
        }));
        match res {
          Ok(Ok(())) => {}
          // an accepted record that the roller fails to write is a lost record
          Ok(Err(e)) => return Err(run.fail("write_error", format!("write of record {} at {now} failed: {e}", run.model.len() - 1))),
          Err(p) => {
            std::mem::forget(roller);
            return Err(run.fail("panic", format!("write panicked: {}", panic_msg(&p))));
          }
        }
        let errs = roller.take_errors();
        if !errs.is_empty() {
          return Err(run.fail("maintenance_error", format!("roller reported: {errs:?}")));
        }
        let names_after = rolled_names(dir, &naming);
        if names_after.keys().any(|k| !names_before.contains_key(k)) {
          // this write rolled
          let cur = period_start(now, &gran).naive_utc();
          let oldest = names_before.values().min().copied();
          let newest = names_before.values().max().copied();
          if names_before.len() >= 2 {
            roll_over_two_plus += 1;
            if gran != "never" && newest.map_or(false, |p| p > cur) {
              if oldest.map_or(false, |p| p <= cur) {
                roll_behind_newest_of_many += 1;
              } else {
                roll_behind_all += 1;
              }
            }
          }
        }
        names_before = names_after;
      }
      Op::Clock(s) => {
        let before = period_start(now, &gran);
        match s {
          Step::Secs(n) => now = now + Duration::seconds(*n as i64),
          Step::Hours(h) => now = now + Duration::hours(*h as i64),
          Step::Boundary(unit, off) => {
            let g = ["minutely", "hourly", "daily"][(*unit as usize) % 3];
            let next = period_start(now, g) + period_len(g);
            now = next + Duration::seconds(*off as i64);
          }
          Step::Back(n) => {
            now = now - Duration::seconds(*n as i64);
            run.had_back = true;
          }
        }
        if period_start(now, &gran) > before {
          periods_crossed += 1;
        }
      }
      Op::Check => {
        roller.flush().map_err(|e| run.fail("flush_error", e.to_string()))?;
        run.checkpoint(false)?;
      }
      Op::Restart => {
        drop(roller); // BufWriter flushes on drop, like a process that exits cleanly
        run.checkpoint(false)?;
        if !run.prev.is_empty() {
          restarts_over_rolled += 1;
        }
        run.had_restart = true;
        roller = open(now, &run)?;
        run.checkpoint(true)?;
        names_before = rolled_names(dir, &naming);
      }
    }
  }
  roller.flush().map_err(|e| run.fail("flush_error", e.to_string()))?;
  run.checkpoint(false)?;
  drop(roller);
  run.checkpoint(false)?;

  // ---- report --------------------------------------------------------------------------------
  let mut rep = CaseReport::new();
  let final_state = read_dir_state(dir, &naming).unwrap_or_default();
  let rolled_made = final_state.rolled.len() + if run.saw_retention_loss { 1 } else { 0 };
  // classify the rolls that happened by looking at the names: a period with sequence >= 2, or
  // more rolled files than periods crossed, means size rolls; crossing a period with data means
  // a time roll.  (Only used for the non-triviality class, never for the oracle.)
  let new_rolled: Vec<&RolledObs> = final_state.rolled.iter().filter(|r| !seeds.contains_key(&(r.period, r.seq))).collect();
  let size_roll = c.max_size.is_some() && (new_rolled.len() as u32 > periods_crossed || new_rolled.iter().any(|r| r.seq >= 2));
  let time_roll = gran != "never" && periods_crossed > 0 && writes > 0 && !new_rolled.is_empty();
  rep.class(format!("roller/gran={gran}"));
  rep.class(format!("roller/size={}", c.max_size.is_some()));
  rep.class(format!("roller/retain={}", c.retain.map(|r| r.to_string()).unwrap_or_else(|| "none".into())));
  rep.class(format!("roller/compression={}", c.compression.is_some()));
  if size_roll {
    rep.class("roller/size_roll");
  }
  if time_roll {
    rep.class("roller/time_roll");
  }
  if run.saw_compressed {
    rep.class("roller/compressed_file_seen");
  }
  if run.saw_retention_loss {
    rep.class("roller/retention_deleted");
  }
  if run.had_back {
    rep.class("roller/backward_clock");
  }
  if restarts_over_rolled > 0 || (seeded_rolled > 0) {
    rep.class("roller/over_existing_rolled_files");
  }
  if rolled_made == 0 {
    rep.class("roller/no_roll");
  }
  if gran != "never" && c.seeded.iter().any(|s| s.ahead) {
    rep.class("roller/existing_rolled_files_dated_ahead");
    if c.seeded.iter().any(|s| !s.ahead) {
      rep.class("roller/existing_rolled_files_dated_before_and_after_now");
    }
  }
  if roll_over_two_plus > 0 {
    rep.class("roller/roll_over_2plus_rolled_files");
  }
  if roll_behind_newest_of_many > 0 {
    rep.class("roller/roll_with_clock_between_oldest_and_newest_rolled_file");
    if c.retain.is_some() {
      rep.class("roller/roll_with_clock_between_oldest_and_newest_rolled_file/retention");
    }
  }
  if roll_behind_all > 0 {
    rep.class("roller/roll_with_clock_behind_every_rolled_file");
  }
  // non-triviality (C20 / roller): ">= 1 size roll and >= 1 time roll in one history, or a
  // restart over existing rolled files" (a start over a seeded directory is such a restart)
  rep.nontrivial = (size_roll && time_roll) || ((restarts_over_rolled > 0 || seeded_rolled > 0) && writes > 0 && !new_rolled.is_empty());
  if rep.nontrivial {
    rep.class("roller/nontrivial");
    if roll_behind_newest_of_many > 0 && c.retain.is_some() && c.seeded.iter().any(|s| s.ahead) {
      CLASS_SAMPLE.offer(c);
    }
  }
  Ok(rep)
}
