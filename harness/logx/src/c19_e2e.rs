//! C19 (2): end-to-end delivery through the real `init_from_file`, `log` / `tracing` front ends,
//! appender channels, writer threads and shutdown — one child process per generated case
//! (driver.rs).  The parent reads custom-stream transcripts, appender files and the child's
//! stdout and checks, per appender:
//!
//!   "An emitted event is delivered to an appender exactly when ..."      → spurious / lost,
//!        against the reference implementation in c19_model.rs
//!   "Each selected appender gets the event exactly once,"                 → duplicate
//!   "identically whether it was emitted through log or tracing,"          → same expectation for
//!        both APIs; delivered level/target text equals the emitted one
//!   "and in emission order per emitting thread."                          → reorder
//!   "With the blocking overflow policy no accepted event is lost, including at shutdown:
//!    shutting down or dropping the guard flushes everything buffered,"    → lost / gap: every
//!        event whose emitting call returned before shutdown was started is present; per
//!        thread the delivered events are a gap-free prefix of the expected ones
//!   "after which custom streams drain and then disconnect."               → no_disconnect /
//!        empty_before_disconnect
//!
//! Real threads: a failing case is re-run by `replay` several times (statistical replay).

use crate::c19_model::*;
use crate::c19_route::{describe, situation};
use crate::c20_roller::{read_dir_state, Naming};
use crate::driver::{ChildResult, Ev, How, Job, StreamJob};
use crate::gen::*;
use proptest::prelude::*;
use serde::{Deserialize, Serialize};
use std::collections::{BTreeMap, BTreeSet};
use std::path::Path;
use std::time::{Duration, Instant};
use vcore::{idx, CaseReport, Failure};

const P: &str = "C19";

pub static CLASS_SAMPLE: ClassSample = ClassSample::new();

#[derive(Clone, Debug, Serialize, Deserialize, PartialEq)]
pub enum AppKind {
  /// custom stream; `late`: drained only after shutdown returned
  Custom {
    buffer: u16,
    late: bool,
    /// slow consumer: microseconds of sleep per event (0 = none)
    #[serde(default)]
    slow_us: u16,
  },
  /// plain file; json: json_lines encoder instead of the pattern encoder
  File { json: bool, flatten: bool },
  Console,
  /// rolling file with a size limit (bytes)
  Rolling { max_size: u16 },
}

#[derive(Clone, Debug, Serialize, Deserialize, PartialEq)]
pub struct AppSpec {
  pub kind: AppKind,
  /// overflow policy: block (true) / drop (false)
  pub block: bool,
  /// channel capacity of byte appenders
  pub cap: u16,
}

#[derive(Clone, Debug, Serialize, Deserialize)]
pub struct EvSpec {
  pub target: u16,
  pub level: u8,
  pub tracing: bool,
}

#[derive(Clone, Debug, Serialize, Deserialize)]
pub struct E2eCase {
  pub appenders: Vec<AppSpec>,
  pub loggers: Vec<LoggerSpec>,
  pub threads: Vec<Vec<EvSpec>>,
  /// shut down after this permille of all events has been emitted (None: after the emitters finished)
  pub shutdown_permille: Option<u16>,
  pub via_drop: bool,
  /// who ends the session and whether by unwinding (replay files written before this field
  /// existed decode as the ordinary teardown on the initialising thread)
  #[serde(default)]
  pub how: How,
  /// the child exits as soon as the teardown returned (only after-join teardowns)
  #[serde(default)]
  pub exit_after: bool,
}

fn app_spec() -> impl Strategy<Value = AppSpec> {
  let kind = prop_oneof![
    4 => (prop::sample::select(vec![1u16, 2, 3, 8, 64, 256]), prop::bool::weighted(0.3), prop_oneof![3 => Just(0u16), 1 => prop::sample::select(vec![50u16, 300, 1500])]).prop_map(|(buffer, late, slow_us)| AppKind::Custom { buffer, late, slow_us }),
    3 => (any::<bool>(), any::<bool>()).prop_map(|(json, flatten)| AppKind::File { json, flatten }),
    1 => Just(AppKind::Console),
    2 => prop::sample::select(vec![40u16, 200, 2000]).prop_map(|max_size| AppKind::Rolling { max_size }),
  ];
  (kind, prop::bool::weighted(0.85), prop::sample::select(vec![1u16, 2, 4, 16, 1024])).prop_map(|(kind, block, cap)| AppSpec { kind, block, cap })
}

pub fn strategy(max_events_per_thread: usize) -> impl Strategy<Value = E2eCase> {
  (1usize..=4).prop_flat_map(move |n_app| {
    let ev = (any::<u16>(), 1u8..=5, any::<bool>()).prop_map(|(target, level, tracing)| EvSpec { target, level, tracing });
    (
      prop::collection::vec(app_spec(), n_app..=n_app),
      loggers_strategy(n_app as u8),
      prop::collection::vec(prop::collection::vec(ev, 0..max_events_per_thread), 1..=4),
      prop::option::weighted(0.45, 0u16..1000),
      prop::bool::weighted(0.42),
      // "shutdown at any moment": the ways a session ends — the ordinary one first (shrink target)
      prop_oneof![4 => Just(How::Plain), 2 => Just(How::OtherThread), 3 => Just(How::Unwind), 3 => Just(How::UnwindThread)],
      prop::bool::weighted(0.3),
    )
      .prop_map(|(mut appenders, loggers, threads, shutdown_permille, via_drop, how, exit_after)| {
        // only a guard can be dropped by unwinding; for shutdown() the choice is the thread.
        // (Drop waits 5 s for the writers, shutdown() here 20 s: the share of drops is kept
        // moderate so that a starved machine does not turn many cases inconclusive.)
        let how = match (via_drop, how) {
          (false, How::Unwind) => How::Plain,
          (false, How::UnwindThread) => How::OtherThread,
          (_, h) => h,
        };
        // at most one console appender (there is one stdout)
        let mut seen_console = false;
        for a in appenders.iter_mut() {
          if a.kind == AppKind::Console {
            if seen_console {
              a.kind = AppKind::File { json: false, flatten: false };
            }
            seen_console = true;
          }
        }
        normalise(E2eCase { appenders, loggers, threads, shutdown_permille, via_drop, how, exit_after })
      })
  })
}

/// Combinations that mean nothing are mapped onto ones that do (also applied to decoded
/// scenarios, so fuzz inputs and hand-written replays cannot leave the domain):
/// a guard can only be *dropped* by unwinding; an immediate exit is only generated when every
/// emitter has been joined (otherwise "emitted before the teardown began" is not known when the
/// report has to be written) and when some appender leaves something to read after the exit.
pub fn normalise(mut c: E2eCase) -> E2eCase {
  if matches!(c.how, How::Unwind | How::UnwindThread) {
    c.via_drop = true;
  }
  let total = total_events(&c);
  let concurrent = matches!(c.shutdown_permille, Some(p) if ((total as u64 * p as u64) / 1000) < total as u64);
  if concurrent || c.appenders.iter().all(|a| matches!(a.kind, AppKind::Custom { .. })) {
    c.exit_after = false;
  }
  c
}

fn total_events(c: &E2eCase) -> usize {
  c.threads.iter().map(|t| t.len()).sum()
}

fn kind_tag(k: &AppKind) -> &'static str {
  match k {
    AppKind::Custom { late: true, .. } => "custom_late",
    AppKind::Custom { slow_us, .. } if *slow_us > 0 => "custom_slow",
    AppKind::Custom { .. } => "custom",
    AppKind::File { json: true, .. } => "file_json",
    AppKind::File { .. } => "file",
    AppKind::Console => "console",
    AppKind::Rolling { .. } => "rolling",
  }
}

const LINE_PATTERN: &str = "%m|%p|%t%n";

pub fn config_yaml(c: &E2eCase, dir: &Path) -> String {
  let total = total_events(c);
  let mut s = String::from("version: 1\nappenders:\n");
  for (i, a) in c.appenders.iter().enumerate() {
    let name = appender_name(i as u8);
    let overflow = if a.block { "block" } else { "drop" };
    let encoder = |json: bool, flatten: bool| {
      if json {
        format!("    encoder:\n      kind: json_lines\n      flatten_fields: {flatten}\n")
      } else {
        format!("    encoder:\n      kind: pattern\n      pattern: \"{LINE_PATTERN}\"\n")
      }
    };
    match &a.kind {
      AppKind::Custom { buffer, late, .. } => {
        // a stream nobody reads until after shutdown must be able to hold the whole script,
        // otherwise the blocking policy blocks the emitters forever — by design, not a defect
        let b = if *late { (*buffer as usize).max(total + 1) } else { *buffer as usize };
        s.push_str(&format!("  {name}:\n    kind: custom\n    buffer_size: {b}\n    overflow: {overflow}\n"));
      }
      AppKind::File { json, flatten } => {
        s.push_str(&format!("  {name}:\n    kind: file\n    path: \"{}\"\n{}    channel_capacity: {}\n    overflow: {overflow}\n", dir.join(format!("{name}.log")).display(), encoder(*json, *flatten), a.cap));
      }
      AppKind::Console => {
        s.push_str(&format!("  {name}:\n    kind: console\n{}    channel_capacity: {}\n    overflow: {overflow}\n", encoder(false, false), a.cap));
      }
      AppKind::Rolling { max_size } => {
        s.push_str(&format!(
          "  {name}:\n    kind: rolling_file\n    directory: \"{}\"\n    file_name_prefix: roll\n    file_name_suffix: .log\n    policy:\n      time_granularity: never\n      max_file_size: \"{max_size}\"\n{}    channel_capacity: {}\n    overflow: {overflow}\n",
          dir.join(format!("{name}.d")).display(),
          encoder(false, false),
          a.cap
        ));
      }
    }
  }
  s.push_str(&loggers_yaml(&c.loggers));
  s
}

#[derive(Clone, Debug)]
struct Delivered {
  msg: String,
  level: String,
  target: String,
}

fn parse_pattern_lines(text: &str) -> Vec<Delivered> {
  text
    .lines()
    .map(|l| {
      let mut it = l.splitn(3, '|');
      Delivered { msg: it.next().unwrap_or("").to_string(), level: it.next().unwrap_or("").to_string(), target: it.next().unwrap_or("").to_string() }
    })
    .collect()
}

fn parse_json_lines(text: &str) -> Result<Vec<Delivered>, String> {
  let mut out = Vec::new();
  for l in text.lines() {
    let v: serde_json::Value = serde_json::from_str(l).map_err(|e| format!("{e}: {l:?}"))?;
    let g = |k: &str| v.get(k).and_then(|x| x.as_str()).unwrap_or("").to_string();
    out.push(Delivered { msg: g("message"), level: g("level"), target: g("target") });
  }
  Ok(out)
}

fn parse_id(msg: &str) -> Option<(usize, usize)> {
  let rest = msg.strip_prefix('e')?;
  let (t, s) = rest.split_once('-')?;
  Some((t.parse().ok()?, s.parse().ok()?))
}

enum ChildOutcome {
  /// the harness could not run the child at all (never a verdict)
  Infra(String),
  Done(ChildResult),
  TimedOut,
  Crashed(String),
}

fn run_child(job_path: &Path, dir: &Path) -> ChildOutcome {
  // the running binary itself: /proc/self/exe keeps working when a concurrent `cargo build`
  // replaces the file on disk while this check runs
  let exe = if Path::new("/proc/self/exe").exists() {
    std::path::PathBuf::from("/proc/self/exe")
  } else {
    match std::env::current_exe() {
      Ok(e) => e,
      Err(e) => return ChildOutcome::Infra(format!("current_exe: {e}")),
    }
  };
  let stdout = std::fs::File::create(dir.join("stdout.txt")).expect("stdout file");
  let stderr = std::fs::File::create(dir.join("stderr.txt")).expect("stderr file");
  let mut child = match std::process::Command::new(exe).arg("drive").arg(job_path).stdin(std::process::Stdio::null()).stdout(stdout).stderr(stderr).env_remove("FIBRE_LOGGING_VERBOSE").spawn() {
    Ok(c) => c,
    Err(e) => return ChildOutcome::Infra(format!("spawn: {e}")),
  };
  let limit: u64 = std::env::var("VERIF_CHILD_SECS").ok().and_then(|s| s.parse().ok()).unwrap_or(45);
  let deadline = Instant::now() + Duration::from_secs(limit);
  loop {
    match child.try_wait() {
      Ok(Some(status)) => {
        let tail = || {
          let e = std::fs::read_to_string(dir.join("stderr.txt")).unwrap_or_default();
          clip(&e.lines().rev().take(8).collect::<Vec<_>>().into_iter().rev().collect::<Vec<_>>().join(" | "), 600)
        };
        if !status.success() {
          return ChildOutcome::Crashed(format!("child exited with {status}: {}", tail()));
        }
        return match std::fs::read_to_string(dir.join("result.json")).ok().and_then(|s| serde_json::from_str::<ChildResult>(&s).ok()) {
          Some(r) => ChildOutcome::Done(r),
          None => ChildOutcome::Crashed(format!("child wrote no result: {}", tail())),
        };
      }
      Ok(None) => {
        if Instant::now() > deadline {
          let _ = child.kill();
          let _ = child.wait();
          return ChildOutcome::TimedOut;
        }
        std::thread::sleep(Duration::from_millis(3));
      }
      Err(e) => return ChildOutcome::Infra(format!("wait: {e}")),
    }
  }
}

/// Bookkeeping for real-thread cases (local workaround, see NOTES.md "vcore"):
///  * a scenario observed failing stays failing for the rest of the run (answered from the book):
///    a race-dependent failure would otherwise "pass" when re-run during shrinking and be lost;
///  * a failing child can be slow (a stream that never disconnects costs the child's whole
///    wait), and proptest would re-run it hundreds of times while shrinking — after the first
///    failure shrinking gets a wall-clock budget, then every further candidate is answered
///    "passes" without running it, which makes proptest stop at the smallest scenario that
///    really failed.
pub struct Book {
  /// every failure observed: (scenario hash, scenario, failure), in order
  pub failures: Vec<(u64, E2eCase, Failure)>,
  pub first_failure_at: Option<Instant>,
}
pub static BOOK: std::sync::Mutex<Book> = std::sync::Mutex::new(Book { failures: Vec::new(), first_failure_at: None });

pub fn scenario_hash(c: &E2eCase) -> u64 {
  vcore::hash_str(&serde_json::to_string(c).unwrap_or_default())
}

pub fn execute_recording(c: &E2eCase) -> Result<CaseReport, Failure> {
  let budget: u64 = std::env::var("VERIF_E2E_SHRINK_SECS").ok().and_then(|v| v.parse().ok()).unwrap_or(15);
  let h = scenario_hash(c);
  {
    let g = BOOK.lock().unwrap();
    // proptest re-runs the current failing value after every rejected simplification: a
    // scenario already observed failing is answered from the book instead of spawning the
    // same child again (the separate `replay` command re-runs it for real)
    if let Some((_, _, f)) = g.failures.iter().find(|(bh, _, _)| *bh == h) {
      return Err(f.clone());
    }
    if let Some(t) = g.first_failure_at {
      if t.elapsed().as_secs() >= budget {
        let mut rep = CaseReport::new();
        rep.class("e2e/skipped_after_shrink_budget");
        return Ok(rep);
      }
    }
  }
  let r = execute(c);
  if let Err(f) = &r {
    if f.property == P {
      let mut g = BOOK.lock().unwrap();
      if g.first_failure_at.is_none() {
        g.first_failure_at = Some(Instant::now());
      }
      if g.failures.len() < 4096 {
        g.failures.push((h, c.clone(), f.clone()));
      }
    }
  }
  r
}

pub fn execute(c: &E2eCase) -> Result<CaseReport, Failure> {
  let tmp = crate::gen::scratch_dir("logx-e2e-").map_err(|e| Failure::new("INFRA", "tempdir", e.to_string()))?;
  let r = execute_in(c, tmp.path());
  if r.is_err() && std::env::var("VERIF_KEEP").is_ok() {
    eprintln!("kept {}", tmp.keep().display());
  } else {
    let _ = tmp.close();
  }
  r
}

/// The name of the teardown class as it appears in signatures and classes.  The four ordinary
/// ones keep the names they always had.
pub fn mode_of(c: &E2eCase) -> String {
  let total = total_events(c);
  let concurrent = matches!(c.shutdown_permille, Some(p) if ((total as u64 * p as u64) / 1000) < total as u64);
  let base = if c.via_drop { "drop" } else { "shutdown" };
  let who = match c.how {
    How::Plain => "",
    How::OtherThread => "_other_thread",
    How::Unwind => "_unwind",
    How::UnwindThread => "_unwind_thread",
  };
  format!("{base}{who}_{}{}", if concurrent { "concurrent" } else { "after_join" }, if c.exit_after { "+exit" } else { "" })
}

fn execute_in(c: &E2eCase, dir: &Path) -> Result<CaseReport, Failure> {
  let c = &normalise(c.clone());
  let t0 = Instant::now();
  let mut r = run_case(c, dir);
  if matches!(&r, Ok(rep) if rep.inconclusive > 0 && rep.classes.iter().any(|k| k == "e2e/shutdown_deadline_hit")) {
    // the library gave up on a writer at its deadline (5 s for Drop): on a starved machine that is
    // a scheduling stall.  The same case is run once more in a fresh directory; whatever that run
    // shows is the verdict for this scenario (a second stall stays inconclusive).
    let rdir = dir.join("retry");
    std::fs::create_dir_all(&rdir).map_err(|e| Failure::new("INFRA", "tempdir", e.to_string()))?;
    r = run_case(c, &rdir);
    if let Ok(rep) = &mut r {
      rep.class("e2e/retried_after_shutdown_deadline_hit");
    }
  }
  if std::env::var("VERIF_E2E_TIMING").is_ok() {
    // development aid: where the wall time of the child-process engine goes
    eprintln!("e2e-timing {:6} ms {} events={} {}", t0.elapsed().as_millis(), mode_of(c), total_events(c), c.appenders.iter().map(|a| kind_tag(&a.kind)).collect::<Vec<_>>().join("+"));
  }
  let f = match r {
    Err(f) if f.property == P && (c.how != How::Plain || c.exit_after) => f,
    other => return other,
  };
  // A clause failed under one of the less ordinary ways of ending the session.  Control: the same
  // case, same process set-up, ended the ordinary way (same choice of shutdown()/drop, on the
  // initialising thread, the child living on afterwards).  If the control fails the same clause
  // the teardown is not what matters and the control's failure is what gets reported; if it
  // passes, the verdict rests on the difference between the two children of one configuration
  // and not on how long this machine took.
  let mut ctl = c.clone();
  ctl.how = How::Plain;
  ctl.exit_after = false;
  let cdir = dir.join("control");
  std::fs::create_dir_all(&cdir).map_err(|e| Failure::new("INFRA", "tempdir", e.to_string()))?;
  let strip = |sig: &str, mode: &str| sig.replace(mode, "*");
  match run_case(&ctl, &cdir) {
    Err(cf) if cf.property == P && strip(&cf.signature, &mode_of(&ctl)) == strip(&f.signature, &mode_of(c)) => Err(Failure::new(P, cf.signature.clone(), format!("{} [first seen under teardown {}; the ordinary-teardown control of the same case fails the same clause]", cf.message, mode_of(c)))),
    Err(cf) if cf.property == "INFRA" => Err(cf),
    // the control stalled (child time limit, shutdown deadline): no difference to rest a verdict on
    Ok(mut rep) if rep.inconclusive > 0 => {
      rep.class("e2e/control_inconclusive");
      Ok(rep)
    }
    _ => Err(Failure::new(P, f.signature.clone(), format!("{} [control: the same case ended by an ordinary {} passes this clause]", f.message, mode_of(&ctl)))),
  }
}

fn run_case(c: &E2eCase, dir: &Path) -> Result<CaseReport, Failure> {
  let n_app = c.appenders.len() as u8;
  let total = total_events(c);
  let yaml = config_yaml(c, dir);
  let config_path = dir.join("fibre_logging.yaml");
  std::fs::write(&config_path, &yaml).map_err(|e| Failure::new("INFRA", "write", e.to_string()))?;
  let threads: Vec<Vec<Ev>> = c.threads.iter().map(|t| t.iter().map(|e| Ev { target: idx(e.target, TARGETS.len()) as u16, level: e.level, tracing: e.tracing }).collect()).collect();
  let shutdown_at = c.shutdown_permille.map(|p| ((total as u64 * p as u64) / 1000) as u32);
  let job = Job {
    config_path: config_path.to_string_lossy().to_string(),
    out_dir: dir.to_string_lossy().to_string(),
    threads: threads.clone(),
    streams: c.appenders.iter().enumerate().filter_map(|(i, a)| if let AppKind::Custom { late, slow_us, .. } = a.kind { Some(StreamJob { name: appender_name(i as u8), late_drain: late, delay_us: slow_us as u32 }) } else { None }).collect(),
    shutdown_at,
    via_drop: c.via_drop,
    how: c.how,
    exit_after: c.exit_after,
  };
  let job_path = dir.join("job.json");
  std::fs::write(&job_path, serde_json::to_string(&job).unwrap()).map_err(|e| Failure::new("INFRA", "write", e.to_string()))?;

  let mut rep = CaseReport::new();
  let concurrent = matches!(shutdown_at, Some(at) if (at as usize) < total);
  let mode = mode_of(c);
  let mode = mode.as_str();
  let res = match run_child(&job_path, dir) {
    ChildOutcome::Done(r) => r,
    ChildOutcome::Infra(m) => return Err(Failure::new("INFRA", "e2e/cannot_run_child", m)),
    ChildOutcome::TimedOut => {
      // a hang is never a violation
      rep.inconclusive = 1;
      rep.class("e2e/child_timeout");
      rep.class(format!("e2e/child_timeout/{mode}"));
      eprintln!("[C19] inconclusive: child exceeded its time limit (teardown {mode}, {total} events)");
      return Ok(rep);
    }
    ChildOutcome::Crashed(m) => return Err(Failure::new(P, format!("e2e/child_crashed/{mode}"), format!("{m}\nconfig:\n{yaml}"))),
  };
  // what the library itself reported (write failures, abandoned appender tasks, …)
  let child_stderr: String = std::fs::read_to_string(dir.join("stderr.txt")).unwrap_or_default();
  let lib_said = {
    let v: Vec<&str> = child_stderr.lines().filter(|l| l.contains("fibre_logging")).take(6).collect();
    if v.is_empty() { String::new() } else { format!("; child stderr: {}", clip(&v.join(" | "), 700)) }
  };
  if child_stderr.contains("did not shut down within") {
    // the shutdown deadline (5 s for Drop, 20 s here for shutdown()) expired and the library
    // abandoned a writer thread, as documented: a stall, not a routing/delivery verdict
    rep.inconclusive = 1;
    rep.class("e2e/shutdown_deadline_hit");
    rep.class(format!("e2e/shutdown_deadline_hit/{mode}"));
    eprintln!("[C19] inconclusive: the library abandoned an appender task at its shutdown deadline (teardown {mode}, {total} events){lib_said}");
    return Ok(rep);
  }
  if let Some(e) = &res.init_error {
    return Err(Failure::new("INFRA", "e2e/config_rejected", format!("{e}\n{yaml}")));
  }
  if c.exit_after != res.exited_right_after_teardown {
    return Err(Failure::new("INFRA", "e2e/bad_child_result", "child did not follow the exit_after instruction"));
  }
  if !res.missing_streams.is_empty() {
    return Err(Failure::new(P, "e2e/custom/stream_not_exposed", format!("custom appenders without a stream in InitResult: {:?}", res.missing_streams)));
  }
  if res.before_shutdown.len() != c.threads.len() || res.before_shutdown.iter().zip(&c.threads).any(|(a, b)| a.len() != b.len()) {
    return Err(Failure::new("INFRA", "e2e/bad_child_result", "emitter transcript does not match the script"));
  }

  let mut multi_match = false;
  // verdict per (thread, seq)
  let verdicts: Vec<Vec<Verdict>> = threads
    .iter()
    .map(|t| {
      t.iter()
        .map(|e| {
          let v = reference(&c.loggers, n_app, TARGETS[e.target as usize], e.level);
          if v.matched >= 2 {
            multi_match = true;
          }
          v
        })
        .collect()
    })
    .collect();

  for (ai, a) in c.appenders.iter().enumerate() {
    let name = appender_name(ai as u8);
    let kt = kind_tag(&a.kind);
    let pol = if a.block { "block" } else { "drop" };
    let sig = |clause: &str| format!("e2e/{kt}/{pol}/{clause}/{mode}");
    // ---- what arrived ------------------------------------------------------------------------
    let delivered: Vec<Delivered> = match &a.kind {
      AppKind::Custom { .. } if c.exit_after => {
        // the child exited as soon as the teardown returned: nothing of a stream can be
        // reported; the byte appenders of the case are what this teardown class is about
        rep.class("e2e/appender=custom/unobserved_exit");
        continue;
      }
      AppKind::Custom { late, .. } => {
        let sr = res.streams.get(&name).cloned().unwrap_or_default();
        // "after which custom streams drain and then disconnect"
        // (checked when no emitter can still be inside a send: with emitters racing the
        // shutdown a transient Empty between an in-flight send and the disconnect is not
        // something the sentence rules out)
        if *late && sr.empty_before_disconnect && !concurrent {
          return Err(Failure::new(P, sig("empty_before_disconnect"), format!("stream {name}: try_recv returned Empty after shutdown returned, before Disconnected")));
        }
        if !sr.disconnected {
          return Err(Failure::new(P, sig("no_disconnect"), format!("stream {name}: receiver made no progress for 6 s after shutdown returned and still had not observed Disconnected")));
        }
        sr.events.into_iter().map(|(msg, level, target)| Delivered { msg, level, target }).collect()
      }
      AppKind::File { json, .. } => {
        let text = std::fs::read_to_string(dir.join(format!("{name}.log"))).unwrap_or_default();
        if *json {
          parse_json_lines(&text).map_err(|e| Failure::new(P, sig("unparsable_line"), e))?
        } else {
          parse_pattern_lines(&text)
        }
      }
      AppKind::Console => parse_pattern_lines(&std::fs::read_to_string(dir.join("stdout.txt")).unwrap_or_default()),
      AppKind::Rolling { .. } => {
        let st = read_dir_state(&dir.join(format!("{name}.d")), &Naming { prefix: "roll".into(), suffix: ".log".into(), csuffix: ".gz".into() }).unwrap_or_default();
        let mut bytes = Vec::new();
        for r in &st.rolled {
          bytes.extend_from_slice(&r.content);
        }
        bytes.extend_from_slice(&st.active.unwrap_or_default());
        parse_pattern_lines(&String::from_utf8_lossy(&bytes))
      }
    };
    // ---- clauses -----------------------------------------------------------------------------
    let mut seen: BTreeSet<(usize, usize)> = BTreeSet::new();
    let mut last_seq: BTreeMap<usize, usize> = BTreeMap::new();
    for d in &delivered {
      let (t, s) = match parse_id(&d.msg) {
        Some(id) if id.0 < threads.len() && id.1 < threads[id.0].len() => id,
        _ => return Err(Failure::new(P, sig("foreign_record"), format!("appender {name} holds a record that was never emitted: {:?}", clip(&d.msg, 80)))),
      };
      let ev = &threads[t][s];
      let v = &verdicts[t][s];
      let api = if ev.tracing { "tracing" } else { "log" };
      // "delivered to an appender exactly when ..." (⇐ direction)
      if !v.deliver[ai] {
        return Err(Failure::new(
          P,
          format!("{}/{api}/{}", sig("spurious"), situation(v)),
          format!("appender {name} received {} (target={} level={} via {api}) which the property text does not route to it; loggers: {}", d.msg, TARGETS[ev.target as usize], level_name(ev.level), describe(&c.loggers)),
        ));
      }
      // "Each selected appender gets the event exactly once"
      if !seen.insert((t, s)) {
        return Err(Failure::new(P, format!("{}/{api}", sig("duplicate")), format!("appender {name} received {} twice", d.msg)));
      }
      // "identically whether it was emitted through log or tracing"
      if d.level != level_name(ev.level) || d.target != TARGETS[ev.target as usize] {
        return Err(Failure::new(P, format!("{}/{api}", sig("content")), format!("appender {name}: {} emitted as ({}, {}) arrived as ({}, {})", d.msg, level_name(ev.level), TARGETS[ev.target as usize], d.level, d.target)));
      }
      // "and in emission order per emitting thread"
      if let Some(prev) = last_seq.get(&t) {
        if *prev > s {
          return Err(Failure::new(P, sig("reorder"), format!("appender {name}: e{t}-{s} arrived after e{t}-{prev}")));
        }
      }
      last_seq.insert(t, s);
    }
    if a.block {
      for (t, script) in threads.iter().enumerate() {
        let mut missing_before: Option<usize> = None;
        for (s, ev) in script.iter().enumerate() {
          let v = &verdicts[t][s];
          if !v.deliver[ai] {
            continue;
          }
          let api = if ev.tracing { "tracing" } else { "log" };
          let have = seen.contains(&(t, s));
          // "With the blocking overflow policy no accepted event is lost, including at shutdown"
          // (⇒ direction of "exactly when" for everything emitted before shutdown started)
          if !have && res.before_shutdown[t][s] {
            return Err(Failure::new(
              P,
              format!("{}/{api}/{}", sig("lost"), situation(v)),
              format!("appender {name} never received e{t}-{s} (target={} level={} via {api}) although the emitting call returned before shutdown was started (shutdown took {} ms); loggers: {}{lib_said}", TARGETS[ev.target as usize], level_name(ev.level), res.shutdown_ms, describe(&c.loggers)),
            ));
          }
          // an event delivered after an undelivered one of the same thread means the earlier one
          // was accepted (the channel was still open later) and then lost
          if have {
            if let Some(m) = missing_before {
              return Err(Failure::new(P, format!("{}/{}", sig("gap"), situation(&verdicts[t][m])), format!("appender {name}: e{t}-{s} arrived but the earlier e{t}-{m} did not; loggers: {}{lib_said}", describe(&c.loggers))));
            }
          } else if missing_before.is_none() {
            missing_before = Some(s);
          }
        }
      }
    }
    rep.class(format!("e2e/appender={kt}/{pol}"));
  }

  rep.class(format!("e2e/{mode}"));
  rep.class(format!("e2e/teardown={}", match c.how {
    How::Plain => "ordinary",
    How::OtherThread => "other_thread",
    How::Unwind => "unwind",
    How::UnwindThread => "unwind_thread",
  }));
  if c.exit_after {
    rep.class("e2e/exit_right_after_teardown");
  }
  if c.how != How::Plain && c.appenders.iter().any(|a| a.block && matches!(a.kind, AppKind::Custom { .. })) && !c.exit_after {
    rep.class(format!("e2e/teardown_nonordinary/custom_block{}", if concurrent { "/concurrent" } else { "" }));
  }
  rep.class(format!("e2e/threads={}", c.threads.len()));
  if threads.iter().flatten().any(|e| e.tracing) && threads.iter().flatten().any(|e| !e.tracing) {
    rep.class("e2e/both_apis");
  }
  if concurrent && res.before_shutdown.iter().flatten().any(|b| !*b) {
    rep.class("e2e/events_after_shutdown_started");
  }
  let cfg_nt = config_nontrivial(&c.loggers);
  // non-triviality (C19): same rule as the in-process engine
  rep.nontrivial = cfg_nt && multi_match;
  if rep.nontrivial && matches!(c.how, How::Unwind | How::UnwindThread) {
    CLASS_SAMPLE.offer(c);
  }
  rep.executions = 1;
  Ok(rep)
}
