//! Thorough tier only: run a cargo-fuzz target (E5) for a fixed number of runs and collect what
//! it found.  The targets under `fuzz/` decode libFuzzer bytes into the scenario types of the
//! proptest engines and call the same `execute`; a failing oracle writes a replay file in the
//! common format, prints `FUZZ-VIOLATION … replay=<path>` and aborts.
//!
//! Everything here is best effort: if cargo-fuzz / the nightly toolchain is missing or the
//! target does not build, the campaign is reported as unavailable (class `fuzz/unavailable`)
//! and the proptest engines alone decide — never a violation, never exit 2.

use std::process::Command;
use vcore::Replay;

pub struct FuzzOutcome {
  pub target: String,
  pub runs: u64,
  pub replays: Vec<(Replay, std::path::PathBuf)>,
  pub note: Option<String>,
}

pub fn run(target: &str, runs: u64, seed: u64) -> FuzzOutcome {
  let mut out = FuzzOutcome { target: target.to_string(), runs: 0, replays: vec![], note: None };
  let dir = match crate::gen::scratch_dir("logx-fuzz-") {
    Ok(d) => d,
    Err(e) => {
      out.note = Some(format!("no scratch dir: {e}"));
      return out;
    }
  };
  let corpus = dir.path().join("corpus");
  let _ = std::fs::create_dir_all(&corpus);
  // an empty input as the starting corpus
  let _ = std::fs::write(corpus.join("empty"), b"");
  let crate_dir = std::path::Path::new(vcore::VERIF_ROOT).join("harness/logx");
  let res = Command::new("cargo")
    .current_dir(&crate_dir)
    .env("RUSTFLAGS", "--cfg excsn_fibre_verif")
    .env("CARGO_NET_OFFLINE", "true")
    .env("CARGO_TERM_COLOR", "never")
    .env("CARGO_TARGET_DIR", std::path::Path::new(vcore::VERIF_ROOT).join("target/fuzz"))
    .args(["+nightly", "fuzz", "run", "-a", target])
    .arg(&corpus)
    .arg("--")
    .arg(format!("-runs={runs}"))
    .arg(format!("-seed={}", (seed % 0x7fff_ffff).max(1)))
    .arg("-max_len=256")
    .arg("-len_control=0")
    .arg(format!("-artifact_prefix={}/", dir.path().display()))
    .output();
  let res = match res {
    Ok(r) => r,
    Err(e) => {
      out.note = Some(format!("cannot start cargo fuzz: {e}"));
      return out;
    }
  };
  let text = String::from_utf8_lossy(&res.stderr).to_string();
  for line in text.lines() {
    if let Some(rest) = line.strip_prefix("FUZZ-VIOLATION ") {
      if let Some(p) = rest.split_whitespace().find_map(|w| w.strip_prefix("replay=")) {
        let r = vcore::read_replay(p);
        out.replays.push((r, std::path::PathBuf::from(p)));
      }
    }
    if let Some(rest) = line.strip_prefix("Done ") {
      out.runs = rest.split_whitespace().next().and_then(|n| n.parse().ok()).unwrap_or(0);
    }
    // a crash that is not an oracle failure (e.g. a sanitizer report) still stops the campaign
    if line.contains("ERROR: AddressSanitizer") || line.contains("ERROR: libFuzzer") {
      if out.note.is_none() && !text.contains("FUZZ-VIOLATION") {
        out.note = Some(format!("campaign stopped: {}", crate::gen::clip(line, 200)));
      }
    }
  }
  if out.runs == 0 && out.replays.is_empty() && out.note.is_none() {
    let tail: Vec<&str> = text.lines().rev().take(6).collect();
    out.note = Some(format!("no runs completed (build failure or cargo-fuzz unavailable): {}", crate::gen::clip(&tail.into_iter().rev().collect::<Vec<_>>().join(" | "), 500)));
  }
  let _ = dir.close();
  out
}
