//! logx — checks for the logging properties C19 (routing + delivery) and C20 (encoders +
//! rolling) on the hook build (`--cfg excsn_fibre_verif`, hook H5).
//!
//!   logx check <C19|C20> <quick|thorough>
//!   logx replay <replay.json>
//!   logx drive <job.json>            (internal: child process of the C19 end-to-end engine)

use logx::{c19_e2e, c19_route, c20_json, c20_pattern, c20_roller, driver, fuzzrun, gen};

use vcore::{Check, Ctx, EvidenceMeta, Failure, Replay};

/// Re-run a replay file through the plain interpreters.  The end-to-end engine runs real
/// threads in a child process, so its replay is statistical: several repetitions, failing if
/// any repetition fails.
fn run_replay(r: &Replay) -> Option<Failure> {
  match r.engine.as_str() {
    "json" => c20_json::execute(&vcore::from_value(&r.scenario)).err(),
    "pattern" => c20_pattern::execute(&vcore::from_value(&r.scenario)).err(),
    "roller" => c20_roller::execute(&vcore::from_value(&r.scenario)).err(),
    "route" => c19_route::execute(&vcore::from_value(&r.scenario)).err(),
    "e2e" => {
      let s: c19_e2e::E2eCase = vcore::from_value(&r.scenario);
      let reps: usize = std::env::var("VERIF_E2E_REPLAYS").ok().and_then(|v| v.parse().ok()).unwrap_or(5);
      for _ in 0..reps {
        if let Err(f) = c19_e2e::execute(&s) {
          return Some(f);
        }
      }
      None
    }
    other => {
      eprintln!("unknown engine {other}");
      std::process::exit(2)
    }
  }
}

/// Temp dirs are removed by every case; a run that was killed can leave some behind.  Sweep the
/// ones that are clearly stale (older than 15 minutes) so that nothing accumulates under /tmp.
fn sweep_stale_temp_dirs() {
  let mut entries = Vec::new();
  for dir in [std::env::temp_dir(), std::path::PathBuf::from("/dev/shm")] {
    if let Ok(rd) = std::fs::read_dir(dir) {
      entries.extend(rd.filter_map(|e| e.ok()));
    }
  }
  for e in entries {
    let name = e.file_name().to_string_lossy().to_string();
    if !(name.starts_with("logx-e2e-") || name.starts_with("logx-roller-")) {
      continue;
    }
    let old = e.metadata().ok().and_then(|m| m.modified().ok()).and_then(|t| t.elapsed().ok()).map_or(false, |d| d.as_secs() > 900);
    if old {
      let _ = std::fs::remove_dir_all(e.path());
    }
  }
}

/// Thorough tier: start a fuzz campaign in the background (libFuzzer is single-threaded; the
/// proptest engines use the other cores meanwhile).
fn start_fuzz(ctx: &Ctx, target: &'static str, runs: u64) -> Option<std::thread::JoinHandle<fuzzrun::FuzzOutcome>> {
  if ctx.tier != vcore::Tier::Thorough || std::env::var("VERIF_NO_FUZZ").is_ok() {
    return None;
  }
  let seed = ctx.seed;
  let runs = std::env::var("VERIF_FUZZ_RUNS").ok().and_then(|v| v.parse().ok()).unwrap_or(runs);
  Some(std::thread::spawn(move || fuzzrun::run(target, runs, seed)))
}

fn absorb_fuzz(check: &mut Check, h: Option<std::thread::JoinHandle<fuzzrun::FuzzOutcome>>) {
  let Some(h) = h else { return };
  let Ok(o) = h.join() else { return };
  eprintln!("[{}] fuzz target {} done at {:.1}s: {} runs, {} finding(s){}", check.ctx.property, o.target, check.ctx.wall(), o.runs, o.replays.len(), o.note.as_ref().map(|n| format!(", note: {n}")).unwrap_or_default());
  check.stats.evaluations += o.runs;
  check.stats.class_n(&format!("fuzz/{}/runs", o.target), o.runs);
  if o.note.is_some() {
    check.stats.class("fuzz/unavailable_or_stopped");
  }
  for (r, p) in o.replays {
    if r.property != check.ctx.property {
      continue;
    }
    if let Some(k) = check.findings.open_for(&r.property, &r.signature) {
      *check.stats.excluded.entry(k.id.clone()).or_default() += 1;
      continue;
    }
    check.violations.push((r, p));
  }
}

/// Evidence samples: the engine's non-trivial sample at `slot` becomes the given case (a
/// non-trivial case of a class added later), if the engine saw one.
fn class_sample(check: &mut Check, slot: usize, sample: Option<serde_json::Value>) {
  if let Some(v) = sample {
    if slot < check.stats.nt_samples.len() {
      check.stats.nt_samples[slot] = v;
    } else {
      check.stats.nt_samples.push(v);
    }
  }
}

fn check_c20(check: &mut Check) -> (String, Vec<String>, String) {
  let ctx = check.ctx.clone();
  let fz = start_fuzz(&ctx, "fz_encoders", 600_000);
  let out = vcore::drive(&ctx, &check.findings, 1, ctx.tier.pick(30_000, 1_500_000), c20_json::strategy, c20_json::execute);
  check.absorb("json", out);
  eprintln!("[C20] json engine done at {:.1}s", ctx.wall());
  // keep room in the evidence samples for one case of every engine; where the engine saw a
  // non-trivial case of one of its added classes, that case is the engine's sample
  check.stats.nt_samples.truncate(1);
  class_sample(check, 0, c20_json::CLASS_SAMPLE.take());
  check.stats.samples.truncate(0);
  let out = vcore::drive(&ctx, &check.findings, 2, ctx.tier.pick(30_000, 1_500_000), c20_pattern::strategy, c20_pattern::execute);
  check.absorb("pattern", out);
  eprintln!("[C20] pattern engine done at {:.1}s", ctx.wall());
  check.stats.nt_samples.truncate(2);
  class_sample(check, 1, c20_pattern::CLASS_SAMPLE.take());
  check.stats.samples.truncate(0);
  let max_ops = ctx.tier.pick(40usize, 90usize);
  let out = vcore::drive(&ctx, &check.findings, 3, ctx.tier.pick(8_000, 400_000), move || c20_roller::strategy(max_ops), c20_roller::execute);
  check.absorb("roller", out);
  check.stats.nt_samples.truncate(3);
  class_sample(check, 2, c20_roller::CLASS_SAMPLE.take());
  eprintln!("[C20] roller engine done at {:.1}s", ctx.wall());
  absorb_fuzz(check, fz);
  // generator health: the classes the property quantifies over must actually be reached
  for (class, min) in [
    ("json/needs_escape", 1000),
    ("json/long_string", 50),
    ("json/nonfinite_float", 100),
    ("json/flatten/reserved_key", 100),
    ("json/flatten/optional_key_field/attribute_absent", 500),
    ("json/flatten/optional_key_field/attribute_present", 200),
    ("json/nested/optional_key_field/attribute_absent", 200),
    ("json/flatten/optional_key_field/attribute_absent/message", 50),
    ("json/flatten/optional_key_field/attribute_absent/span_id", 50),
    ("json/flatten/optional_key_field/attribute_absent/parent_id", 50),
    ("json/flatten/optional_key_field/attribute_absent/thread_id", 50),
    ("json/flatten/optional_key_field/attribute_absent/thread_name", 50),
    ("pattern/renders_message", 1000),
    ("pattern/special_message", 300),
    ("pattern/fit/multibyte/width<=chars", 200),
    ("pattern/fit/multibyte/chars<width<bytes", 500),
    ("pattern/fit/multibyte/chars<width==bytes", 100),
    ("pattern/fit/multibyte/width>bytes", 200),
    ("pattern/fit/multibyte/chars<width<bytes/%m", 50),
    ("pattern/fit/multibyte/chars<width<bytes/%t", 50),
    ("pattern/fit/multibyte/chars<width<bytes/%T", 50),
    ("pattern/fit/multibyte/chars<width<bytes/%X", 50),
    ("roller/size_roll", 300),
    ("roller/time_roll", 300),
    ("roller/compressed_file_seen", 100),
    ("roller/retention_deleted", 100),
    ("roller/over_existing_rolled_files", 300),
    ("roller/existing_rolled_files_dated_before_and_after_now", 200),
    ("roller/roll_over_2plus_rolled_files", 300),
    ("roller/roll_with_clock_between_oldest_and_newest_rolled_file", 100),
    ("roller/roll_with_clock_between_oldest_and_newest_rolled_file/retention", 30),
    ("roller/roll_with_clock_behind_every_rolled_file", 20),
    ("roller/nontrivial", 200),
  ] {
    check.require_class(class, min);
  }
  (
    "three proptest generators (JSON events, incl. custom fields named like optional record keys on events with and without that attribute; \
     pattern strings + events, incl. padded directives whose width is placed around the character count and the byte length of multi-byte content; \
     roller policies + histories of writes/clock steps/restarts over directories holding rolled files dated before and after the clock). \
     Non-trivial = json: some string of the event (target, message, field key or string value) contains a character that needs JSON escaping; \
     pattern: the configured pattern renders the message and the message is empty or contains a newline, CR, %, quote, backslash, brace, control or non-ASCII character; \
     roller: the history produced at least one size roll and at least one time roll, or ran (re)started over a directory that already held rolled files and rolled again. \
     distinct = hash of the scenario"
      .into(),
    vec![
      "non-finite floats cannot be JSON numbers: `null` is accepted as their encoding (documented lossy case)".into(),
      "String and Debug field values both decode as JSON strings (the variant tag is not part of the record)".into(),
      "roller files are ordered the way their names order them: (period, sequence), then the active file".into(),
      "roller checks run at flush points (explicit checkpoints, restarts, end of history); short writes of the OS are not simulated".into(),
    ],
    "E1 sequential generated inputs/histories (proptest): json round trip, pattern differential rendering, roller directory oracle via hook H5".into(),
  )
}

fn check_c19(check: &mut Check) -> (String, Vec<String>, String) {
  let ctx = check.ctx.clone();
  // the child-process engine runs first and alone: it is the only timing-sensitive one (the
  // library's own shutdown deadlines), so nothing else of this check competes with it for CPU
  let per_thread = ctx.tier.pick(40usize, 120usize);
  let e2e_cases: u64 = std::env::var("VERIF_E2E_CASES").ok().and_then(|v| v.parse().ok()).unwrap_or(ctx.tier.pick(420, 12_000));
  let mut out = vcore::drive(&ctx, &check.findings, 2, e2e_cases, move || c19_e2e::strategy(per_thread), c19_e2e::execute_recording);
  // failures vcore could not confirm on its final re-run (race-dependent): report the smallest
  // scenario that was actually seen failing with that signature, marked as flaky
  let book = std::mem::take(&mut c19_e2e::BOOK.lock().unwrap().failures);
  for v in out.violations.iter_mut() {
    let sig = v.failure.signature.clone();
    if sig == "nondeterministic" || sig.starts_with("nonreproducible/") {
      let want = sig.strip_prefix("nonreproducible/").unwrap_or("");
      let hit = book.iter().rev().find(|(_, _, f)| f.signature == want).or_else(|| book.iter().rev().find(|(_, _, f)| check.findings.open_for(&f.property, &f.signature).is_none()));
      if let Some((_, sc, f)) = hit {
        v.scenario = sc.clone();
        v.failure = Failure::new(&f.property, f.signature.clone(), format!("{} [real-thread case: failed when generated, passed when re-run; replay is statistical]", f.message));
      }
    }
  }
  check.absorb("e2e", out);
  eprintln!("[C19] e2e engine done at {:.1}s", ctx.wall());
  check.stats.nt_samples.truncate(1);
  class_sample(check, 0, c19_e2e::CLASS_SAMPLE.take());
  check.stats.samples.truncate(1);

  let fz = start_fuzz(&ctx, "fz_logroute", 400_000);
  let max_events = ctx.tier.pick(60usize, 120usize);
  let out = vcore::drive(&ctx, &check.findings, 1, ctx.tier.pick(40_000, 3_000_000), move || c19_route::strategy(max_events), c19_route::execute);
  check.absorb("route", out);
  eprintln!("[C19] route engine done at {:.1}s", ctx.wall());
  absorb_fuzz(check, fz);
  for (class, min) in [
    ("route/config_prefix_pair_nonadditive", 500),
    ("route/event_matched_2plus_loggers", 500),
    ("route/logger_without_appenders", 300),
    ("route/winner=nonadditive/unwired_match=0", 300),
    ("e2e/shutdown_concurrent", 5),
    ("e2e/shutdown_after_join", 5),
    ("e2e/both_apis", 20),
    ("e2e/appender=custom/block", 10),
    ("e2e/appender=file/block", 5),
    // "shutting down or dropping the guard": every way of ending a session is sampled
    ("e2e/teardown=ordinary", 20),
    ("e2e/teardown=other_thread", 5),
    ("e2e/teardown=unwind", 5),
    ("e2e/teardown=unwind_thread", 5),
    ("e2e/exit_right_after_teardown", 5),
    ("e2e/teardown_nonordinary/custom_block", 5),
  ] {
    check.require_class(class, min);
  }
  if check.stats.inconclusive > 0 {
    let n = |k: &str| check.stats.classes.get(k).copied().unwrap_or(0);
    check.health_failures.push(format!(
      "{} child process(es) gave no verdict: {} exceeded the child time limit, {} had an appender task abandoned at the library's shutdown deadline (stalls: inconclusive, not a violation)",
      check.stats.inconclusive,
      n("e2e/child_timeout"),
      n("e2e/shutdown_deadline_hit")
    ));
  }
  (
    "proptest-generated logger trees over a universe of prefix-related names (with and without module boundaries), levels, additivity flags, appender wiring (incl. loggers without appenders) and event scripts; \
     engine route: every (target, level) through both front-end pre-filters in-process; engine e2e: one child process per case, 1-4 emitting threads, log + tracing, session ended after or during emission by shutdown() or by dropping the guard \
     (on the initialising thread or on a thread the guard was moved to; by an ordinary end of scope or by a panic unwinding through the owner, caught by the driver), the child living on or exiting right after the teardown returned. \
     Non-trivial = the configuration has two loggers where one name is a module-path prefix of the other and at least one of the two is non-additive, and some event of the case matched >= 2 loggers. \
     distinct = hash of the scenario"
      .into(),
    vec![
      "in-process routing goes through hook H5 Router (same config processing, filter construction and EventProcessor as init_from_file; sinks replaced by in-memory streams)".into(),
      "end-to-end cases run under the OS scheduler (real threads): replays are statistical".into(),
      "an event counts as 'accepted before shutdown' when its emitting call returned before the driver set its shutdown-started flag".into(),
      "a child that does not finish within the time limit is inconclusive (exit 2), never a violation".into(),
      "a clause failing under a non-ordinary teardown (other thread, unwinding, immediate exit) is re-decided against a control child: same case, ordinary teardown".into(),
    ],
    "E1 in-process routing vs reference model (hook H5) + E4 child-process end-to-end delivery (real threads)".into(),
  )
}

fn main() {
  let args: Vec<String> = std::env::args().collect();
  match args.get(1).map(|s| s.as_str()) {
    Some("drive") => {
      // child process: keep panics visible on stderr
      let code = driver::main(&args[2]);
      std::process::exit(code)
    }
    Some("replay") => {
      if std::env::var("VERIF_DEBUG").is_err() {
        std::panic::set_hook(Box::new(|_| {}));
      }
      let r = vcore::read_replay(&args[2]);
      match run_replay(&r) {
        Some(f) => {
          println!("replay still fails: [{}] {} :: {}", f.property, f.signature, f.message);
          std::process::exit(1)
        }
        None => {
          println!("replay passes");
          std::process::exit(0)
        }
      }
    }
    Some("check") => {
      if std::env::var("VERIF_DEBUG").is_err() {
        std::panic::set_hook(Box::new(|_| {}));
      }
      let prop = args.get(2).cloned().unwrap_or_default();
      let tier = args.get(3).cloned().unwrap_or_else(|| "quick".into());
      let ctx = Ctx::from_args(&prop, &tier);
      let mut check = Check::new(ctx);
      sweep_stale_temp_dirs();
      check.run_witnesses(&|r| run_replay(r));
      check.run_regressions(&|r| run_replay(r));
      let (rule, assumptions, engine) = match prop.as_str() {
        "C19" => check_c19(&mut check),
        "C20" => check_c20(&mut check),
        _ => {
          eprintln!("property {prop} is not served by this binary");
          std::process::exit(2)
        }
      };
      if std::env::var("VERIF_SURVEY").is_ok() {
        let mut by_sig: std::collections::BTreeMap<String, (u64, String)> = Default::default();
        for (k, v) in &check.stats.excluded {
          if let Some(rest) = k.strip_prefix("SURVEY ") {
            let (sig, msg) = rest.split_once(" :: ").unwrap_or((rest, ""));
            let e = by_sig.entry(sig.to_string()).or_insert((0, msg.to_string()));
            e.0 += v;
          }
        }
        for (k, (n, m)) in by_sig {
          println!("{n:6}  {k}\n          e.g. {}", gen::clip(&m, 400));
        }
        println!("classes: {:#?}", check.stats.classes);
        std::process::exit(0);
      }
      check.finish(EvidenceMeta { level: "exploration", rule, engine, assumptions, extra: Default::default() });
    }
    _ => {
      eprintln!("usage: logx check <C19|C20> <quick|thorough> | logx replay <file>");
      std::process::exit(2)
    }
  }
}
