#!/usr/bin/env python3
"""apply one mutation to the scratch copy, build, run the quick check, report, restore."""
import subprocess, sys, time, shutil, os, re
R='/tmp/logx-mut/repo/logging/src/'
MUTS = {
 # id: (property, file, old, new, description)
 'M1': ('C19','subscriber/actor.rs','.map_or(false, |rest| rest.is_empty() || rest.starts_with("::"))','.map_or(false, |_rest| true)','prefix match ignores the :: boundary'),
 'M2': ('C19','subscriber/processor.rs','if winner.map_or(true, |(wp, _)| prefix.len() > wp.len()) {','if winner.map_or(true, |(wp, _)| prefix.len() < wp.len()) {','least specific logger wins the additivity decision'),
 'M2b': ('C19','subscriber/processor.rs','        && winner.map_or(true, |(wp, _)| name.len() > wp.len())','        && winner.map_or(true, |(wp, _)| name.len() < wp.len())','least specific logger (over the whole tree) wins the additivity decision'),
 'M3': ('C19','subscriber/processor.rs','        if !wired_to_gate {\n          continue;\n        }','        if !wired_to_gate && false {\n          continue;\n        }','non-additive gate disabled'),
 'M4': ('C19','subscriber/processor.rs','Some((_, (level_filter, _))) => event_level <= *level_filter,','Some((_, (level_filter, _))) => event_level < *level_filter,','logger level boundary off by one'),
 'M5': ('C19','subscriber/actor.rs','.max_by_key(|(target_prefix, _)| target_prefix.len())','.min_by_key(|(target_prefix, _)| target_prefix.len())','per-appender rule: least specific logger naming the appender'),
 'M6': ('C19','init.rs','  while let Ok(bytes) = rx.try_recv() {\n    write_one(&mut *writer, &bytes, &mut is_dirty, appender_name, error_tx);\n  }\n  if is_dirty {','  if is_dirty {','writer thread: no final drain at shutdown'),
 'M7': ('C19','lib.rs','      processor.close_channels();','      let _ = &processor;','shutdown does not close the appender channels'),
 'M8': ('C19','subscriber/processor.rs','      OverflowPolicy::Block => {\n        // Guaranteed delivery: block the caller until there is room.\n        // A send error means the appender task is gone (shutdown); drop then.\n        let _ = sender.send(bytes);','      OverflowPolicy::Block => {\n        let _ = sender.try_send(bytes);','block policy on byte appenders degraded to try_send'),
 'M9': ('C19','subscriber/log_handler.rs','      Level::Debug => tracing_core::Level::DEBUG,','      Level::Debug => tracing_core::Level::INFO,','log front end maps DEBUG to INFO'),
 'M10': ('C19','init.rs','    if root_logger\n      .appender_names\n      .contains(&appender_name_to_build.to_string())\n    {\n      default_level = root_logger.min_level;','    if true\n    {\n      default_level = root_logger.min_level;','root level applied to appenders root does not name'),
 'M11': ('C19','subscriber/processor.rs','        event.as_ref().expect("event consumed early").clone()\n      };\n      self.send_event(actor, sender, to_send);','        event.as_ref().expect("event consumed early").clone()\n      };\n      if i > 0 { self.send_event(actor, sender, to_send.clone()); }\n      self.send_event(actor, sender, to_send);','second and later custom streams get every event twice'),
 'J1': ('C20','encoders/json.rs','      json_map.insert("message".to_string(), Value::String(msg.clone()));','      json_map.insert("message".to_string(), Value::String(msg.trim_end().to_string()));','json message trimmed'),
 'J2': ('C20','encoders/json.rs','      LogValue::Int(i) => Value::Number((*i).into()),','      LogValue::Int(i) => Value::Number((*i as i32).into()),','json ints truncated to i32'),
 'J3': ('C20','encoders/json.rs','    Ok(format!("{}\\n", json_string).into_bytes())','    Ok(format!("{}\\n", json_string.replace("\\\\n", "\\n")).into_bytes())','json: escaped newlines turned into raw newlines'),
 'J4': ('C20','encoders/json.rs','      LogValue::Debug(d) => Value::String(d.clone()),','      LogValue::Debug(d) => Value::String(d.chars().take(64).collect()),','json Debug values truncated at 64 chars'),
 'P1': ('C20','encoders/pattern.rs',"          target_buf.push_str(msg);","          target_buf.push_str(msg.trim_end());",'pattern %m trims the message'),
 'P2': ('C20','encoders/pattern.rs',"          target_buf.push_str(msg);","          target_buf.push_str(&msg.replace('\\n', \" \"));",'pattern %m replaces newlines'),
 'P3': ('C20','encoders/pattern.rs','    let width = (padding.unsigned_abs() as usize).min(u16::MAX as usize);','    let width = padding.unsigned_abs() as usize;','revert of the width cap'),
 'R1': ('C20','roller.rs','    let next_sequence = last_sequence + 1;','    let next_sequence = 1; let _ = last_sequence;','every roll uses sequence 1 (clobbers)'),
 'R2': ('C20','roller.rs','      for old_file in sorted_files.iter().skip(max_retained as usize) {','      for old_file in sorted_files.iter().skip(max_retained as usize + 1) {','retention keeps one file too many'),
 'R3': ('C20','roller.rs','    other\n      .timestamp\n      .cmp(&self.timestamp)\n      .then_with(|| other.sequence.cmp(&self.sequence))','    self\n      .timestamp\n      .cmp(&other.timestamp)\n      .then_with(|| self.sequence.cmp(&other.sequence))','retention order reversed (keeps the oldest)'),
 'R4': ('C20','roller.rs','    // Delete original uncompressed file\n    fs::remove_file(source_path)?;','    // Delete original uncompressed file\n    let _ = source_path;','compression keeps the uncompressed original'),
 'R5': ('C20','roller.rs','    let bytes_written = self.writer.write(buf)?;','    let bytes_written = self.writer.write(&buf[..buf.len().min(7)])?;','short writes (7 bytes per call): size roll can fall inside a record'),
 'R6': ('C20','roller.rs','    if self.current_path.exists() {\n      fs::rename(&self.current_path, &rolled_path)?;\n    }','    if self.current_path.exists() {\n      fs::copy(&self.current_path, &rolled_path)?;\n    }','roll copies instead of renaming (active file keeps its records)'),
 'R7': ('C20','roller.rs','    let old_writer = std::mem::replace(&mut self.writer, dummy_writer);\n    drop(old_writer);','    let old_writer = std::mem::replace(&mut self.writer, dummy_writer);\n    std::mem::forget(old_writer);','buffered bytes are not flushed when rolling'),
 'R8': ('C20','roller.rs','      Some(newest) if newest.timestamp > self.current_period_start => newest.timestamp,','      Some(newest) if false && newest.timestamp > self.current_period_start => newest.timestamp,','revert of the backward-clock naming fix'),
 'R9': ('C20','roller.rs','      for file in sorted_files.iter().skip(uncompressed_to_keep) {','      for file in sorted_files.iter().take(1) {','compress the newest rolled file only (others stay) -- behaviour change, not a property violation: expected NOT caught'),
}
def run(mid):
    prop,f,old,new,desc = MUTS[mid]
    path=R+f
    src=open(path).read()
    if old not in src:
        print(f'{mid}: PATTERN NOT FOUND in {f}'); return
    open(path,'w').write(src.replace(old,new,1))
    try:
        t0=time.time()
        b=subprocess.run('cd /tmp/logx-mut/harness && RUSTFLAGS="--cfg excsn_fibre_verif" CARGO_NET_OFFLINE=true CARGO_TARGET_DIR=/tmp/logx-mut/target cargo build --release -q -p logx 2>&1 | grep -E "^error" -A8 | head -20', shell=True, capture_output=True, text=True)
        if b.stdout.strip():
            print(f'{mid}: BUILD ERROR\n{b.stdout}'); return
        tb=time.time()-t0
        t0=time.time()
        r=subprocess.run(['/tmp/logx-mut/target/release/logx','check',prop,'quick'],capture_output=True,text=True,env=dict(os.environ, VERIF_SEED=os.environ.get('VERIF_SEED','1')))
        tr=time.time()-t0
        sigs=[l.strip() for l in r.stdout.splitlines() if l.startswith('  ')]
        viol=[l for l in r.stdout.splitlines() if l.startswith('VIOLATION')]
        print(' '.join(l for l in r.stderr.splitlines() if 'engine done' in l))
        print(f'{mid} [{prop}] {desc}: exit={r.returncode} run={tr:.1f}s build={tb:.0f}s violations={len(viol)}')
        for s in sigs[:3]: print('     ', s[:230])
        if r.returncode not in (0,1):
            print('     stderr:', r.stderr[-300:])
    finally:
        open(path,'w').write(src)
for m in sys.argv[1:]:
    run(m)
