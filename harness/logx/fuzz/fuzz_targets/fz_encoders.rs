//! E5 for C20: libFuzzer bytes -> the same scenario types the proptest engines use -> the same
//! interpreters + oracles (json round trip, pattern totality / verbatim message).
//! A failing oracle writes a replay file (common JSON format) and aborts, which libFuzzer
//! records as a crash; `logx check C20 thorough` picks the replay up.
#![no_main]
use arbitrary::{Arbitrary, Unstructured};
use libfuzzer_sys::fuzz_target;
use logx::c20_json::{EventSpec, JsonCase, Val};
use logx::c20_pattern::PatternCase;
use logx::gen::SText;

fn text(u: &mut Unstructured) -> arbitrary::Result<SText> {
  let unit: String = String::arbitrary(u)?;
  let unit: String = unit.chars().take(48).collect();
  // rarely a long string
  let repeat = if u.ratio(1, 32)? { u.int_in_range(0u16..=600)? } else { 1 };
  Ok(SText { unit, repeat })
}

fn event(u: &mut Unstructured) -> arbitrary::Result<EventSpec> {
  let mut fields = Vec::new();
  for _ in 0..u.int_in_range(0..=4)? {
    let key = if u.ratio(1, 3)? {
      SText::lit(u.choose(&["timestamp", "level", "target", "message", "name", "span_id", "parent_id", "thread_id", "thread_name", "fields"])?)
    } else {
      text(u)?
    };
    let val = match u.int_in_range(0..=4)? {
      0 => Val::Str(text(u)?),
      1 => Val::Int(i64::arbitrary(u)?),
      2 => Val::Float(u64::arbitrary(u)?),
      3 => Val::Bool(bool::arbitrary(u)?),
      _ => Val::Debug(text(u)?),
    };
    fields.push((key, val));
  }
  Ok(EventSpec {
    level: u.int_in_range(1u8..=5)?,
    target: text(u)?,
    name: text(u)?,
    message: if u.ratio(6, 7)? { Some(text(u)?) } else { None },
    fields,
    span_id: if bool::arbitrary(u)? { Some("1".into()) } else { None },
    parent_id: None,
    thread_id: None,
    thread_name: if bool::arbitrary(u)? { Some(text(u)?) } else { None },
    ts_secs: u.int_in_range(978_307_200i64..=4_070_908_799)?,
    ts_nanos: u.int_in_range(0u32..=999_999_999)?,
  })
}

fn report(engine: &str, scenario: serde_json::Value, f: vcore::Failure) -> ! {
  let r = vcore::Replay { property: f.property.clone(), engine: engine.to_string(), signature: f.signature.clone(), message: format!("[fuzz] {}", f.message), seed: 0, scenario };
  let p = vcore::write_replay(&r);
  eprintln!("FUZZ-VIOLATION property={} replay={} :: {} :: {}", f.property, p.display(), f.signature, f.message);
  std::process::abort()
}

fuzz_target!(|data: &[u8]| {
  let mut u = Unstructured::new(data);
  let Ok(which) = u.int_in_range(0u8..=2) else { return };
  if which == 0 {
    let Ok(flatten) = bool::arbitrary(&mut u) else { return };
    let Ok(event) = event(&mut u) else { return };
    let c = JsonCase { flatten, event };
    if let Err(f) = logx::c20_json::execute(&c) {
      if f.property == "C20" {
        report("json", serde_json::to_value(&c).unwrap(), f);
      }
    }
  } else {
    // the pattern is the rest of the input taken as (lossy) text: libFuzzer mutates it directly
    let Ok(event) = event(&mut u) else { return };
    let rest = u.take_rest();
    let raw: String = String::from_utf8_lossy(rest).chars().take(64).collect();
    let c = PatternCase { segs: vec![], raw: Some(raw), event, fit: None };
    if let Err(f) = logx::c20_pattern::execute(&c) {
      if f.property == "C20" {
        report("pattern", serde_json::to_value(&c).unwrap(), f);
      }
    }
  }
});
