//! E5 for C19: libFuzzer bytes -> RouteCase -> in-process routing through hook H5 `Router`
//! against the reference implementation of the property text.
#![no_main]
use arbitrary::{Arbitrary, Unstructured};
use libfuzzer_sys::fuzz_target;
use logx::c19_model::LoggerSpec;
use logx::c19_route::RouteCase;

fn case(u: &mut Unstructured) -> arbitrary::Result<RouteCase> {
  let n_app = u.int_in_range(1u8..=4)?;
  let mut loggers: Vec<LoggerSpec> = Vec::new();
  for _ in 0..u.int_in_range(0..=6)? {
    let l = LoggerSpec {
      name: u16::arbitrary(u)?,
      level: u.int_in_range(0u8..=5)?,
      additive: bool::arbitrary(u)?,
      appenders: {
        let mut v = Vec::new();
        for _ in 0..u.int_in_range(0..=3)? {
          v.push(u.int_in_range(0..=n_app - 1)?);
        }
        v
      },
      spelling: u.int_in_range(0u8..=2)?,
    };
    if !loggers.iter().any(|o| o.name_str() == l.name_str()) {
      loggers.push(l);
    }
  }
  let mut events = Vec::new();
  for _ in 0..u.int_in_range(1..=24)? {
    events.push((u16::arbitrary(u)?, u.int_in_range(1u8..=5)?));
  }
  Ok(RouteCase { n_app, loggers, events })
}

fuzz_target!(|data: &[u8]| {
  let mut u = Unstructured::new(data);
  let Ok(c) = case(&mut u) else { return };
  if let Err(f) = logx::c19_route::execute(&c) {
    if f.property == "C19" {
      let r = vcore::Replay { property: f.property.clone(), engine: "route".into(), signature: f.signature.clone(), message: format!("[fuzz] {}", f.message), seed: 0, scenario: serde_json::to_value(&c).unwrap() };
      let p = vcore::write_replay(&r);
      eprintln!("FUZZ-VIOLATION property={} replay={} :: {} :: {}", f.property, p.display(), f.signature, f.message);
      std::process::abort()
    }
  }
});
