//! E3 programs over the channels: producers and consumers with generated op lists, executed
//! under generated schedules.  Programs terminate by specification: every thread drops its
//! handle after its last op, so any blocked operation is eventually released by its peer or by
//! disconnection — a deadlock is therefore a lost wakeup.

use crate::adapt::*;
use crate::payload::*;
use crate::sched::ByteSched;
use fibre::error::*;
use proptest::prelude::*;
use serde::{Deserialize, Serialize};
use std::collections::{BTreeMap, BTreeSet};
use std::future::Future;
use std::sync::{Arc, Mutex};
use std::time::Duration;
use vcore::{CaseReport, Failure};

#[derive(Clone, Debug, Serialize, Deserialize, PartialEq)]
pub enum POp {
  Send,
  TrySend,
  /// try_send, yielding and retrying up to n times while Full
  TrySendSpin(u8),
  SendBatch(u8),
  TrySendBatch(u8),
  SendBatchMut(u8),
  TrySendBatchMut(u8),
  Yield,
  Convert,
  Close,
  /// async handles: start a send, poll it once, yield, then drop the future if still pending
  SendCancel,
  /// k blocking sends in a row (long runs: chunk / slab recycling under the scheduler)
  SendBurst(u8),
}

#[derive(Clone, Debug, Serialize, Deserialize, PartialEq)]
pub enum COp {
  Recv,
  TryRecv,
  /// recv_timeout(0) / recv_timeout(1 ms) (virtual time)
  RecvTimeout(bool),
  RecvBatch(u8),
  TryRecvBatch(u8),
  RecvBatchMut(u8),
  Next,
  Yield,
  Convert,
  Close,
  /// async handles: start a receive, poll it once, yield, then drop the future if still pending
  RecvCancel,
  /// up to k blocking receives in a row (stops at Disconnected)
  RecvBurst(u8),
}

#[derive(Clone, Debug, Serialize, Deserialize)]
pub struct Scenario {
  pub flavour: Flavour,
  pub async_start: bool,
  pub cap: usize,
  pub producers: Vec<Vec<POp>>,
  /// (ops, drain): drain = after its ops the consumer keeps receiving until Disconnected
  pub consumers: Vec<(Vec<COp>, bool)>,
  pub seed: u64,
  pub schedules: usize,
  /// balanced mode: only blocking forms, consumers receive exactly as many values as the
  /// producers send, and every handle is kept alive until all threads are done — so no
  /// blocked operation is ever rescued by a disconnect: termination rests on wakeups alone
  #[serde(default)]
  pub balanced: bool,
  /// balanced + reserve: producers can never block (unbounded, or everything they send fits the
  /// capacity); consumers run their *finite* op lists once and reserve units of the total
  /// before each receive, so every blocking receive that is issued is owed an item — a
  /// consumer may stop for good after a cancelled receive, and nobody makes up for a wake it
  /// swallowed
  #[serde(default)]
  pub reserve: bool,
}

pub fn flavours_for(prop: &str) -> Vec<Flavour> {
  let mut v = vec![Flavour::SpscBounded, Flavour::SpscRdv, Flavour::MpscBounded, Flavour::MpscUnbounded, Flavour::MpscRdv, Flavour::MpmcBounded, Flavour::MpmcUnbounded, Flavour::MpmcRdv];
  match prop {
    "C07" => vec![Flavour::Broadcast],
    "C03" => {
      v.retain(|f| !f.unbounded());
      v.push(Flavour::Oneshot);
      v
    }
    "C06" => v,
    "C05" | "C04" | "C09" => {
      v.push(Flavour::Broadcast);
      v.push(Flavour::Oneshot);
      v
    }
    _ => {
      v.push(Flavour::Oneshot);
      v
    }
  }
}

pub fn nt_rule(prop: &str) -> &'static str {
  match prop {
    "C05" => "at least one thread actually blocked (park) and was later released in some schedule",
    "C06" => "a receive or send future was polled to Pending and abandoned (cancelled) while another thread or task was waiting on the same channel, and a thread parked",
    "C03" => "some send was refused or had to wait",
    "C04" => "a sender finished/closed while a receiver was mid-operation (Disconnected observed by a blocked or polling receiver) or a send failed Closed",
    "C02" => "two producers overlapped or a batch form was used, and a consumer received two values of one producer",
    "C09" => "the channel was torn down with values still inside or with an operation interrupted by disconnection",
    "C07" => "two receivers and at least one full lap",
    _ => "at least one send failed and one succeeded, or a timed receive fired while a sender was active",
  }
}

fn pop_strategy(f: Flavour) -> BoxedStrategy<POp> {
  let n = prop_oneof![2 => 0u8..3, 3 => 2u8..5];
  let b = if f.has_batch() { 2 } else { 0 };
  let opts: Vec<(u32, BoxedStrategy<POp>)> = vec![
    (8, Just(POp::Send).boxed()),
    (4, Just(POp::TrySend).boxed()),
    (2, (1u8..4).prop_map(POp::TrySendSpin).boxed()),
    (b, n.clone().prop_map(POp::SendBatch).boxed()),
    (b, n.clone().prop_map(POp::TrySendBatch).boxed()),
    (b, n.clone().prop_map(POp::SendBatchMut).boxed()),
    (b, n.prop_map(POp::TrySendBatchMut).boxed()),
    (1, Just(POp::Yield).boxed()),
    (1, Just(POp::Convert).boxed()),
    (1, Just(POp::Close).boxed()),
    (2, Just(POp::SendCancel).boxed()),
    (1, (8u8..40).prop_map(POp::SendBurst).boxed()),
  ];
  proptest::strategy::Union::new_weighted(opts.into_iter().filter(|(w, _)| *w > 0).collect()).boxed()
}

fn cop_strategy(f: Flavour) -> BoxedStrategy<COp> {
  let n = prop_oneof![1 => Just(0u8), 3 => 1u8..5];
  let b = if f.has_batch() { 2 } else { 0 };
  let opts: Vec<(u32, BoxedStrategy<COp>)> = vec![
    (8, Just(COp::Recv).boxed()),
    (4, Just(COp::TryRecv).boxed()),
    (4, any::<bool>().prop_map(COp::RecvTimeout).boxed()),
    (b, n.clone().prop_map(COp::RecvBatch).boxed()),
    (b, n.clone().prop_map(COp::TryRecvBatch).boxed()),
    (b, n.prop_map(COp::RecvBatchMut).boxed()),
    (2, Just(COp::Next).boxed()),
    (1, Just(COp::Yield).boxed()),
    (1, Just(COp::Convert).boxed()),
    (1, Just(COp::Close).boxed()),
    (2, Just(COp::RecvCancel).boxed()),
    (1, (8u8..40).prop_map(COp::RecvBurst).boxed()),
  ];
  proptest::strategy::Union::new_weighted(opts.into_iter().filter(|(w, _)| *w > 0).collect()).boxed()
}

/// Cancel-focused programs (reserve mode): few items that always fit, consumers with short lists
/// of blocking and cancelled receives — the shape in which a wake swallowed by a cancelled
/// future leaves a parked thread behind with nobody to make up for it.
fn cancel_focused(flavours: Vec<Flavour>, schedules: usize) -> BoxedStrategy<Scenario> {
  let fl: Vec<Flavour> = flavours.into_iter().filter(|f| f.has_batch() && *f != Flavour::Broadcast).collect();
  if fl.is_empty() {
    return Just(Scenario { flavour: Flavour::MpmcBounded, async_start: true, cap: 4, producers: vec![vec![POp::Send]], consumers: vec![(vec![COp::Recv], false)], seed: 0, schedules, balanced: true, reserve: true }).boxed();
  }
  let cop = prop_oneof![3 => Just(COp::RecvCancel), 3 => Just(COp::Recv), 1 => Just(COp::Convert), 1 => Just(COp::Yield), 1 => Just(COp::RecvTimeout(false))];
  (proptest::sample::select(fl), any::<u64>()).prop_flat_map(move |(f, seed)| {
    let maxp = if f.multi_tx() { 2 } else { 1 };
    let maxc = if f.multi_rx() { 3 } else { 1 };
    (
      proptest::collection::vec(proptest::collection::vec(prop_oneof![4 => Just(POp::Send), 1 => Just(POp::Yield)], 1..3), 1..=maxp),
      // (ops, flip): a flipped consumer converts its handle first, so sync and async waiters of
      // one channel are mixed ("this holds for any mix of sync and async handles on one channel")
      proptest::collection::vec((proptest::collection::vec(cop.clone(), 1..4), any::<bool>()), 1..=maxc),
      any::<bool>(),
    )
      .prop_map(move |(producers, consumers, a)| {
        let consumers = consumers
          .into_iter()
          .map(|(mut ops, flip)| {
            if flip {
              ops.insert(0, COp::Convert);
            }
            (ops, false)
          })
          .collect();
        Scenario { flavour: f, async_start: a, cap: 4, producers, consumers, seed, schedules, balanced: true, reserve: true }
      })
  }).boxed()
}

/// Cancel-and-drain family: a small capacity, a producer that sends more than fits (so it has to
/// wait for space), one or two consumers that start receives and abandon them (cancelled futures,
/// timed receives) and then stop, and one consumer of the other handle form that drains until
/// Disconnected.  A notification swallowed by an abandoned receive leaves the value buffered, the
/// producer waiting for space and the drainer waiting for a wake: nobody makes up for it.
fn cancel_drain(flavours: Vec<Flavour>, schedules: usize) -> BoxedStrategy<Scenario> {
  let fl: Vec<Flavour> = flavours.into_iter().filter(|f| f.multi_rx() && f.has_batch() && *f != Flavour::Broadcast).collect();
  if fl.is_empty() {
    return cancel_focused(vec![], schedules);
  }
  let quitter = prop_oneof![4 => Just(COp::RecvCancel), 1 => Just(COp::RecvTimeout(false)), 1 => Just(COp::RecvTimeout(true)), 1 => Just(COp::Yield)];
  (proptest::sample::select(fl), any::<u64>(), prop_oneof![3 => Just(1usize), 2 => Just(2usize), 1 => Just(3usize)]).prop_flat_map(move |(f, seed, cap)| {
    (
      proptest::collection::vec(proptest::collection::vec(quitter.clone(), 1..3), 1..=2),
      (cap + 1)..(cap + 5),
      any::<bool>(),
      any::<bool>(),
      any::<bool>(),
    )
      .prop_map(move |(quitters, nsend, a, drainer_first, batch_drain)| {
        let mut consumers: Vec<(Vec<COp>, bool)> = quitters.into_iter().map(|ops| (ops, false)).collect();
        // the drainer uses the other handle form than the quitters
        let drainer = (if batch_drain { vec![COp::Convert, COp::RecvBatch(2)] } else { vec![COp::Convert] }, true);
        if drainer_first {
          consumers.insert(0, drainer);
        } else {
          consumers.push(drainer);
        }
        let producers = vec![(0..nsend).map(|_| POp::Send).collect::<Vec<_>>()];
        Scenario { flavour: f, async_start: a, cap: if f.unbounded() { 1 } else { cap }, producers, consumers, seed, schedules, balanced: false, reserve: false }
      })
  }).boxed()
}

pub fn scenario_strategy(flavours: Vec<Flavour>, prop: &str, schedules: usize) -> BoxedStrategy<Scenario> {
  if prop == "C06" {
    // every program has cancelled futures racing blocked threads / pending tasks
    let focused = cancel_focused(flavours.clone(), schedules);
    let drain = cancel_drain(flavours, schedules);
    return prop_oneof![1 => focused, 1 => drain].boxed();
  }
  if prop == "C05" || prop == "C01" {
    let focused = cancel_focused(flavours.clone(), schedules);
    let drain = cancel_drain(flavours.clone(), schedules);
    let general = scenario_strategy_general(flavours, prop, schedules);
    let w = if prop == "C01" { 1 } else { 4 };
    return prop_oneof![10 => general, 4 => focused, w => drain].boxed();
  }
  let focused = cancel_focused(flavours.clone(), schedules);
  let general = scenario_strategy_general(flavours, prop, schedules);
  let wf = if prop == "C05" || prop == "C06" { 5 } else { 1 };
  prop_oneof![10 => general, wf => focused].boxed()
}

fn scenario_strategy_general(flavours: Vec<Flavour>, prop: &str, schedules: usize) -> BoxedStrategy<Scenario> {
  let _ = prop;
  (proptest::sample::select(flavours), any::<bool>(), prop_oneof![4 => Just(1usize), 3 => Just(2usize), 2 => Just(3usize), 1 => Just(4usize)], any::<u64>())
    .prop_flat_map(move |(f, a, cap, seed)| {
      let maxp = if f.multi_tx() { 3 } else { 1 };
      let maxc = if f.multi_rx() { 3 } else { 1 };
      let plen = if f == Flavour::Oneshot { 1..2usize } else { 1..7usize };
      (
        proptest::collection::vec(proptest::collection::vec(pop_strategy(f), plen), 1..=maxp),
        proptest::collection::vec((proptest::collection::vec(cop_strategy(f), 0..6), proptest::bool::weighted(0.6)), 1..=maxc),
      )
        .prop_map(move |(producers, consumers)| {
          let consumers_orig = consumers.clone();
          let balanced = seed % 3 == 0 && f != Flavour::Oneshot;
          let mut s = Scenario { flavour: f, async_start: a, cap, producers, consumers, seed, schedules, balanced, reserve: false };
          if balanced {
            normalise_balanced(&mut s);
            let fits = f.unbounded() || (f.bounded() && f != Flavour::Broadcast && balanced_total(&s) <= cap);
            if fits && (seed / 3) % 2 == 0 {
              s.reserve = true;
              // consumers keep their generated (finite) lists, including try / timed / cancel forms
              for (i, (c, _)) in s.consumers.iter_mut().enumerate() {
                *c = consumers_orig[i].0.iter().filter(|o| !matches!(o, COp::Close)).cloned().collect();
              }
            }
          }
          s
        })
    })
    .boxed()
}

/// Balanced mode keeps only the blocking send forms (their item counts are certain) and drops
/// closes / cancels; consumers' op lists become the cycle of receive styles they use.
fn normalise_balanced(s: &mut Scenario) {
  for p in s.producers.iter_mut() {
    for op in p.iter_mut() {
      *op = match op.clone() {
        POp::TrySend | POp::TrySendSpin(_) | POp::SendCancel | POp::Close => POp::Send,
        POp::TrySendBatch(n) => POp::SendBatch(n),
        POp::TrySendBatchMut(n) => POp::SendBatchMut(n),
        POp::SendBurst(k) => POp::SendBurst(k.min(12)),
        o => o,
      };
    }
  }
  for (c, drain) in s.consumers.iter_mut() {
    *drain = false;
    for op in c.iter_mut() {
      *op = match op.clone() {
        COp::TryRecv | COp::Close | COp::RecvCancel | COp::RecvBurst(_) => COp::Recv,
        COp::TryRecvBatch(n) => COp::RecvBatch(n.max(1)),
        COp::RecvBatch(n) => COp::RecvBatch(n.max(1)),
        COp::RecvBatchMut(n) => COp::RecvBatchMut(n.max(1)),
        o => o,
      };
    }
    if c.iter().all(|o| matches!(o, COp::Yield | COp::Convert)) {
      c.push(COp::Recv);
    }
  }
}

fn balanced_total(s: &Scenario) -> usize {
  s.producers.iter().flatten().map(|o| match o {
    POp::Send => 1,
    POp::SendBurst(k) => *k as usize,
    POp::SendBatch(n) | POp::SendBatchMut(n) => if s.flavour.has_batch() { *n as usize } else { 0 },
    _ => 0,
  }).sum()
}

// ---------------------------------------------------------------------------------------------
// execution log (shared by the threads of one execution; std Mutex, never held across a
// scheduling point)
// ---------------------------------------------------------------------------------------------

#[derive(Default)]
struct Log {
  clock: u64,
  /// id -> (producer, start, done (0 = not known complete), ok)
  sends: BTreeMap<u32, (usize, u64, u64, bool)>,
  /// receive ops: (consumer, start, done (0 = in progress), max items it may take, ids taken)
  recvs: Vec<(usize, u64, u64, usize, Vec<u32>)>,
  /// time at which each producer handle stopped being able to send (closed / dropped)
  producer_gone: BTreeMap<usize, u64>,
  /// consumers that observed Disconnected (time)
  saw_disc: BTreeMap<usize, u64>,
  consumer_gone: BTreeMap<usize, u64>,
  failure: Option<Failure>,
  send_refused: bool,
  send_ok: bool,
  closed_send: bool,
  timeout_fired_with_live_sender: bool,
  disc_observed: bool,
  batch_used: bool,
}

type SLog = Arc<Mutex<Log>>;

fn sig(s: &Scenario, form: &str, clause: &str) -> String {
  format!("E3/{}/{}/{}", s.flavour.name(), form, clause)
}

impl Log {
  fn tick(&mut self) -> u64 {
    self.clock += 1;
    self.clock
  }
  fn fail(&mut self, f: Failure) {
    if self.failure.is_none() {
      self.failure = Some(f);
    }
  }
}

struct Env {
  s: Scenario,
  /// reserve mode: units of the total not yet claimed by a receive operation
  remaining: std::sync::atomic::AtomicUsize,
  log: SLog,
  reg: Arc<Registry>,
  nproducers: usize,
  cap: Option<usize>,
}

impl Env {
  fn send_start(&self, p: usize, ids: &[u32]) {
    let mut l = self.log.lock().unwrap();
    let t = l.tick();
    if trace() {
      eprintln!("  t={t} producer {p} send start {ids:?}");
    }
    for id in ids {
      l.sends.insert(*id, (p, t, 0, false));
    }
  }

  /// `ok_ids` completed successfully.  C03 occupancy check at completion time.
  fn send_done(&self, form: &str, ok_ids: &[u32]) {
    let mut l = self.log.lock().unwrap();
    let t = l.tick();
    if trace() {
      eprintln!("  t={t} {form} done ok={ok_ids:?}");
    }
    for id in ok_ids {
      if let Some(e) = l.sends.get_mut(id) {
        e.2 = t;
        e.3 = true;
      }
    }
    if !ok_ids.is_empty() {
      l.send_ok = true;
    }
    // C03 — "A bounded channel of capacity N never holds more than N sent-but-unreceived
    // values: a send completes only while fewer than N are buffered (rendezvous: only by
    // pairing with a receive; ...)".  Sound form under overlap: completed sends minus
    // everything receive operations that have *started* can account for is at most N.
    if let Some(cap) = self.cap {
      let ok = l.sends.values().filter(|e| e.3).count();
      let mut could = 0usize;
      for r in l.recvs.iter() {
        could += if r.2 != 0 { r.4.len() } else { r.3 };
      }
      if ok > cap + could {
        let f = Failure::new("C03", sig(&self.s, form, "occupancy_exceeds_capacity"), format!("{} sends have completed Ok but receives that have started can account for at most {}; capacity {}", ok, could, cap));
        l.fail(f);
      }
    }
  }

  fn send_failed(&self, closed: bool) {
    let mut l = self.log.lock().unwrap();
    l.send_refused = true;
    if closed {
      l.closed_send = true;
    }
  }

  fn recv_start(&self, c: usize, max: usize) -> usize {
    let mut l = self.log.lock().unwrap();
    let t = l.tick();
    if trace() {
      eprintln!("  t={t} consumer {c} recv start (max {max})");
    }
    l.recvs.push((c, t, 0, max, vec![]));
    l.recvs.len() - 1
  }

  fn recv_done(&self, form: &str, c: usize, slot: usize, got: &[u32]) {
    let mut l = self.log.lock().unwrap();
    let t = l.tick();
    if trace() {
      eprintln!("  t={t} consumer {c} {form} got {got:?}");
    }
    l.recvs[slot].2 = t;
    l.recvs[slot].4 = got.to_vec();
    if got.is_empty() {
      return;
    }
    if let Some(td) = l.saw_disc.get(&c).copied() {
      let f = Failure::new("C04", sig(&self.s, form, "value_after_disconnected"), format!("consumer {c} obtained {:?} after it had observed Disconnected at t={td}", got));
      l.fail(f);
      return;
    }
    for id in got {
      // C01: no phantom, no duplicate
      if !l.sends.contains_key(id) {
        let f = Failure::new("C01", sig(&self.s, form, "phantom"), format!("consumer {c} received #{id} which no producer ever sent"));
        l.fail(f);
        return;
      }
      let dup = l.recvs.iter().enumerate().any(|(i, r)| i != slot && r.4.contains(id)) || got.iter().filter(|x| *x == id).count() > 1;
      if dup && self.s.flavour != Flavour::Broadcast {
        let f = Failure::new("C01", sig(&self.s, form, "duplicate"), format!("#{id} was received twice"));
        l.fail(f);
        return;
      }
    }
    // C02: per consumer, the values of one producer arrive in that producer's send order
    // (ids are issued in increasing order by each producer thread, which sends sequentially,
    // and a consumer thread receives sequentially)
    let mut last: BTreeMap<usize, u32> = BTreeMap::new();
    let mut seq: Vec<u32> = Vec::new();
    for r in l.recvs.iter().filter(|r| r.0 == c && r.2 != 0) {
      seq.extend(r.4.iter().copied());
    }
    for id in seq {
      let p = (id / 1000) as usize;
      if let Some(prev) = last.get(&p) {
        if id <= *prev {
          let f = Failure::new("C02", sig(&self.s, form, "per_producer_order"), format!("consumer {c} received #{id} after #{prev} of the same producer"));
          l.fail(f);
          return;
        }
      }
      last.insert(p, id);
    }
  }

  fn recv_disconnected(&self, form: &str, c: usize, slot: usize, self_closed: bool) {
    let mut l = self.log.lock().unwrap();
    let t = l.tick();
    if trace() {
      eprintln!("  t={t} consumer {c} {form} Disconnected");
    }
    l.recvs[slot].2 = t;
    l.disc_observed = true;
    if self_closed {
      return;
    }
    // C04: Disconnected only after the last sender is gone
    if l.producer_gone.len() < self.nproducers && self.s.flavour != Flavour::Oneshot {
      let f = Failure::new("C04", sig(&self.s, form, "disconnected_with_live_sender"), format!("consumer {c} observed Disconnected while {} producer handle(s) are alive", self.nproducers - l.producer_gone.len()));
      l.fail(f);
      return;
    }
    l.saw_disc.entry(c).or_insert(t);
  }

  fn recv_empty(&self, slot: usize, timeout: bool) {
    let mut l = self.log.lock().unwrap();
    let t = l.tick();
    if trace() {
      eprintln!("  t={t} recv slot {slot} empty/timeout={timeout}");
    }
    l.recvs[slot].2 = t;
    if timeout && l.producer_gone.len() < self.nproducers {
      l.timeout_fired_with_live_sender = true;
    }
  }

  fn producer_gone(&self, p: usize) {
    let mut l = self.log.lock().unwrap();
    let t = l.tick();
    if trace() {
      eprintln!("  t={t} producer {p} going");
    }
    l.producer_gone.entry(p).or_insert(t);
  }
  fn consumer_gone(&self, c: usize) {
    let mut l = self.log.lock().unwrap();
    let t = l.tick();
    if trace() {
      eprintln!("  t={t} consumer {c} gone");
    }
    l.consumer_gone.entry(c).or_insert(t);
  }
  fn failed(&self) -> bool {
    self.log.lock().unwrap().failure.is_some()
  }
}

fn trace() -> bool {
  std::env::var("VERIF_TRACE").is_ok()
}

thread_local! {
  /// polls of harness-driven futures that returned Pending (the task then blocks in block_on)
  static PENDING_POLLS: std::cell::Cell<u64> = const { std::cell::Cell::new(0) };
}

fn block_on<O>(mut f: BoxFut<'_, O>) -> O {
  shuttle::future::block_on(std::future::poll_fn(move |cx| {
    let r = f.as_mut().poll(cx);
    if r.is_pending() {
      PENDING_POLLS.with(|c| c.set(c.get() + 1));
    }
    r
  }))
}

fn producer_thread(env: Arc<Env>, p: usize, mut h: Box<dyn Tx>, ops: Vec<POp>) -> Option<Box<dyn Tx>> {
  let mut seq = 0u32;
  let mut closed = false;
  let mut fresh = |n: usize, reg: &Arc<Registry>| -> Vec<Pay> {
    (0..n)
      .map(|_| {
        let id = (p as u32) * 1000 + seq;
        seq += 1;
        Tracked::new(id, reg)
      })
      .collect()
  };
  let ops: Vec<POp> = ops.into_iter().flat_map(|o| match o {
    POp::SendBurst(k) => vec![POp::Send; k as usize],
    o => vec![o],
  }).collect();
  for op in ops {
    if env.failed() {
      break;
    }
    let caps = h.caps();
    match op {
      POp::SendBurst(_) => {}
      POp::Yield => shuttle::thread::yield_now(),
      POp::Convert => {
        h = match h.convert() {
          Ok(n) => n,
          Err(o) => o,
        };
      }
      POp::Close => {
        if !closed && !caps.consuming {
          // logged before the call: a producer counts as alive only until it starts to go
          env.producer_gone(p);
          let _ = h.close();
          closed = true;
        }
      }
      POp::SendCancel if caps.futures => {
        let v = fresh(1, &env.reg).pop().unwrap();
        let id = v.id;
        env.send_start(p, &[id]);
        let mut f = h.send_fut(v);
        match poll_once_detached(&mut f) {
          Some(Ok(())) => env.send_done("send_fut", &[id]),
          Some(Err(_)) => env.send_failed(true),
          None => {
            shuttle::thread::yield_now();
            // cancelled: the value goes with the future; whether it was delivered is open
            drop(f);
            env.send_failed(false);
          }
        }
      }
      POp::Send | POp::TrySend | POp::TrySendSpin(_) | POp::SendCancel => {
        let mut v = fresh(1, &env.reg).pop().unwrap();
        let id = v.id;
        env.send_start(p, &[id]);
        if caps.consuming {
          // oneshot: the send consumes the handle
          match h.try_send(v) {
            Ok(()) => env.send_done("oneshot_send", &[id]),
            Err(_) => env.send_failed(false),
          }
          env.producer_gone(p);
          return None;
        }
        let blocking = matches!(op, POp::Send);
        if blocking {
          let r = if caps.blocking { h.send(v) } else { block_on(h.send_fut(v)) };
          match r {
            Ok(()) => env.send_done(if caps.blocking { "send" } else { "send_fut" }, &[id]),
            Err(_) => env.send_failed(true),
          }
        } else {
          let tries = if let POp::TrySendSpin(n) = op { n as usize + 1 } else { 1 };
          let mut done = false;
          for _ in 0..tries {
            match h.try_send(v) {
              Ok(()) => {
                env.send_done("try_send", &[id]);
                done = true;
                break;
              }
              Err(TrySendError::Full(b)) => {
                if b.id != id {
                  env.log.lock().unwrap().fail(Failure::new("C01", sig(&env.s, "try_send", "handback_identity"), format!("Full handed back #{} instead of #{id}", b.id)));
                }
                v = b;
                shuttle::thread::yield_now();
              }
              Err(TrySendError::Closed(b)) | Err(TrySendError::Sent(b)) => {
                if b.id != id {
                  env.log.lock().unwrap().fail(Failure::new("C01", sig(&env.s, "try_send", "handback_identity"), format!("Closed handed back #{} instead of #{id}", b.id)));
                }
                env.send_failed(true);
                done = true;
                break;
              }
            }
          }
          if !done {
            env.send_failed(false);
          }
        }
      }
      POp::SendBatch(n) | POp::TrySendBatch(n) | POp::SendBatchMut(n) | POp::TrySendBatchMut(n) => {
        if !caps.batch {
          continue;
        }
        let items = fresh(n as usize, &env.reg);
        let ids = crate::payload::ids(&items);
        env.send_start(p, &ids);
        env.log.lock().unwrap().batch_used = true;
        let (form, sent, unsent): (&str, usize, Vec<u32>) = match op {
          POp::SendBatch(_) => {
            let r = if caps.blocking { h.send_batch(items) } else { block_on(h.send_batch_fut(items)) };
            match r {
              Ok(k) => ("send_batch", k, vec![]),
              Err(e) => ("send_batch", e.sent, crate::payload::ids(&e.unsent)),
            }
          }
          POp::TrySendBatch(_) => match h.try_send_batch(items) {
            Ok(k) => ("try_send_batch", k, vec![]),
            Err(e) => ("try_send_batch", e.sent, crate::payload::ids(&e.unsent)),
          },
          POp::SendBatchMut(_) => {
            let mut v = items;
            let _ = if caps.blocking { h.send_batch_mut(&mut v) } else { block_on(h.send_batch_mut_fut(&mut v)) };
            let left = crate::payload::ids(&v);
            ("send_batch_mut", ids.len() - left.len().min(ids.len()), left)
          }
          _ => {
            let mut v = items;
            let _ = h.try_send_batch_mut(&mut v);
            let left = crate::payload::ids(&v);
            ("try_send_batch_mut", ids.len() - left.len().min(ids.len()), left)
          }
        };
        // C01: "batch errors with sent + unsent equal to the input in order"
        if sent + unsent.len() != ids.len() || unsent != ids[sent.min(ids.len())..] {
          env.log.lock().unwrap().fail(Failure::new("C01", sig(&env.s, form, "batch_accounting"), format!("sent {sent} + unsent {:?} does not partition the input {:?} in order", unsent, ids)));
        }
        env.send_done(form, &ids[..sent.min(ids.len())]);
        if sent < ids.len() {
          env.send_failed(false);
        }
      }
    }
  }
  if env.s.balanced {
    return Some(h); // kept alive until every thread is done
  }
  env.producer_gone(p);
  drop(h);
  None
}

struct FlagWaker(std::sync::atomic::AtomicBool);
impl std::task::Wake for FlagWaker {
  fn wake(self: Arc<Self>) {
    self.0.store(true, std::sync::atomic::Ordering::SeqCst);
  }
}

/// poll a future once with a waker nobody listens to; `None` = still pending
fn poll_once_detached<O>(f: &mut BoxFut<'_, O>) -> Option<O> {
  let w = std::task::Waker::from(Arc::new(FlagWaker(std::sync::atomic::AtomicBool::new(false))));
  let mut cx = std::task::Context::from_waker(&w);
  match f.as_mut().poll(&mut cx) {
    std::task::Poll::Ready(o) => Some(o),
    std::task::Poll::Pending => None,
  }
}

fn consumer_thread(env: Arc<Env>, c: usize, mut h: Box<dyn Rx>, ops: Vec<COp>, drain: bool) -> Option<Box<dyn Rx>> {
  let mut closed = false;
  let mut do_recv = |h: &Box<dyn Rx>, kind: u8, arg: usize, closed: bool| -> bool {
    // returns true if Disconnected was observed
    let caps = h.caps();
    match kind {
      // single-value forms: 0 recv, 1 try_recv, 2 recv_timeout(0), 3 recv_timeout(1ms), 4 stream next
      0 | 1 | 2 | 3 | 4 => {
        let slot = env.recv_start(c, 1);
        let (form, r): (&str, Result<Pay, u8>) = match kind {
          0 if caps.blocking => ("recv", h.recv().map_err(|_| 1u8)),
          0 => ("recv_fut", block_on(h.recv_fut()).map_err(|_| 1u8)),
          4 if caps.stream => ("stream_next", block_on(h.next_fut()).ok_or(1u8)),
          4 if caps.blocking => ("recv", h.recv().map_err(|_| 1u8)),
          4 => ("recv_fut", block_on(h.recv_fut()).map_err(|_| 1u8)),
          2 | 3 if caps.timeout => ("recv_timeout", h.recv_timeout(if kind == 2 { Duration::ZERO } else { Duration::from_millis(1) }).map_err(|e| if e == RecvErrorTimeout::Timeout { 2u8 } else { 1u8 })),
          _ => ("try_recv", h.try_recv().map_err(|e| if e == TryRecvError::Empty { 0u8 } else { 1u8 })),
        };
        match r {
          Ok(v) => {
            if closed {
              env.log.lock().unwrap().fail(Failure::new("C04", sig(&env.s, form, "value_on_self_closed_handle"), format!("a self-closed receiver obtained #{}", v.id)));
            }
            env.recv_done(form, c, slot, &[v.id]);
            false
          }
          Err(1) => {
            env.recv_disconnected(form, c, slot, closed);
            true
          }
          Err(k) => {
            env.recv_empty(slot, k == 2);
            false
          }
        }
      }
      // 8: start an async receive, poll it once, yield, drop it if still pending
      8 => {
        let slot = env.recv_start(c, 1);
        let mut f = h.recv_fut();
        match poll_once_detached(&mut f) {
          Some(Ok(v)) => {
            drop(f);
            env.recv_done("recv_fut", c, slot, &[v.id]);
            false
          }
          Some(Err(_)) => {
            drop(f);
            env.recv_disconnected("recv_fut", c, slot, closed);
            true
          }
          None => {
            shuttle::thread::yield_now();
            drop(f);
            env.recv_empty(slot, false);
            false
          }
        }
      }
      // batch forms: 5 recv_batch, 6 try_recv_batch, 7 recv_batch_mut
      _ => {
        if !caps.batch {
          return false;
        }
        let max = arg;
        let slot = env.recv_start(c, max);
        let (form, r): (&str, Result<Vec<u32>, u8>) = match kind {
          5 if caps.blocking => ("recv_batch", h.recv_batch(max).map(|v| crate::payload::ids(&v)).map_err(|_| 1u8)),
          5 => ("recv_batch_fut", block_on(h.recv_batch_fut(max)).map(|v| crate::payload::ids(&v)).map_err(|_| 1u8)),
          7 => {
            let mut out: Vec<Pay> = Vec::new();
            let r = if caps.blocking { h.recv_batch_mut(&mut out, max) } else { block_on(h.recv_batch_mut_fut(&mut out, max)) };
            let got = crate::payload::ids(&out);
            ("recv_batch_mut", match r {
              Ok(k) => {
                if k != got.len() {
                  env.log.lock().unwrap().fail(Failure::new("C01", sig(&env.s, "recv_batch_mut", "append_count"), format!("returned {k} but appended {}", got.len())));
                }
                Ok(got)
              }
              Err(_) => {
                if !got.is_empty() {
                  env.log.lock().unwrap().fail(Failure::new("C01", sig(&env.s, "recv_batch_mut", "failed_recv_consumed"), format!("a failed batch receive appended {} items", got.len())));
                }
                Err(1u8)
              }
            })
          }
          _ => ("try_recv_batch", h.try_recv_batch(max).map(|v| crate::payload::ids(&v)).map_err(|e| if e == TryRecvError::Empty { 0u8 } else { 1u8 })),
        };
        match r {
          Ok(got) => {
            if got.len() > max || (got.is_empty() && max > 0) {
              env.log.lock().unwrap().fail(Failure::new("C01", sig(&env.s, form, "batch_size"), format!("{} items for max {max}", got.len())));
            }
            if closed && !got.is_empty() {
              env.log.lock().unwrap().fail(Failure::new("C04", sig(&env.s, form, "value_on_self_closed_handle"), format!("a self-closed receiver obtained {:?}", got)));
            }
            env.recv_done(form, c, slot, &got);
            false
          }
          Err(1) => {
            if max == 0 {
              env.recv_empty(slot, false);
              return false;
            }
            env.recv_disconnected(form, c, slot, closed);
            true
          }
          Err(_) => {
            env.recv_empty(slot, false);
            false
          }
        }
      }
    }
  };
  let oneshot = env.s.flavour == Flavour::Oneshot;
  if env.s.balanced && env.s.reserve {
    use std::sync::atomic::Ordering as O;
    let reserve = |want: usize| -> usize {
      let mut cur = env.remaining.load(O::SeqCst);
      loop {
        let take = want.min(cur);
        if take == 0 {
          return 0;
        }
        match env.remaining.compare_exchange(cur, cur - take, O::SeqCst, O::SeqCst) {
          Ok(_) => return take,
          Err(c) => cur = c,
        }
      }
    };
    let got_of = |env: &Env| env.log.lock().unwrap().recvs.iter().filter(|r| r.0 == c).map(|r| r.4.len()).sum::<usize>();
    for op in ops {
      if env.failed() {
        break;
      }
      let (kind, want): (u8, usize) = match op {
        COp::Yield => {
          shuttle::thread::yield_now();
          continue;
        }
        COp::Convert => {
          h = match h.convert() {
            Ok(n) => n,
            Err(o) => o,
          };
          continue;
        }
        COp::Close => continue,
        COp::Recv | COp::RecvBurst(_) => (0, 1),
        COp::TryRecv => (1, 1),
        COp::RecvTimeout(z) => (if z { 2 } else { 3 }, 1),
        COp::Next => (4, 1),
        COp::RecvBatch(n) => (5, n as usize),
        COp::TryRecvBatch(n) => (6, n as usize),
        COp::RecvBatchMut(n) => (7, n as usize),
        COp::RecvCancel => {
          let f05 = env.s.flavour.rendezvous() && crate::finding_open("F05-rendezvous-cancelled-fulfilled-recv-loses-value");
          (if h.caps().futures && !f05 { 8 } else { 1 }, 1)
        }
      };
      if want == 0 || ((kind == 5 || kind == 6 || kind == 7) && !h.caps().batch) {
        continue;
      }
      let units = reserve(want);
      if units == 0 {
        continue; // every remaining item is already spoken for
      }
      let before = got_of(&env);
      let disc = do_recv(&h, kind, units, false);
      let took = got_of(&env) - before;
      env.remaining.fetch_add(units - took.min(units), O::SeqCst);
      if disc {
        env.log.lock().unwrap().fail(Failure::new("C04", sig(&env.s, "balanced", "disconnected_with_live_sender"), format!("consumer {c} observed Disconnected although every producer handle is still alive")));
        break;
      }
    }
    return Some(h);
  }
  if env.s.balanced {
    // receive exactly this consumer's share, cycling through the generated receive styles
    let total = balanced_total(&env.s);
    let nc = env.s.consumers.len();
    let quota = if env.s.flavour == Flavour::Broadcast { total } else { total / nc + if c < total % nc { 1 } else { 0 } };
    let got = |env: &Env| env.log.lock().unwrap().recvs.iter().filter(|r| r.0 == c).map(|r| r.4.len()).sum::<usize>();
    let mut i = 0usize;
    let mut guard = 0usize;
    while got(&env) < quota && !env.failed() {
      guard += 1;
      if guard > 4_000 {
        break;
      }
      let left = quota - got(&env);
      let op = ops[i % ops.len()].clone();
      i += 1;
      let disc = match op {
        COp::Yield => {
          shuttle::thread::yield_now();
          false
        }
        COp::Convert => {
          h = match h.convert() {
            Ok(n) => n,
            Err(o) => o,
          };
          false
        }
        COp::RecvTimeout(z) => do_recv(&h, if z { 2 } else { 3 }, 0, false),
        COp::Next => do_recv(&h, 4, 0, false),
        COp::RecvBatch(n) => do_recv(&h, 5, (n as usize).min(left).max(1), false),
        COp::RecvBatchMut(n) => do_recv(&h, 7, (n as usize).min(left).max(1), false),
        _ => do_recv(&h, 0, 0, false),
      };
      if disc {
        // nobody has dropped a handle yet
        env.log.lock().unwrap().fail(Failure::new("C04", sig(&env.s, "balanced", "disconnected_with_live_sender"), format!("consumer {c} observed Disconnected although every producer handle is still alive")));
        break;
      }
    }
    return Some(h);
  }
  for op in ops {
    if env.failed() {
      break;
    }
    // a oneshot is received from once; nothing is specified for receives after the value
    if oneshot && env.log.lock().unwrap().recvs.iter().any(|r| !r.4.is_empty()) {
      break;
    }
    match op {
      COp::Yield => shuttle::thread::yield_now(),
      COp::Convert => {
        h = match h.convert() {
          Ok(n) => n,
          Err(o) => o,
        };
      }
      COp::Close => {
        if !closed {
          let _ = h.close();
          closed = true;
          env.consumer_gone(c);
        }
      }
      COp::RecvCancel => {
        // known finding F05 (open): a fulfilled rendezvous receive that is dropped loses the
        // value — excluded by construction, the receive is completed instead
        let f05 = env.s.flavour.rendezvous() && crate::finding_open("F05-rendezvous-cancelled-fulfilled-recv-loses-value");
        if h.caps().futures && !closed && !f05 {
          do_recv(&h, 8, 0, closed);
        } else {
          do_recv(&h, 1, 0, closed);
        }
      }
      COp::Recv => {
        do_recv(&h, 0, 0, closed);
      }
      COp::RecvBurst(k) => {
        for _ in 0..k {
          if do_recv(&h, 0, 0, closed) || env.failed() || oneshot {
            break;
          }
        }
      }
      COp::TryRecv => {
        do_recv(&h, 1, 0, closed);
      }
      COp::RecvTimeout(z) => {
        do_recv(&h, if z { 2 } else { 3 }, 0, closed);
      }
      COp::Next => {
        do_recv(&h, 4, 0, closed);
      }
      COp::RecvBatch(n) => {
        do_recv(&h, 5, n as usize, closed);
      }
      COp::TryRecvBatch(n) => {
        do_recv(&h, 6, n as usize, closed);
      }
      COp::RecvBatchMut(n) => {
        do_recv(&h, 7, n as usize, closed);
      }
    }
  }
  let oneshot_done = oneshot && env.log.lock().unwrap().recvs.iter().any(|r| !r.4.is_empty());
  if drain && !closed && !env.failed() && !oneshot_done {
    // "provided some receiver keeps receiving until it observes Disconnected"
    let mut n = 0;
    loop {
      n += 1;
      if n > 10_000 || env.failed() {
        break;
      }
      if do_recv(&h, 0, 0, false) {
        break;
      }
      if env.s.flavour == Flavour::Oneshot {
        break;
      }
    }
  }
  drop(h);
  env.consumer_gone(c);
  None
}

struct ExecOut {
  failure: Option<Failure>,
  inconclusive: bool,
  parked: bool,
  classes: Vec<&'static str>,
  nontrivial: bool,
}

/// Shared per-execution state, created inside the shuttle closure (one per execution).
struct ExecState {
  seed: u64,
  log: SLog,
  reg: Arc<Registry>,
  parks: Arc<std::sync::atomic::AtomicU64>,
}

fn run_many(s: &Scenario, seeds: Vec<u64>) -> Vec<ExecOut> {
  use std::panic::{catch_unwind, AssertUnwindSafe};
  let cap = if s.flavour.rendezvous() {
    Some(0)
  } else if s.flavour.unbounded() || s.flavour == Flavour::Broadcast {
    None
  } else if s.flavour == Flavour::Oneshot {
    Some(1)
  } else {
    Some(s.cap)
  };
  let states: Arc<Mutex<Vec<ExecState>>> = Arc::new(Mutex::new(Vec::new()));
  let stop = Arc::new(std::sync::atomic::AtomicBool::new(false));
  let mut config = shuttle::Config::new();
  config.max_steps = shuttle::MaxSteps::FailAfter(150_000);
  config.failure_persistence = shuttle::FailurePersistence::None;
  config.silence_warnings = true;
  config.stack_size = 0x20000;
  let runner = shuttle::Runner::new(ByteSched::new(seeds.clone()), config);
  let drainer_exists = s.consumers.iter().any(|(ops, d)| *d && !ops.contains(&COp::Close));
  let sc = s.clone();
  let states2 = states.clone();
  let stop2 = stop.clone();
  let seeds2 = seeds.clone();
  let r = catch_unwind(AssertUnwindSafe(move || {
    runner.run(move || {
      if stop2.load(std::sync::atomic::Ordering::Relaxed) {
        return;
      }
      fibre::verif::reset_virtual_clock();
      CLONE_IS_SCHED_POINT.with(|c| c.set(true));
      PENDING_POLLS.with(|c| c.set(0));
      let log: SLog = Arc::new(Mutex::new(Log::default()));
      let reg = Registry::new();
      let parks = Arc::new(std::sync::atomic::AtomicU64::new(0));
      let idx = {
        let mut g = states2.lock().unwrap();
        let i = g.len();
        g.push(ExecState { seed: seeds2[i.min(seeds2.len() - 1)], log: log.clone(), reg: reg.clone(), parks: parks.clone() });
        i
      };
      let _ = idx;
      let env = Arc::new(Env { s: sc.clone(), remaining: std::sync::atomic::AtomicUsize::new(balanced_total(&sc)), log: log.clone(), reg: reg.clone(), nproducers: sc.producers.len(), cap });
      let s = &env.s;
      let (t0, r0) = make(s.flavour, s.async_start, s.cap);
      // one handle per thread, cloned up front
      let mut txs: Vec<Box<dyn Tx>> = Vec::new();
      let mut rxs: Vec<Box<dyn Rx>> = Vec::new();
      for _ in 1..s.producers.len() {
        txs.push(t0.try_clone().expect("multi-producer flavour"));
      }
      txs.insert(0, t0);
      for _ in 1..s.consumers.len() {
        rxs.push(r0.try_clone().expect("multi-consumer flavour"));
      }
      rxs.insert(0, r0);
      let mut pjoins = Vec::new();
      let mut cjoins = Vec::new();
      for (p, (h, ops)) in txs.into_iter().zip(s.producers.iter().cloned()).enumerate() {
        let e = env.clone();
        pjoins.push(shuttle::thread::spawn(move || producer_thread(e, p, h, ops)));
      }
      for (c, (h, (ops, drain))) in rxs.into_iter().zip(s.consumers.iter().cloned()).enumerate() {
        let e = env.clone();
        cjoins.push(shuttle::thread::spawn(move || consumer_thread(e, c, h, ops, drain)));
      }
      // balanced mode: the handles come back and are dropped only now
      let mut kept_tx = Vec::new();
      let mut kept_rx = Vec::new();
      for j in pjoins {
        if let Ok(Some(h)) = j.join() {
          kept_tx.push(h);
        }
      }
      for j in cjoins {
        if let Ok(Some(h)) = j.join() {
          kept_rx.push(h);
        }
      }
      for (p, h) in kept_tx.into_iter().enumerate() {
        env.producer_gone(p);
        drop(h);
      }
      drop(kept_rx);
      parks.store(fibre::verif::park_count() + PENDING_POLLS.with(|c| c.get()), std::sync::atomic::Ordering::Relaxed);
      if log.lock().unwrap().failure.is_some() {
        stop2.store(true, std::sync::atomic::Ordering::Relaxed);
      }
    });
  }));
  let states = std::mem::take(&mut *states.lock().unwrap());
  let n = states.len();
  let mut outs = Vec::new();
  for (i, st) in states.into_iter().enumerate() {
    let last = i + 1 == n;
    let panic_of_last = if last { r.as_ref().err().map(|p| crate::panic_msg(p)) } else { None };
    outs.push(judge(s, st, panic_of_last, drainer_exists));
    if outs.last().unwrap().failure.is_some() {
      break;
    }
  }
  if outs.is_empty() {
    if let Err(p) = &r {
      let msg = crate::panic_msg(p);
      outs.push(ExecOut { failure: Some(Failure::new("C01", format!("E3/{}/panic/{}", s.flavour.name(), crate::panic_site(&msg)), format!("panic before the first execution: {msg}"))), inconclusive: false, parked: false, classes: vec![], nontrivial: false });
    }
  }
  outs
}

fn judge(s: &Scenario, st: ExecState, panic_msg: Option<String>, drainer_exists: bool) -> ExecOut {
  let ExecState { seed, log, reg, parks } = st;
  let parked = parks.load(std::sync::atomic::Ordering::Relaxed) > 0;
  let mut out = ExecOut { failure: None, inconclusive: false, parked: false, classes: vec![], nontrivial: false };
  if let Some(msg) = panic_msg {
    if msg.starts_with("deadlock!") {
      // C05 — "No interleaving ... leaves a thread parked forever while the operation it is
      // waiting for has become possible": the program terminates by specification, so every
      // blocked operation has become possible (peer progress or disconnection).
      let l = log.lock().unwrap();
      let blocked_recv = l.recvs.iter().filter(|r| r.2 == 0).count();
      let blocked_send = l.sends.values().filter(|e| e.2 == 0).count();
      let what = if blocked_recv > 0 && blocked_send > 0 { "senders_and_receivers" } else if blocked_recv > 0 { "receiver" } else { "sender" };
      // A deadlock is always a C05 matter.  It is *also* a violation of the disconnect
      // protocol (C04) when the blocked side's peers are all gone — "after the last receiver
      // is dropped or closed every send form fails with Closed" / receivers "observe
      // Disconnected" — and of C07 on the broadcast channel ("closing or dropping a receiver
      // ... unblocks a parked sender").  It is reported under the property being checked.
      let all_consumers_gone = l.consumer_gone.len() >= s.consumers.len();
      let all_producers_gone = l.producer_gone.len() >= s.producers.len();
      let disconnect_related = (blocked_send > 0 && all_consumers_gone) || (blocked_recv > 0 && all_producers_gone);
      let cur = crate::current_property();
      let prop = if cur == "C04" && disconnect_related {
        "C04"
      } else if cur == "C07" && s.flavour == Flavour::Broadcast {
        "C07"
      } else if cur == "C06" {
        // C06: "an executor that polls only woken tasks never stalls while progress is possible;
        // this holds for any mix of sync and async handles on one channel.  Dropping a pending
        // future ... does not swallow a wakeup that another waiting task needs" — under the C06
        // check only executions with async handles / futures in play are generated
        "C06"
      } else {
        "C05"
      };
      out.failure = Some(Failure::new(prop, sig(s, "deadlock", what), format!("schedule seed {seed}: every unfinished thread is blocked ({blocked_send} send(s) / {blocked_recv} receive(s) in progress; producers gone: {:?}, consumers gone: {:?}) — {}", l.producer_gone.keys().collect::<Vec<_>>(), l.consumer_gone.keys().collect::<Vec<_>>(), msg.chars().take(160).collect::<String>())));
    } else if msg.starts_with("exceeded max_steps") {
      out.inconclusive = true;
    } else {
      // a panic inside the library during a legal operation is outside what any of the
      // behavioural properties allows: reported under the property being checked
      let cur = crate::current_property();
      let prop: &'static str = ["C01", "C02", "C03", "C04", "C05", "C07", "C09"].into_iter().find(|c| *c == cur).unwrap_or("C01");
      out.failure = Some(Failure::new(prop, format!("E3/{}/panic/{}", s.flavour.name(), crate::panic_site(&msg)), format!("schedule seed {seed}: panic inside the channel: {msg}")));
    }
    return out;
  }
  let mut l = log.lock().unwrap();
  if let Some(f) = l.failure.take() {
    let mut f = f;
    f.message = format!("schedule seed {seed}: {}", f.message);
    out.failure = Some(f);
    return out;
  }
  // end-of-execution oracles
  let received: BTreeSet<u32> = l.recvs.iter().flat_map(|r| r.4.iter().copied()).collect();
  if s.flavour != Flavour::Broadcast {
    // C01 — "each value whose send reports success is returned by exactly one successful
    // receive provided some receiver keeps receiving until it observes Disconnected"
    if drainer_exists || (s.balanced && !s.reserve) {
      let lost: Vec<u32> = l.sends.iter().filter(|(id, e)| e.3 && !received.contains(id)).map(|(id, _)| *id).collect();
      if !lost.is_empty() {
        out.failure = Some(Failure::new("C01", sig(s, "conservation", "lost_value"), format!("schedule seed {seed}: {} value(s) whose send reported Ok were never received although a consumer drained to Disconnected: {:?}", lost.len(), &lost[..lost.len().min(6)])));
        return out;
      }
    }
  }
  // C07: "an unread value is never overwritten" / C09: a value is not destroyed while a receiver
  // is still copying it out of the channel
  let torn = reg.torn();
  if !torn.is_empty() {
    let p = if s.flavour == Flavour::Broadcast { "C07" } else { "C09" };
    out.failure = Some(Failure::new(p, format!("E3/{}/value_overwritten_while_being_read", s.flavour.name()), format!("schedule seed {seed}: value(s) {:?} were overwritten or destroyed in their slot while a receiver was cloning them out", torn)));
    return out;
  }
  // C09 — every value dropped exactly once after all handles are gone
  let dd = reg.double_drops();
  if !dd.is_empty() {
    out.failure = Some(Failure::new("C09", format!("E3/{}/double_drop", s.flavour.name()), format!("schedule seed {seed}: value(s) {:?} dropped more than once", dd)));
    return out;
  }
  let live = reg.live();
  if !live.is_empty() {
    out.failure = Some(Failure::new("C09", format!("E3/{}/leak", s.flavour.name()), format!("schedule seed {seed}: {} value(s) never dropped after every handle is gone, e.g. {:?}", live.len(), &live[..live.len().min(5)])));
    return out;
  }
  let unreceived_ok = l.sends.iter().filter(|(id, e)| e.3 && !received.contains(id)).count();
  let prop = crate::current_property();
  let two_values_one_producer = {
    let mut m: BTreeMap<(usize, usize), usize> = BTreeMap::new();
    for r in l.recvs.iter() {
      for id in &r.4 {
        *m.entry((r.0, (*id / 1000) as usize)).or_default() += 1;
      }
    }
    m.values().any(|n| *n >= 2)
  };
  out.nontrivial = match prop.as_str() {
    "C03" => l.send_refused,
    "C04" => l.disc_observed || l.closed_send,
    "C02" => two_values_one_producer && (s.producers.len() > 1 || l.batch_used),
    "C09" => unreceived_ok > 0 || l.closed_send,
    // C05: "at least one thread actually parked ... and was later released" (the execution
    // finished, so whoever parked was released)
    "C05" | "C06" => parked,
    _ => (l.send_refused && l.send_ok) || l.timeout_fired_with_live_sender,
  };
  if parked {
    out.classes.push("a_thread_parked_and_was_released");
  }
  if l.timeout_fired_with_live_sender {
    out.classes.push("timeout_fired_with_live_sender");
  }
  if l.disc_observed {
    out.classes.push("disconnected_observed");
  }
  if l.closed_send {
    out.classes.push("send_failed_closed");
  }
  if unreceived_ok > 0 {
    out.classes.push("torn_down_nonempty");
  }
  out
}

pub fn execute(s: &Scenario) -> Result<CaseReport, Failure> {
  let mut rep = CaseReport::new();
  rep.executions = 0;
  rep.class(format!("flavour:{}", s.flavour.name()));
  let mut seeds: Vec<u64> = (0..s.schedules.max(1)).map(|i| vcore::mix(s.seed, i as u64)).collect();
  if let Some(one) = std::env::var("VERIF_ONE_SEED").ok().and_then(|v| v.parse::<u64>().ok()) {
    seeds = vec![one];
  }
  let mut any_nt = false;
  for o in run_many(s, seeds) {
    rep.executions += 1;
    if o.inconclusive {
      rep.inconclusive += 1;
      rep.class("step_budget_exhausted");
    }
    if let Some(f) = o.failure {
      return Err(f);
    }
    let _ = o.parked;
    for c in o.classes {
      rep.class(c);
    }
    any_nt |= o.nontrivial;
  }
  rep.nontrivial = any_nt;
  Ok(rep)
}
