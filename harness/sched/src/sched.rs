//! ByteSched — a seed-driven scheduler for shuttle with a PCT-like bias: the running task keeps
//! running unless a draw falls under the preemption threshold; a task that asked to yield
//! (spin loop, timed park) is deprioritised.  Everything is a pure function of the seed.

use shuttle::scheduler::{Schedule, Scheduler, Task, TaskId};

pub struct ByteSched {
  seeds: Vec<u64>,
  next: usize,
  state: u64,
  /// preempt when (draw & 0xff) < threshold
  threshold: u64,
}

impl ByteSched {
  pub fn new(seeds: Vec<u64>) -> ByteSched {
    ByteSched { seeds, next: 0, state: 1, threshold: 32 }
  }
  #[inline]
  fn draw(&mut self) -> u64 {
    // xorshift64*
    let mut x = self.state;
    x ^= x >> 12;
    x ^= x << 25;
    x ^= x >> 27;
    self.state = x;
    x.wrapping_mul(0x2545F4914F6CDD1D)
  }
}

impl Scheduler for ByteSched {
  fn new_execution(&mut self) -> Option<Schedule> {
    if self.next >= self.seeds.len() {
      return None;
    }
    let seed = self.seeds[self.next];
    self.next += 1;
    self.state = vcore::mix(seed, 0x5EED) | 1;
    // few / some / many preemptions, chosen by the seed
    self.threshold = match self.draw() % 4 {
      0 => 6,
      1 => 24,
      2 => 64,
      _ => 128,
    };
    Some(Schedule::new(seed))
  }

  fn next_task(&mut self, runnable: &[&Task], current: Option<TaskId>, is_yielding: bool) -> Option<TaskId> {
    let n = runnable.len();
    let cur_runnable = current.and_then(|c| runnable.iter().position(|t| t.id() == c));
    if let Some(ci) = cur_runnable {
      if !is_yielding {
        let d = self.draw();
        if (d & 0xff) >= self.threshold {
          return Some(runnable[ci].id());
        }
      } else if n > 1 {
        // yielding: pick someone else
        let d = self.draw() as usize;
        let mut k = d % (n - 1);
        if k >= ci {
          k += 1;
        }
        return Some(runnable[k].id());
      }
    }
    let d = self.draw() as usize;
    Some(runnable[d % n].id())
  }

  fn next_u64(&mut self) -> u64 {
    self.draw()
  }
}
