//! sched — E3: generated concurrent programs × generated schedules over the real channel and
//! lock code, with fibre's primitives mapped to the shuttle controlled scheduler (hook H1/H2).
//!
//!   sched check <PROPERTY> <quick|thorough>
//!   sched replay <replay.json>
//!
//! A case is (program, schedule seed).  The program is 2–4 threads with short op lists; each
//! case is executed under S schedules drawn by `ByteSched` (PCT-like: keep running the current
//! task, preempt with small probability, deprioritise yielding tasks), all derived from the
//! case's seed, so a case is a pure function of its JSON.  Verdicts:
//!   * deadlock reported by shuttle (every unfinished task blocked) ⇒ lost wakeup (C05/C10)
//!   * conservation / order / occupancy / disconnect / drop-accounting oracles per execution
//!   * step budget exhausted ⇒ inconclusive (counted), never a violation.

#[path = "../../chan/src/adapt.rs"]
mod adapt;
mod locks;
#[path = "../../chan/src/payload.rs"]
mod payload;
mod prog;
mod sched;
mod topicp;

use std::cell::RefCell;
use vcore::{Check, Ctx, EvidenceMeta, Failure, Replay};

thread_local! {
  static _P: RefCell<String> = RefCell::new(String::new());
}
static GLOBAL_PROPERTY: std::sync::OnceLock<String> = std::sync::OnceLock::new();
static OPEN_FINDINGS: std::sync::OnceLock<Vec<String>> = std::sync::OnceLock::new();

pub fn current_property() -> String {
  GLOBAL_PROPERTY.get().cloned().unwrap_or_default()
}
pub fn finding_open(id: &str) -> bool {
  OPEN_FINDINGS.get().map(|v| v.iter().any(|x| x == id)).unwrap_or(false)
}

pub fn panic_msg(p: &Box<dyn std::any::Any + Send>) -> String {
  if let Some(s) = p.downcast_ref::<&str>() {
    s.to_string()
  } else if let Some(s) = p.downcast_ref::<String>() {
    s.clone()
  } else {
    "non-string panic".to_string()
  }
}
pub fn panic_site(msg: &str) -> String {
  msg.chars().take(48).map(|c| if c.is_ascii_alphanumeric() { c } else { '_' }).collect()
}

fn run_replay(r: &Replay) -> Option<Failure> {
  match r.engine.as_str() {
    "E3" => {
      let s: prog::Scenario = vcore::from_value(&r.scenario);
      prog::execute(&s).err()
    }
    "E3-locks" => {
      let s: locks::Scenario = vcore::from_value(&r.scenario);
      locks::execute(&s).err()
    }
    "E3-topic" => {
      let s: topicp::Scenario = vcore::from_value(&r.scenario);
      topicp::execute(&s).err()
    }
    // replays of engines served by another binary are not ours to run
    _ => None,
  }
}

fn flavours_env(all: Vec<adapt::Flavour>) -> Vec<adapt::Flavour> {
  match std::env::var("VERIF_FLAVOUR") {
    Ok(f) => all.into_iter().filter(|x| x.name() == f).collect(),
    Err(_) => all,
  }
}

fn main() {
  let args: Vec<String> = std::env::args().collect();
  vcore::install_abort_guard(std::env::var("VERIF_DEBUG").is_err());
  match args.get(1).map(|s| s.as_str()) {
    Some("replay") => {
      let r = vcore::read_replay(&args[2]);
      let _ = GLOBAL_PROPERTY.set(r.property.clone());
      match run_replay(&r) {
        Some(f) => {
          println!("replay still fails: [{}] {} :: {}", f.property, f.signature, f.message);
          std::process::exit(1)
        }
        None => {
          println!("replay passes");
          std::process::exit(0)
        }
      }
    }
    Some("run") => {
      let txt = std::fs::read_to_string(&args[2]).expect("read scenario");
      let _ = GLOBAL_PROPERTY.set(args.get(3).cloned().unwrap_or_else(|| "C05".into()));
      let r = if args.get(4).map(|s| s == "locks").unwrap_or(false) {
        locks::execute(&serde_json::from_str(&txt).expect("decode")).map(|_| ())
      } else if args.get(4).map(|s| s == "topic").unwrap_or(false) {
        topicp::execute(&serde_json::from_str(&txt).expect("decode")).map(|_| ())
      } else {
        prog::execute(&serde_json::from_str(&txt).expect("decode")).map(|_| ())
      };
      match r {
        Ok(_) => println!("scenario passes"),
        Err(f) => println!("scenario fails: [{}] {} :: {}", f.property, f.signature, f.message),
      }
    }
    Some("check") => {
      let prop = args[2].clone();
      let tier = args.get(3).cloned().unwrap_or_else(|| "quick".into());
      let _ = GLOBAL_PROPERTY.set(prop.clone());
      let ctx = Ctx::from_args(&prop, &tier);
      let mut check = Check::new(ctx.clone());
      check.run_witnesses(&|r| match r.engine.as_str() {
        "E3" | "E3-locks" | "E3-topic" => run_replay(r),
        _ => Some(Failure::new(&r.property, vcore::FOREIGN_ENGINE, "witness of another engine")),
      });
      check.run_regressions(&|r| run_replay(r));
      let _ = OPEN_FINDINGS.set(check.findings.findings.iter().filter(|f| f.status == "open").map(|f| f.id.clone()).collect());
      let rule: String;
      match prop.as_str() {
        "C10" => {
          let cases = std::env::var("VERIF_CASES").ok().and_then(|s| s.parse().ok()).unwrap_or(ctx.tier.pick(3_000u64, 60_000u64));
          let scheds = ctx.tier.pick(48usize, 200usize);
          vcore::set_current_engine("E3-locks");
          let out = vcore::drive(&ctx, &check.findings, 11, cases, move || locks::scenario_strategy(scheds), |s| locks::execute(s));
          check.absorb("E3-locks", out);
          rule = "generated programs of 2-4 threads over HybridMutex / HybridRwLock (lock/try_lock/read/write/try_*/async acquire with cancellation) x generated schedules; non-trivial = two threads contended for the lock (a thread found it held) in at least one schedule; distinct = hash of the program".into();
        }
        "C08" => {
          let cases = std::env::var("VERIF_CASES").ok().and_then(|s| s.parse().ok()).unwrap_or(ctx.tier.pick(5_000u64, 100_000u64));
          let scheds = ctx.tier.pick(48usize, 200usize);
          vcore::set_current_engine("E3-topic");
          let out = vcore::drive(&ctx, &check.findings, 12, cases, move || topicp::scenario_strategy(scheds), |s| topicp::execute(s));
          check.absorb("E3-topic", out);
          rule = "generated topic programs: 1-2 publisher threads (original sender + clone, sync and async handle forms) and 1-3 receiver threads each changing its own subscriptions, receiving (blocking, try, timed, cancelled futures), cloning, closing or draining, x generated schedules; non-trivial = a publish overlapped a subscription change of a receiver (subscribe / unsubscribe / clone / close in progress during the send) or a mailbox was possibly full; distinct = hash of the program".into();
        }
        _ => {
          if (prop == "C05" || prop == "C04") && std::env::var("VERIF_FLAVOUR").is_err() {
            // topic mailboxes park and disconnect too (hook H1c)
            let cases = std::env::var("VERIF_CASES").ok().and_then(|s| s.parse().ok()).unwrap_or(ctx.tier.pick(1_200u64, 25_000u64));
            let scheds = ctx.tier.pick(48usize, 200usize);
            vcore::set_current_engine("E3-topic");
            let out = vcore::drive(&ctx, &check.findings, 12, cases, move || topicp::scenario_strategy(scheds), |s| topicp::execute(s));
            check.absorb("E3-topic", out);
          }
          let fl = flavours_env(prog::flavours_for(&prop));
          let cases = std::env::var("VERIF_CASES").ok().and_then(|s| s.parse().ok()).unwrap_or(ctx.tier.pick(5_000u64, 100_000u64));
          let scheds = ctx.tier.pick(48usize, 200usize);
          let p2 = prop.clone();
          vcore::set_current_engine("E3");
          let out = vcore::drive(&ctx, &check.findings, 10, cases, move || prog::scenario_strategy(fl.clone(), &p2, scheds), |s| prog::execute(s));
          check.absorb("E3", out);
          rule = format!("generated programs of 2-4 threads (producers/consumers over blocking, timed, non-blocking, batch and async forms, clone/close/drop placements) x generated schedules incl. timeout firings; evaluations = executions (programs x schedules); non-trivial for {prop} = {}; distinct = hash of the program", prog::nt_rule(&prop));
        }
      }
      check.finish(EvidenceMeta {
        level: "exploration",
        rule,
        engine: "E3 generated schedules over real code (shuttle backend, custom byte-driven scheduler)".into(),
        assumptions: vec![
          "sequentially consistent interleavings only (shuttle); weak-memory-only reorderings are out of reach".into(),
          "hook H1/H2: fibre's atomics, Mutex, park/unpark, hint and Instant are mapped to the controlled scheduler / virtual clock under cfg(excsn_fibre_verif, excsn_fibre_verif_shuttle)".into(),
        ],
        extra: Default::default(),
      });
    }
    _ => {
      eprintln!("usage: sched check <PROPERTY> <quick|thorough> | sched replay <file> | sched run <scenario.json> [PROP] [locks]");
      std::process::exit(2)
    }
  }
}
