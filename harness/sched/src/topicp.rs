//! E3-topic — topic pub/sub programs under generated schedules (hook H1c: the topic mailboxes,
//! subscription sets and counters use the controlled-scheduler primitives).
//!
//! A program is 1–2 publisher threads (the original `TopicSender` and a clone) and 1–3 receiver
//! threads, each owning one `TopicReceiver` (sync or async form) whose subscriptions it changes
//! itself while the publishers publish; a receiver thread may clone its receiver mid-run.  Every
//! publisher drops its handle after its last op, so every blocking receive terminates by
//! specification (value or Disconnected): a deadlock is a lost wakeup.
//!
//! Oracle.  Every operation is bracketed by two ticks of a logical clock; since one thread owns a
//! receiver, that receiver's subscription state per topic is a sequence of segments
//! `Sub | Unsub | Maybe` (Maybe = a subscribe/unsubscribe/clone/close of that topic is in
//! progress).  Clauses (C08 text quoted at each check): nothing invented / duplicated, no
//! message of a topic the receiver was *definitely* not subscribed to during the whole send,
//! real-time publish order, no omission of a message published while the receiver was definitely
//! subscribed and its mailbox was provably not full, Disconnected only after every sender
//! handle began to go away, nothing after Disconnected, Disconnected observed once they are all
//! gone, Closed only when no receiver is alive.

use crate::sched::ByteSched;
use fibre::error::*;
use fibre::spmc::topic::{self, AsyncTopicReceiver, TopicReceiver, TopicSender};
use proptest::prelude::*;
use serde::{Deserialize, Serialize};
use std::collections::{BTreeMap, BTreeSet};
use std::future::Future;
use std::sync::atomic::{AtomicBool, AtomicU64, Ordering};
use std::sync::{Arc, Mutex};
use std::task::{Context, Poll, Wake, Waker};
use std::time::Duration;
use vcore::{CaseReport, Failure};

pub const TOPICS: u8 = 3;

#[derive(Clone, Debug, Serialize, Deserialize, PartialEq)]
pub enum SOp {
  Send(u8),
  Yield,
}

#[derive(Clone, Debug, Serialize, Deserialize, PartialEq)]
pub enum ROp {
  Sub(u8),
  Unsub(u8),
  TryRecv,
  /// blocking receive (sync) / block_on(recv()) (async)
  Recv,
  /// recv_timeout(1 ms) on sync receivers (virtual time); try_recv on async ones
  RecvTimeout,
  /// async receivers: poll a recv future once, yield, drop it if still pending
  RecvCancel,
  /// clone the receiver; the clone is drained by this thread at the end
  CloneRx,
  Yield,
}

#[derive(Clone, Debug, Serialize, Deserialize, PartialEq)]
pub enum REnd {
  /// keep receiving (blocking) until Disconnected
  Drain,
  /// close(), check that receives are rejected, drop
  Close,
  Drop,
}

#[derive(Clone, Debug, Serialize, Deserialize)]
pub struct RThread {
  pub init: Vec<u8>,
  pub ops: Vec<ROp>,
  pub end: REnd,
  pub is_async: bool,
}

#[derive(Clone, Debug, Serialize, Deserialize)]
pub struct Scenario {
  pub cap: usize,
  /// thread 0 owns the original sender, thread 1 (if any) a clone made before the threads start
  pub senders: Vec<Vec<SOp>>,
  /// true: the sender closes its handle before dropping it
  pub close_senders: Vec<bool>,
  pub receivers: Vec<RThread>,
  pub seed: u64,
  pub schedules: usize,
}

pub fn scenario_strategy(schedules: usize) -> BoxedStrategy<Scenario> {
  let sop = prop_oneof![8 => (0..TOPICS).prop_map(SOp::Send), 1 => Just(SOp::Yield)];
  let rop = prop_oneof![
    4 => (0..TOPICS).prop_map(ROp::Sub),
    4 => (0..TOPICS).prop_map(ROp::Unsub),
    3 => Just(ROp::TryRecv),
    3 => Just(ROp::Recv),
    2 => Just(ROp::RecvTimeout),
    2 => Just(ROp::RecvCancel),
    1 => Just(ROp::CloneRx),
    1 => Just(ROp::Yield),
  ];
  let rthread = (
    proptest::collection::vec(0..TOPICS, 0..3),
    proptest::collection::vec(rop, 0..7),
    prop_oneof![5 => Just(REnd::Drain), 1 => Just(REnd::Close), 1 => Just(REnd::Drop)],
    any::<bool>(),
  )
    .prop_map(|(init, ops, end, is_async)| RThread { init, ops, end, is_async });
  (
    prop_oneof![1 => Just(1usize), 2 => Just(2usize), 1 => Just(3usize), 2 => Just(64usize)],
    proptest::collection::vec(proptest::collection::vec(sop, 1..7), 1..=2),
    proptest::collection::vec(any::<bool>(), 2),
    proptest::collection::vec(rthread, 1..=3),
    any::<u64>(),
  )
    .prop_map(move |(cap, senders, close_senders, receivers, seed)| Scenario { cap, senders, close_senders, receivers, seed, schedules })
    .boxed()
}

// ------------------------------------------------------------------------------------------
// log

#[derive(Clone, Debug)]
struct SendRec {
  id: u64,
  topic: u8,
  t0: u64,
  t1: u64,
  ok: bool,
}

#[derive(Clone, Copy, Debug, PartialEq)]
enum Seg {
  Sub,
  Unsub,
  Maybe,
}

#[derive(Clone, Debug)]
enum RecvOut {
  Val(u8, u64),
  Empty,
  Timeout,
  Disc,
  /// cancelled future: nothing obtained
  Cancelled,
}

#[derive(Clone, Debug, Default)]
struct RxLog {
  /// creation interval (0,0 for receivers made before the threads start)
  born: (u64, u64),
  /// per topic: (from, state) change points in time order
  segs: BTreeMap<u8, Vec<(u64, Seg)>>,
  /// (t0, t1, outcome, form)
  recvs: Vec<(u64, u64, RecvOut, &'static str)>,
  /// time the receiver began to close / drop (u64::MAX while alive)
  gone_from: Option<u64>,
  self_closed_at: Option<u64>,
}

#[derive(Default)]
struct Log {
  sends: Vec<SendRec>,
  /// per sender handle: time it began to go away
  sender_gone_from: Vec<Option<u64>>,
  sender_gone_done: Vec<Option<u64>>,
  rx: Vec<RxLog>,
  failure: Option<Failure>,
  blocked_recv: i64,
}

struct Env {
  clock: AtomicU64,
  next_id: AtomicU64,
  log: Mutex<Log>,
  parks: AtomicU64,
}

impl Env {
  fn tick(&self) -> u64 {
    self.clock.fetch_add(1, Ordering::SeqCst) + 1
  }
  fn fail(&self, prop: &str, sig: String, msg: String) {
    let mut g = self.log.lock().unwrap();
    if g.failure.is_none() {
      g.failure = Some(Failure::new(prop, sig, msg));
    }
  }
  fn failed(&self) -> bool {
    self.log.lock().unwrap().failure.is_some()
  }
}

fn sig(form: &str, clause: &str) -> String {
  format!("E3-topic/{form}/{clause}")
}

/// C04 sentences (drain then Disconnected, Closed) are reported as C04 under the C04 check.
fn dprop() -> &'static str {
  if crate::current_property() == "C04" {
    "C04"
  } else {
    "C08"
  }
}

struct Flag(AtomicBool);
impl Wake for Flag {
  fn wake(self: Arc<Self>) {
    self.0.store(true, Ordering::SeqCst);
  }
}

enum Rx {
  Sync(TopicReceiver<u8, u64>),
  Async(AsyncTopicReceiver<u8, u64>),
}

impl Rx {
  fn subscribe(&self, t: u8) {
    match self {
      Rx::Sync(r) => r.subscribe(t),
      Rx::Async(r) => r.subscribe(t),
    }
  }
  fn unsubscribe(&self, t: u8) {
    match self {
      Rx::Sync(r) => r.unsubscribe(&t),
      Rx::Async(r) => r.unsubscribe(&t),
    }
  }
  fn try_recv(&self) -> RecvOut {
    let r = match self {
      Rx::Sync(r) => r.try_recv(),
      Rx::Async(r) => r.try_recv(),
    };
    match r {
      Ok((t, v)) => RecvOut::Val(t, v),
      Err(TryRecvError::Empty) => RecvOut::Empty,
      Err(TryRecvError::Disconnected) => RecvOut::Disc,
    }
  }
  fn recv(&self) -> RecvOut {
    let r = match self {
      Rx::Sync(r) => r.recv(),
      Rx::Async(r) => shuttle::future::block_on(r.recv()),
    };
    match r {
      Ok((t, v)) => RecvOut::Val(t, v),
      Err(RecvError::Disconnected) => RecvOut::Disc,
    }
  }
  fn recv_timeout(&self) -> RecvOut {
    match self {
      Rx::Sync(r) => match r.recv_timeout(Duration::from_millis(1)) {
        Ok((t, v)) => RecvOut::Val(t, v),
        Err(RecvErrorTimeout::Timeout) => RecvOut::Timeout,
        Err(RecvErrorTimeout::Disconnected) => RecvOut::Disc,
      },
      Rx::Async(_) => self.try_recv(),
    }
  }
  fn recv_cancel(&self) -> RecvOut {
    match self {
      Rx::Sync(_) => self.try_recv(),
      Rx::Async(r) => {
        let flag = Arc::new(Flag(AtomicBool::new(false)));
        let waker = Waker::from(flag);
        let mut cx = Context::from_waker(&waker);
        let mut fut = Box::pin(r.recv());
        let conv = |r: Result<(u8, u64), RecvError>| match r {
          Ok((t, v)) => RecvOut::Val(t, v),
          Err(RecvError::Disconnected) => RecvOut::Disc,
        };
        if let Poll::Ready(r) = fut.as_mut().poll(&mut cx) {
          return conv(r);
        }
        shuttle::thread::yield_now();
        // C06/C08: dropping the pending future must not lose a message: whatever was delivered
        // stays in the mailbox for the next receive (completeness clauses below see it)
        drop(fut);
        RecvOut::Cancelled
      }
    }
  }
  fn clone_rx(&self) -> Rx {
    match self {
      Rx::Sync(r) => Rx::Sync(r.clone()),
      Rx::Async(r) => Rx::Async(r.clone()),
    }
  }
  fn close(&self) -> bool {
    match self {
      Rx::Sync(r) => r.close().is_ok(),
      Rx::Async(r) => r.close().is_ok(),
    }
  }
}

/// run one receive form on receiver `rid`, logging interval and outcome
fn do_recv(env: &Env, rx: &Rx, rid: usize, form: &'static str) -> RecvOut {
  let t0 = env.tick();
  if form == "recv" {
    env.log.lock().unwrap().blocked_recv += 1;
  }
  let out = match form {
    "try_recv" => rx.try_recv(),
    "recv" => rx.recv(),
    "recv_timeout" => rx.recv_timeout(),
    _ => rx.recv_cancel(),
  };
  let t1 = env.tick();
  let mut g = env.log.lock().unwrap();
  if form == "recv" {
    g.blocked_recv -= 1;
  }
  g.rx[rid].recvs.push((t0, t1, out.clone(), form));
  out
}

fn set_seg(env: &Env, rid: usize, topic: u8, t: u64, s: Seg) {
  env.log.lock().unwrap().rx[rid].segs.entry(topic).or_default().push((t, s));
}

fn receiver_main(env: Arc<Env>, rx: Rx, rid: usize, th: RThread) {
  // model of this receiver's own subscription set (it is the only thread changing it)
  let mut subs: BTreeSet<u8> = th.init.iter().cloned().collect();
  let mut clones: Vec<(Rx, usize)> = Vec::new();
  for op in th.ops.iter() {
    if env.failed() {
      break;
    }
    match op {
      ROp::Yield => shuttle::thread::yield_now(),
      ROp::Sub(t) => {
        let t0 = env.tick();
        if !subs.contains(t) {
          set_seg(&env, rid, *t, t0, Seg::Maybe);
        }
        rx.subscribe(*t);
        let t1 = env.tick();
        if subs.insert(*t) {
          set_seg(&env, rid, *t, t1, Seg::Sub);
        }
      }
      ROp::Unsub(t) => {
        let t0 = env.tick();
        if subs.contains(t) {
          set_seg(&env, rid, *t, t0, Seg::Maybe);
        }
        rx.unsubscribe(*t);
        let t1 = env.tick();
        if subs.remove(t) {
          set_seg(&env, rid, *t, t1, Seg::Unsub);
        }
      }
      ROp::TryRecv => {
        do_recv(&env, &rx, rid, "try_recv");
      }
      ROp::Recv => {
        do_recv(&env, &rx, rid, "recv");
      }
      ROp::RecvTimeout => {
        do_recv(&env, &rx, rid, if th.is_async { "try_recv" } else { "recv_timeout" });
      }
      ROp::RecvCancel => {
        do_recv(&env, &rx, rid, if th.is_async { "recv_cancel" } else { "try_recv" });
      }
      ROp::CloneRx => {
        if clones.len() >= 2 {
          continue;
        }
        let t0 = env.tick();
        let cid = {
          let mut g = env.log.lock().unwrap();
          let mut l = RxLog::default();
          l.born = (t0, t0);
          for t in 0..TOPICS {
            // a clone starts with its parent's subscriptions; they are established one by one
            // during clone(): Maybe until clone() returned
            l.segs.insert(t, vec![(t0, if subs.contains(&t) { Seg::Maybe } else { Seg::Unsub })]);
          }
          g.rx.push(l);
          g.rx.len() - 1
        };
        let c = rx.clone_rx();
        let t1 = env.tick();
        {
          let mut g = env.log.lock().unwrap();
          g.rx[cid].born = (t0, t1);
          for t in subs.iter() {
            g.rx[cid].segs.get_mut(t).unwrap().push((t1, Seg::Sub));
          }
        }
        clones.push((c, cid));
      }
    }
  }
  let finish = |rx: Rx, rid: usize, end: &REnd| {
    if env.failed() {
      std::mem::forget(rx);
      return;
    }
    match end {
      REnd::Drain => {
        loop {
          match do_recv(&env, &rx, rid, "recv") {
            RecvOut::Val(..) => {}
            _ => break,
          }
          if env.failed() {
            break;
          }
        }
        let t = env.tick();
        env.log.lock().unwrap().rx[rid].gone_from = Some(t);
        drop(rx);
      }
      REnd::Close => {
        let t = env.tick();
        {
          let mut g = env.log.lock().unwrap();
          g.rx[rid].gone_from = Some(t);
          for tp in 0..TOPICS {
            g.rx[rid].segs.entry(tp).or_default().push((t, Seg::Maybe));
          }
        }
        let ok = rx.close();
        let t1 = env.tick();
        {
          let mut g = env.log.lock().unwrap();
          g.rx[rid].self_closed_at = Some(t1);
          for tp in 0..TOPICS {
            g.rx[rid].segs.entry(tp).or_default().push((t1, Seg::Unsub));
          }
        }
        if !ok {
          env.fail("C04", sig("close_rx", "first_close_failed"), "first close() of a receiver returned CloseError".into());
        }
        // C04: "every op on a self-closed handle fails" — a self-closed receiver never yields a value
        if let RecvOut::Val(t, v) = do_recv(&env, &rx, rid, "try_recv") {
          env.fail("C04", sig("try_recv", "value_on_self_closed_handle"), format!("a self-closed receiver obtained ({t}, #{v})"));
        }
        drop(rx);
      }
      REnd::Drop => {
        let t = env.tick();
        {
          let mut g = env.log.lock().unwrap();
          g.rx[rid].gone_from = Some(t);
        }
        drop(rx);
      }
    }
  };
  for (c, cid) in clones {
    // clones are always drained: they were subscribed for certain from clone() on
    finish(c, cid, &REnd::Drain);
  }
  finish(rx, rid, &th.end);
}

fn sender_main(env: Arc<Env>, tx: TopicSender<u8, u64>, sid: usize, ops: Vec<SOp>, close_first: bool, as_async: bool) {
  enum Tx {
    S(TopicSender<u8, u64>),
    A(topic::AsyncTopicSender<u8, u64>),
  }
  let tx = if as_async { Tx::A(tx.to_async()) } else { Tx::S(tx) };
  for op in ops {
    if env.failed() {
      break;
    }
    match op {
      SOp::Yield => shuttle::thread::yield_now(),
      SOp::Send(t) => {
        let id = env.next_id.fetch_add(1, Ordering::SeqCst);
        let t0 = env.tick();
        let r = match &tx {
          Tx::S(s) => s.send(t, id),
          Tx::A(s) => s.send(t, id),
        };
        let t1 = env.tick();
        env.log.lock().unwrap().sends.push(SendRec { id, topic: t, t0, t1, ok: r.is_ok() });
      }
    }
  }
  let t = env.tick();
  env.log.lock().unwrap().sender_gone_from[sid] = Some(t);
  if close_first {
    let ok = match &tx {
      Tx::S(s) => s.close().is_ok(),
      Tx::A(s) => s.close().is_ok(),
    };
    if !ok {
      env.fail("C04", sig("close_tx", "first_close_failed"), "first close() of a sender returned CloseError".into());
    }
  }
  drop(tx);
  let t = env.tick();
  env.log.lock().unwrap().sender_gone_done[sid] = Some(t);
}

// ------------------------------------------------------------------------------------------
// oracle over one finished execution

fn seg_at(segs: &[(u64, Seg)], t: u64) -> Seg {
  let mut cur = Seg::Unsub;
  for (from, s) in segs {
    if *from <= t {
      cur = *s;
    } else {
      break;
    }
  }
  cur
}

/// states the receiver's subscription to `topic` went through during [a, b]
fn states_during(segs: &[(u64, Seg)], a: u64, b: u64) -> (bool, bool, bool) {
  let (mut sub, mut unsub, mut maybe) = (false, false, false);
  let mut mark = |s: Seg| match s {
    Seg::Sub => sub = true,
    Seg::Unsub => unsub = true,
    Seg::Maybe => maybe = true,
  };
  mark(seg_at(segs, a));
  for (from, s) in segs {
    if *from > a && *from <= b {
      mark(*s);
    }
  }
  (sub, unsub, maybe)
}

struct Verdict {
  overlap_change: bool,
  overflow: bool,
  disconnected_seen: bool,
}

fn judge(env: &Env, s: &Scenario) -> Result<Verdict, Failure> {
  let g = env.log.lock().unwrap();
  let mut v = Verdict { overlap_change: false, overflow: false, disconnected_seen: false };
  let by_id: BTreeMap<u64, &SendRec> = g.sends.iter().map(|r| (r.id, r)).collect();
  let empty: Vec<(u64, Seg)> = Vec::new();
  let last_sender_gone_from = g.sender_gone_from.iter().map(|x| x.unwrap_or(u64::MAX)).max().unwrap_or(0);
  let all_senders_gone_done = g.sender_gone_done.iter().map(|x| x.unwrap_or(u64::MAX)).max().unwrap_or(0);
  for (rid, r) in g.rx.iter().enumerate() {
    let mut got: Vec<(u64, u64)> = Vec::new(); // (id, t1 of the receive)
    let mut seen = BTreeSet::new();
    let mut disc_at: Option<u64> = None;
    for (t0, t1, out, form) in r.recvs.iter() {
      match out {
        RecvOut::Val(topic, id) => {
          // C08: "never a message ... " that was not published: nothing is invented
          let Some(sr) = by_id.get(id) else {
            return Err(Failure::new("C08", sig(form, "phantom"), format!("receiver {rid} obtained ({topic}, #{id}) which nobody published")));
          };
          if sr.topic != *topic {
            return Err(Failure::new("C08", sig(form, "topic_mismatch"), format!("receiver {rid} obtained #{id} under topic {topic}, it was published to topic {}", sr.topic)));
          }
          // C08: "each at most once"
          if !seen.insert(*id) {
            return Err(Failure::new("C08", sig(form, "duplicate"), format!("receiver {rid} obtained #{id} twice")));
          }
          // C08: "a receiver observes Disconnected only after ... it has drained its mailbox"
          if let Some(d) = disc_at {
            if r.self_closed_at.is_none() {
              return Err(Failure::new(dprop(), sig(form, "value_after_disconnected"), format!("receiver {rid} obtained ({topic}, #{id}) at t={t1} after it had observed Disconnected at t={d}")));
            }
          }
          // C08: "and never a message of a topic it is not subscribed to"
          let segs = r.segs.get(topic).unwrap_or(&empty);
          let (sub, _unsub, maybe) = states_during(segs, sr.t0, sr.t1);
          if !sub && !maybe {
            return Err(Failure::new("C08", sig(form, "foreign_topic"), format!("receiver {rid} obtained ({topic}, #{id}) published during [{}, {}] although it was not subscribed to topic {topic} at any time in that interval (segments {:?})", sr.t0, sr.t1, segs)));
          }
          got.push((*id, *t1));
        }
        RecvOut::Disc => {
          v.disconnected_seen = true;
          if r.self_closed_at.map(|c| c <= *t0).unwrap_or(false) {
            continue;
          }
          // C08: "A receiver observes Disconnected only after every sender handle is gone"
          if last_sender_gone_from > *t1 {
            return Err(Failure::new(dprop(), sig(form, "disconnected_with_live_sender"), format!("receiver {rid} observed Disconnected at t={t1} while a sender handle had not begun to close or drop (last one at t={last_sender_gone_from})")));
          }
          if disc_at.is_none() {
            disc_at = Some(*t1);
          }
        }
        RecvOut::Empty | RecvOut::Timeout => {
          // C08: "and it does observe it then, whatever its subscriptions": every sender handle
          // was gone before this receive began, yet it reports Empty/Timeout rather than Disconnected
          if all_senders_gone_done < *t0 && r.self_closed_at.is_none() {
            return Err(Failure::new(dprop(), sig(form, "empty_after_all_senders_gone"), format!("receiver {rid}: {form} at [{t0}, {t1}] reported {:?} although every sender handle was gone at t={all_senders_gone_done} and nothing was buffered", out)));
          }
        }
        RecvOut::Cancelled => {}
      }
    }
    // C08: "in publish order": b's publish completed before a's began, yet a was received first
    for i in 0..got.len() {
      for j in (i + 1)..got.len() {
        let (a, b) = (by_id[&got[i].0], by_id[&got[j].0]);
        if b.t1 < a.t0 {
          return Err(Failure::new("C08", sig("order", "publish_order"), format!("receiver {rid} obtained #{} (published [{}, {}]) before #{} (published [{}, {}])", a.id, a.t0, a.t1, b.id, b.t0, b.t1)));
        }
      }
    }
    // C08: "exactly the messages published to topics it is subscribed to at publish time ...
    // the only permitted omission is the newest message for a receiver whose mailbox is full"
    let drained = disc_at.is_some() && r.self_closed_at.is_none();
    let gone = r.gone_from.unwrap_or(u64::MAX);
    for sr in g.sends.iter().filter(|x| x.ok) {
      if seen.contains(&sr.id) {
        continue;
      }
      if sr.t0 <= r.born.1 || sr.t1 >= gone {
        continue;
      }
      let segs = r.segs.get(&sr.topic).unwrap_or(&empty);
      let (sub, unsub, maybe) = states_during(segs, sr.t0, sr.t1);
      if maybe {
        v.overlap_change = true;
      }
      if !(sub && !unsub && !maybe) {
        continue;
      }
      // upper bound of the mailbox occupancy at the delivery instant: messages possibly
      // delivered to this receiver whose publish began before this one ended, minus values
      // this receiver had already taken out before this publish began
      let possibly_before = g
        .sends
        .iter()
        .filter(|o| o.id != sr.id && o.t0 < sr.t1)
        .filter(|o| {
          let (s2, _u2, m2) = states_during(r.segs.get(&o.topic).unwrap_or(&empty), o.t0, o.t1);
          s2 || m2
        })
        .count();
      let taken_before = r.recvs.iter().filter(|(_, t1, out, _)| matches!(out, RecvOut::Val(..)) && *t1 < sr.t0).count();
      if possibly_before.saturating_sub(taken_before) >= s.cap {
        v.overflow = true;
        continue; // the mailbox may have been full: permitted omission
      }
      // the message is owed; it is missing if the receiver drained to Disconnected, or if it
      // already obtained a message whose publish began after this one had completed
      let later = got.iter().any(|(id, _)| by_id[id].t0 > sr.t1);
      if drained || later {
        return Err(Failure::new("C08", sig("delivery", if drained { "omitted_message_drained" } else { "omitted_message_gap" }), format!("receiver {rid} was subscribed to topic {} during the whole publish [{}, {}] of #{} and its mailbox (capacity {}) held at most {} message(s) then, but it never obtained it ({})", sr.topic, sr.t0, sr.t1, sr.id, s.cap, possibly_before.saturating_sub(taken_before), if drained { "it drained to Disconnected" } else { "it obtained a later message" })));
      }
    }
  }
  // C04/C08: send fails Closed only when no receiver is alive
  for sr in g.sends.iter().filter(|x| !x.ok) {
    let alive = g.rx.iter().any(|r| r.born.1 < sr.t0 && r.gone_from.unwrap_or(u64::MAX) > sr.t1);
    if alive {
      return Err(Failure::new(dprop(), sig("send", "closed_with_live_receiver"), format!("send #{} at [{}, {}] failed Closed although a receiver was alive during the whole call", sr.id, sr.t0, sr.t1)));
    }
  }
  Ok(v)
}

pub fn execute(s: &Scenario) -> Result<CaseReport, Failure> {
  use std::panic::{catch_unwind, AssertUnwindSafe};
  let mut rep = CaseReport::new();
  rep.executions = 0;
  rep.class("topic");
  rep.class(format!("topic_cap{}", s.cap));
  let seeds: Vec<u64> = match std::env::var("VERIF_ONE_SEED").ok().and_then(|v| v.parse::<u64>().ok()) {
    Some(one) => vec![one],
    None => (0..s.schedules.max(1)).map(|i| vcore::mix(s.seed, i as u64)).collect(),
  };
  let states: Arc<Mutex<Vec<(u64, Arc<Env>)>>> = Arc::new(Mutex::new(Vec::new()));
  let stop = Arc::new(AtomicBool::new(false));
  let mut config = shuttle::Config::new();
  config.max_steps = shuttle::MaxSteps::FailAfter(100_000);
  config.failure_persistence = shuttle::FailurePersistence::None;
  config.silence_warnings = true;
  config.stack_size = 0x20000;
  let runner = shuttle::Runner::new(ByteSched::new(seeds.clone()), config);
  let sc = s.clone();
  let states2 = states.clone();
  let stop2 = stop.clone();
  let seeds2 = seeds.clone();
  let r = catch_unwind(AssertUnwindSafe(move || {
    runner.run(move || {
      if stop2.load(Ordering::Relaxed) {
        return;
      }
      fibre::verif::reset_virtual_clock();
      let env = Arc::new(Env { clock: AtomicU64::new(0), next_id: AtomicU64::new(1), log: Mutex::new(Log::default()), parks: AtomicU64::new(0) });
      {
        let mut g = states2.lock().unwrap();
        let i = g.len();
        g.push((seeds2[i.min(seeds2.len() - 1)], env.clone()));
      }
      let (tx, rx0) = topic::channel::<u8, u64>(sc.cap);
      let nrx = sc.receivers.len();
      let mut rxs: Vec<TopicReceiver<u8, u64>> = vec![rx0];
      for i in 1..nrx {
        // further receivers are clones of the (unsubscribed) first one
        let c = rxs[0].clone();
        let _ = i;
        rxs.push(c);
      }
      {
        let mut g = env.log.lock().unwrap();
        g.sender_gone_from = vec![None; sc.senders.len()];
        g.sender_gone_done = vec![None; sc.senders.len()];
        for (i, th) in sc.receivers.iter().enumerate() {
          let mut l = RxLog::default();
          for t in 0..TOPICS {
            l.segs.insert(t, vec![(0, if th.init.contains(&t) { Seg::Sub } else { Seg::Unsub })]);
          }
          g.rx.push(l);
          for t in th.init.iter() {
            rxs[i].subscribe(*t);
          }
        }
      }
      let mut txs = vec![tx];
      for _ in 1..sc.senders.len() {
        let c = txs[0].clone();
        txs.push(c);
      }
      let mut joins = Vec::new();
      for (i, (th, rx)) in sc.receivers.iter().cloned().zip(rxs.into_iter()).enumerate() {
        let env = env.clone();
        let rx = if th.is_async { Rx::Async(rx.to_async()) } else { Rx::Sync(rx) };
        joins.push(shuttle::thread::spawn(move || receiver_main(env, rx, i, th)));
      }
      for (i, (ops, tx)) in sc.senders.iter().cloned().zip(txs.into_iter()).enumerate() {
        let env = env.clone();
        let close_first = sc.close_senders.get(i).cloned().unwrap_or(false);
        // the second sender thread publishes through the async handle form
        joins.push(shuttle::thread::spawn(move || sender_main(env, tx, i, ops, close_first, i == 1)));
      }
      for j in joins {
        let _ = j.join();
      }
      env.parks.store(fibre::verif::park_count(), Ordering::Relaxed);
      if env.failed() {
        stop2.store(true, Ordering::Relaxed);
      }
    });
  }));
  let states = std::mem::take(&mut *states.lock().unwrap());
  let n = states.len();
  let (mut any_overlap, mut any_overflow, mut any_disc) = (false, false, false);
  let mut parked = false;
  let cur = crate::current_property();
  for (i, (seed, env)) in states.into_iter().enumerate() {
    rep.executions += 1;
    if let Some(mut f) = env.log.lock().unwrap().failure.take() {
      f.message = format!("schedule seed {seed}: {}", f.message);
      return Err(f);
    }
    if i + 1 == n {
      if let Err(p) = &r {
        let msg = crate::panic_msg(p);
        if msg.starts_with("deadlock!") {
          // C05: "A thread blocked in ... recv ... returns once ... an item becomes available, or the
          // other side disconnects"; C08: "and it does observe it [Disconnected] then"
          let prop = match cur.as_str() {
            "C05" => "C05",
            "C04" => "C04",
            _ => "C08",
          };
          let blocked = env.log.lock().unwrap().blocked_recv;
          return Err(Failure::new(prop, sig("recv", "deadlock"), format!("schedule seed {seed}: every unfinished thread is blocked ({blocked} blocking receive(s) in progress) although every publisher drops its handle after its last op — {}", msg.chars().take(200).collect::<String>())));
        } else if msg.starts_with("exceeded max_steps") {
          rep.inconclusive += 1;
          continue;
        } else {
          let prop = match cur.as_str() {
            "C05" | "C04" | "C08" => cur.as_str(),
            _ => "C08",
          };
          return Err(Failure::new(prop, format!("E3-topic/panic/{}", crate::panic_site(&msg)), format!("schedule seed {seed}: panic inside the topic channel: {msg}")));
        }
      }
    }
    parked |= env.parks.load(Ordering::Relaxed) > 0;
    match judge(&env, s) {
      Ok(v) => {
        any_overlap |= v.overlap_change;
        any_overflow |= v.overflow;
        any_disc |= v.disconnected_seen;
      }
      Err(mut f) => {
        f.message = format!("schedule seed {seed}: {}", f.message);
        return Err(f);
      }
    }
  }
  if any_overlap {
    rep.class("topic_publish_overlapped_subscription_change");
  }
  if any_overflow {
    rep.class("topic_mailbox_possibly_full");
  }
  if any_disc {
    rep.class("topic_disconnected_observed");
  }
  if parked {
    rep.class("topic_receiver_parked");
  }
  rep.nontrivial = match cur.as_str() {
    "C05" => parked,
    "C04" => any_disc,
    _ => any_overlap || any_overflow,
  };
  Ok(rep)
}
