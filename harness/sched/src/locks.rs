//! placeholder (C10 programs) — replaced below
use serde::{Deserialize, Serialize};
use proptest::prelude::*;
use vcore::{CaseReport, Failure};
#[derive(Clone, Debug, Serialize, Deserialize)]
pub struct Scenario { pub seed: u64 }
pub fn scenario_strategy(_s: usize) -> BoxedStrategy<Scenario> { any::<u64>().prop_map(|seed| Scenario{seed}).boxed() }
pub fn execute(_s: &Scenario) -> Result<CaseReport, Failure> { Ok(CaseReport::new()) }
