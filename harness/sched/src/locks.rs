//! C10 — HybridMutex / HybridRwLock under generated schedules.
//!
//! Programs: 2–4 threads, each a list of acquire operations (blocking, try, async via block_on,
//! async-then-cancel).  The protected value carries plain (non-scheduled) occupancy counters;
//! every critical section checks them on entry and yields a generated number of times while
//! holding the guard.  Every guard is released, so the program terminates by specification:
//! a deadlock is a lost wakeup / corrupted wait queue.

use crate::sched::ByteSched;
use fibre::sync::{HybridMutex, HybridRwLock};
use proptest::prelude::*;
use serde::{Deserialize, Serialize};
use std::future::Future;
use std::pin::Pin;
use std::sync::atomic::{AtomicBool, AtomicI32, AtomicUsize, Ordering};
use std::sync::{Arc, Mutex};
use std::task::{Context, Poll, Wake, Waker};
use vcore::{CaseReport, Failure};

#[derive(Clone, Debug, Serialize, Deserialize, PartialEq)]
pub enum LOp {
  /// blocking exclusive acquire (mutex lock / rwlock write), hold for n yields
  Lock(u8),
  TryLock(u8),
  /// async exclusive acquire driven to completion
  LockAsync(u8),
  /// async exclusive acquire: poll once, yield n times, poll again (if `repoll`), then drop it
  /// whatever its state (a granted guard is released normally)
  LockAsyncCancel(u8, bool),
  /// shared forms (rwlock only; on a mutex they fall back to the exclusive form)
  Read(u8),
  TryRead(u8),
  ReadAsync(u8),
  ReadAsyncCancel(u8, bool),
  Yield,
}

#[derive(Clone, Debug, Serialize, Deserialize)]
pub struct Scenario {
  pub rwlock: bool,
  pub threads: Vec<Vec<LOp>>,
  pub seed: u64,
  pub schedules: usize,
}

pub fn scenario_strategy(schedules: usize) -> BoxedStrategy<Scenario> {
  let hold = 0u8..3;
  let op = prop_oneof![
    6 => hold.clone().prop_map(LOp::Lock),
    3 => hold.clone().prop_map(LOp::TryLock),
    4 => hold.clone().prop_map(LOp::LockAsync),
    4 => (hold.clone(), any::<bool>()).prop_map(|(h, r)| LOp::LockAsyncCancel(h, r)),
    5 => hold.clone().prop_map(LOp::Read),
    2 => hold.clone().prop_map(LOp::TryRead),
    3 => hold.clone().prop_map(LOp::ReadAsync),
    3 => (hold, any::<bool>()).prop_map(|(h, r)| LOp::ReadAsyncCancel(h, r)),
    1 => Just(LOp::Yield),
  ];
  (any::<bool>(), proptest::collection::vec(proptest::collection::vec(op, 1..6), 2..=4), any::<u64>())
    .prop_map(move |(rwlock, threads, seed)| Scenario { rwlock, threads, seed, schedules })
    .boxed()
}

#[derive(Default)]
struct Tracker {
  writers: AtomicI32,
  readers: AtomicI32,
}

#[derive(Default)]
struct Shared {
  failure: Mutex<Option<Failure>>,
  attempting: AtomicUsize,
  holders: AtomicUsize,
  contended: AtomicBool,
  cancelled_pending: AtomicBool,
}

impl Shared {
  fn fail(&self, sig: &str, msg: String) {
    let mut g = self.failure.lock().unwrap();
    if g.is_none() {
      *g = Some(Failure::new("C10", sig, msg));
    }
  }
  fn failed(&self) -> bool {
    self.failure.lock().unwrap().is_some()
  }
  fn enter_attempt(&self) {
    if self.attempting.fetch_add(1, Ordering::SeqCst) > 0 || self.holders.load(Ordering::SeqCst) > 0 {
      self.contended.store(true, Ordering::SeqCst);
    }
  }
  fn leave_attempt(&self) {
    self.attempting.fetch_sub(1, Ordering::SeqCst);
  }
}

fn kind(rw: bool) -> &'static str {
  if rw {
    "rwlock"
  } else {
    "mutex"
  }
}

/// C10: "a mutex or write guard never coexists with any other guard of the same lock"
fn exclusive_section(sh: &Shared, t: &Tracker, rw: bool, form: &str, hold: u8) {
  sh.holders.fetch_add(1, Ordering::SeqCst);
  let w = t.writers.fetch_add(1, Ordering::SeqCst);
  let r = t.readers.load(Ordering::SeqCst);
  if w != 0 || r != 0 {
    sh.fail(&format!("E3/{}/{}/mutual_exclusion", kind(rw), form), format!("exclusive guard obtained while {w} other exclusive guard(s) and {r} read guard(s) are held"));
  }
  for _ in 0..hold {
    shuttle::thread::yield_now();
  }
  sh.holders.fetch_sub(1, Ordering::SeqCst);
  let w2 = t.writers.fetch_sub(1, Ordering::SeqCst);
  let r2 = t.readers.load(Ordering::SeqCst);
  if w2 != 1 || r2 != 0 {
    sh.fail(&format!("E3/{}/{}/mutual_exclusion", kind(rw), form), format!("while an exclusive guard was held the lock was also granted to others (writers {w2}, readers {r2})"));
  }
}

/// C10: "while read guards may coexist" — but never with a write guard
fn shared_section(sh: &Shared, t: &Tracker, form: &str, hold: u8) {
  sh.holders.fetch_add(1, Ordering::SeqCst);
  t.readers.fetch_add(1, Ordering::SeqCst);
  let w = t.writers.load(Ordering::SeqCst);
  if w != 0 {
    sh.fail(&format!("E3/rwlock/{}/mutual_exclusion", form), format!("read guard obtained while {w} write guard(s) are held"));
  }
  for _ in 0..hold {
    shuttle::thread::yield_now();
  }
  sh.holders.fetch_sub(1, Ordering::SeqCst);
  let w2 = t.writers.load(Ordering::SeqCst);
  t.readers.fetch_sub(1, Ordering::SeqCst);
  if w2 != 0 {
    sh.fail(&format!("E3/rwlock/{}/mutual_exclusion", form), format!("a write guard was granted while a read guard was held (writers {w2})"));
  }
}

struct Flag(AtomicBool);
impl Wake for Flag {
  fn wake(self: Arc<Self>) {
    self.0.store(true, Ordering::SeqCst);
  }
}

/// poll once / yield / optionally poll again / drop.  Returns the guard if it was granted.
fn poll_cancel<'a, G>(sh: &Shared, mut fut: Pin<Box<dyn Future<Output = G> + 'a>>, yields: u8, repoll: bool) -> Option<G> {
  let flag = Arc::new(Flag(AtomicBool::new(false)));
  let waker = Waker::from(flag.clone());
  let mut cx = Context::from_waker(&waker);
  if let Poll::Ready(g) = fut.as_mut().poll(&mut cx) {
    return Some(g);
  }
  for _ in 0..yields {
    shuttle::thread::yield_now();
  }
  if repoll {
    if let Poll::Ready(g) = fut.as_mut().poll(&mut cx) {
      return Some(g);
    }
  }
  // cancelled while pending (possibly already woken): "dropping a pending lock future neither
  // corrupts the wait queue nor loses the wakeup owed to the next waiter" — the other threads'
  // acquisitions still have to terminate (deadlock oracle)
  sh.cancelled_pending.store(true, Ordering::SeqCst);
  drop(fut);
  None
}

fn thread_main(sh: Arc<Shared>, m: Arc<HybridMutex<Tracker>>, rw: Arc<HybridRwLock<Tracker>>, is_rw: bool, ops: Vec<LOp>) {
  for op in ops {
    if sh.failed() {
      return;
    }
    match op {
      LOp::Yield => shuttle::thread::yield_now(),
      LOp::Lock(h) => {
        if is_rw {
          sh.enter_attempt();
          let g = rw.write();
          sh.leave_attempt();
          exclusive_section(&sh, &g, true, "write", h);
        } else {
          sh.enter_attempt();
          let g = m.lock();
          sh.leave_attempt();
          exclusive_section(&sh, &g, false, "lock", h);
        }
      }
      LOp::TryLock(h) => {
        if is_rw {
          if let Some(g) = rw.try_write() {
            exclusive_section(&sh, &g, true, "try_write", h);
          } else {
            sh.contended.store(true, Ordering::SeqCst);
          }
        } else if let Some(g) = m.try_lock() {
          exclusive_section(&sh, &g, false, "try_lock", h);
        } else {
          sh.contended.store(true, Ordering::SeqCst);
        }
      }
      LOp::LockAsync(h) => {
        if is_rw {
          sh.enter_attempt();
          let g = shuttle::future::block_on(rw.write_async());
          sh.leave_attempt();
          exclusive_section(&sh, &g, true, "write_async", h);
        } else {
          sh.enter_attempt();
          let g = shuttle::future::block_on(m.lock_async());
          sh.leave_attempt();
          exclusive_section(&sh, &g, false, "lock_async", h);
        }
      }
      LOp::LockAsyncCancel(h, repoll) => {
        if is_rw {
          if let Some(g) = poll_cancel(&sh, Box::pin(rw.write_async()), h, repoll) {
            exclusive_section(&sh, &g, true, "write_async", 0);
          }
        } else if let Some(g) = poll_cancel(&sh, Box::pin(m.lock_async()), h, repoll) {
          exclusive_section(&sh, &g, false, "lock_async", 0);
        }
      }
      LOp::Read(h) => {
        if is_rw {
          sh.enter_attempt();
          let g = rw.read();
          sh.leave_attempt();
          shared_section(&sh, &g, "read", h);
        } else {
          let g = m.lock();
          exclusive_section(&sh, &g, false, "lock", h);
        }
      }
      LOp::TryRead(h) => {
        if is_rw {
          if let Some(g) = rw.try_read() {
            shared_section(&sh, &g, "try_read", h);
          } else {
            sh.contended.store(true, Ordering::SeqCst);
          }
        } else if let Some(g) = m.try_lock() {
          exclusive_section(&sh, &g, false, "try_lock", h);
        }
      }
      LOp::ReadAsync(h) => {
        if is_rw {
          let g = shuttle::future::block_on(rw.read_async());
          shared_section(&sh, &g, "read_async", h);
        } else {
          let g = shuttle::future::block_on(m.lock_async());
          exclusive_section(&sh, &g, false, "lock_async", h);
        }
      }
      LOp::ReadAsyncCancel(h, repoll) => {
        if is_rw {
          if let Some(g) = poll_cancel(&sh, Box::pin(rw.read_async()), h, repoll) {
            shared_section(&sh, &g, "read_async", 0);
          }
        } else if let Some(g) = poll_cancel(&sh, Box::pin(m.lock_async()), h, repoll) {
          exclusive_section(&sh, &g, false, "lock_async", 0);
        }
      }
    }
  }
}

pub fn execute(s: &Scenario) -> Result<CaseReport, Failure> {
  use std::panic::{catch_unwind, AssertUnwindSafe};
  let mut rep = CaseReport::new();
  rep.executions = 0;
  rep.class(if s.rwlock { "rwlock" } else { "mutex" });
  let seeds: Vec<u64> = match std::env::var("VERIF_ONE_SEED").ok().and_then(|v| v.parse::<u64>().ok()) {
    Some(one) => vec![one],
    None => (0..s.schedules.max(1)).map(|i| vcore::mix(s.seed, i as u64)).collect(),
  };
  let states: Arc<Mutex<Vec<(u64, Arc<Shared>)>>> = Arc::new(Mutex::new(Vec::new()));
  let stop = Arc::new(AtomicBool::new(false));
  let mut config = shuttle::Config::new();
  config.max_steps = shuttle::MaxSteps::FailAfter(100_000);
  config.failure_persistence = shuttle::FailurePersistence::None;
  config.silence_warnings = true;
  config.stack_size = 0x20000;
  let runner = shuttle::Runner::new(ByteSched::new(seeds.clone()), config);
  let sc = s.clone();
  let states2 = states.clone();
  let stop2 = stop.clone();
  let seeds2 = seeds.clone();
  let r = catch_unwind(AssertUnwindSafe(move || {
    runner.run(move || {
      if stop2.load(Ordering::Relaxed) {
        return;
      }
      let sh = Arc::new(Shared::default());
      {
        let mut g = states2.lock().unwrap();
        let i = g.len();
        g.push((seeds2[i.min(seeds2.len() - 1)], sh.clone()));
      }
      let m = Arc::new(HybridMutex::new(Tracker::default()));
      let rw = Arc::new(HybridRwLock::new(Tracker::default()));
      let mut joins = Vec::new();
      for ops in sc.threads.iter().cloned() {
        let (sh, m, rw, is_rw) = (sh.clone(), m.clone(), rw.clone(), sc.rwlock);
        joins.push(shuttle::thread::spawn(move || thread_main(sh, m, rw, is_rw, ops)));
      }
      for j in joins {
        let _ = j.join();
      }
      if sh.failed() {
        stop2.store(true, Ordering::Relaxed);
      }
    });
  }));
  let states = std::mem::take(&mut *states.lock().unwrap());
  let n = states.len();
  let mut any_contended = false;
  for (i, (seed, sh)) in states.into_iter().enumerate() {
    rep.executions += 1;
    if let Some(mut f) = sh.failure.lock().unwrap().take() {
      f.message = format!("schedule seed {seed}: {}", f.message);
      return Err(f);
    }
    if i + 1 == n {
      if let Err(p) = &r {
        let msg = crate::panic_msg(p);
        if msg.starts_with("deadlock!") {
          // C10: "Blocking and async acquirers both eventually acquire after the lock is
          // released ... dropping a pending lock future neither corrupts the wait queue nor
          // loses the wakeup owed to the next waiter"
          let c = if sh.cancelled_pending.load(Ordering::SeqCst) { "deadlock_after_cancelled_future" } else { "deadlock" };
          return Err(Failure::new("C10", format!("E3/{}/{}", kind(s.rwlock), c), format!("schedule seed {seed}: every unfinished thread is blocked although every guard is released by its holder — {}", msg.chars().take(200).collect::<String>())));
        } else if msg.starts_with("exceeded max_steps") {
          rep.inconclusive += 1;
        } else {
          return Err(Failure::new("C10", format!("E3/{}/panic/{}", kind(s.rwlock), crate::panic_site(&msg)), format!("schedule seed {seed}: panic inside the lock: {msg}")));
        }
      }
    }
    any_contended |= sh.contended.load(Ordering::SeqCst);
    if sh.cancelled_pending.load(Ordering::SeqCst) {
      rep.class("cancelled_pending_lock_future");
    }
  }
  if any_contended {
    rep.class("contended");
  }
  rep.nontrivial = any_contended;
  Ok(rep)
}
